//! C01 — generated binding code computes the value of its source expression.  Requests:
//!   (spec-c01 (enums …) (states S…) (prog (prop "i") P)…)   [pred]  every program is bound to a property of object `a`
//!        of the fixed document (a, b : VBase, o : VOther, dv : VDerived) and translated by the REAL pipeline
//!        (generate mode); the real `uisupport_*.h` + a mini `ui_*.h` read off the real `.ui` are compiled with
//!        g++ -std=c++17 against the RUNTIME mock (cxx/rt/qtrt.h + classes generated from metatypes/verif.json by
//!        tools/gen_rt_decls.py) and RUN: objects are built, `setup()` is called, then for every state S the
//!        properties are stored and `eval<Object><Property>()` of the real header is called; the printed values are
//!        the answer `(results (r ok v1 … vN) | (r rejected) | (r constant) | (r syntax-error) …)`.  The Lean driver
//!        evaluates Spec.Sem on the same programs and states and judges: every value the specification defines must
//!        be the printed one (`undef` states are not compared).
//!   (c01-ir (enums …) (states S…) (prog (prop "i") P))       [pred]  the REAL IR of the binding (read-only hook), to be
//!        executed by Model.IrSem in the same states and compared with Spec.Sem (separates builder from emitter).
//!   (c01-body (this…) (objects…) (kind prop "i") P)          [model] the exact text of the real eval function vs
//!        Model.CxxBody (translation of the model IR).
use crate::ast::{self, Decl, Expr, Program, Stmt};
use crate::env::{self, Mode};
use crate::proggen::{Gen, Ty, ALL_TYS};
use crate::rng::Rng;
use crate::sexp::{atom, list, node, num, st, Sexp};
use crate::streams::ir;
use crate::{Case, Stream};
use qmluic::typemap::TypeMap;
use std::fmt::Write as _;
use std::path::{Path, PathBuf};
use std::process::Command;
use std::sync::atomic::{AtomicUsize, Ordering};
use std::sync::OnceLock;

pub struct C01 {
    tm: TypeMap,
    rt: Runtime,
}

pub fn verif_root() -> PathBuf {
    Path::new(env!("CARGO_MANIFEST_DIR")).join("..")
}

// ------------------------------------------------------------------------------------------------ runtime plumbing

/// Per-process work directory (tempfile, removed on drop) holding the generated runtime classes (+ precompiled header).
pub struct Runtime {
    work: OnceLock<Result<tempfile::TempDir, String>>,
    counter: AtomicUsize,
}

pub const GXX_FLAGS: &[&str] = &["-std=c++17", "-O0", "-w", "-fno-diagnostics-show-caret", "-fdiagnostics-color=never", "-fmax-errors=20"];

impl Runtime {
    pub fn new() -> Self {
        Runtime { work: OnceLock::new(), counter: AtomicUsize::new(0) }
    }

    pub fn dir(&self) -> Result<&Path, String> {
        self.work
            .get_or_init(|| {
                let dir = tempfile::Builder::new().prefix("qv-rt-").tempdir_in(std::env::temp_dir()).map_err(|e| e.to_string())?;
                let out = Command::new("python3")
                    .arg(verif_root().join("tools/gen_rt_decls.py"))
                    .arg("-o")
                    .arg(dir.path().join("rtclasses.h"))
                    .arg(verif_root().join("harness/metatypes/verif.json"))
                    .output()
                    .map_err(|e| format!("python3: {e}"))?;
                if !out.status.success() {
                    return Err(format!("gen_rt_decls failed: {}", String::from_utf8_lossy(&out.stderr)));
                }
                // precompiled header (same flags as the translation units); failure only costs time
                let _ = Command::new("g++")
                    .args(GXX_FLAGS)
                    .arg("-I")
                    .arg(verif_root().join("cxx/rt"))
                    .args(["-x", "c++-header"])
                    .arg(dir.path().join("rtclasses.h"))
                    .arg("-o")
                    .arg(dir.path().join("rtclasses.h.gch"))
                    .output();
                Ok(dir)
            })
            .as_ref()
            .map(|d| d.path())
            .map_err(|e| e.clone())
    }

    pub fn batch_dir(&self) -> Result<PathBuf, String> {
        let w = self.dir()?;
        let k = self.counter.fetch_add(1, Ordering::Relaxed);
        let d = w.join(format!("b{k}"));
        std::fs::create_dir_all(&d).map_err(|e| e.to_string())?;
        Ok(d)
    }

    /// compiles `dir/tu.cpp` and runs it; Ok(stdout lines) or Err(first compiler/runtime message)
    pub fn compile_and_run(&self, dir: &Path) -> Result<String, String> {
        let rt = self.dir()?;
        let exe = dir.join("tu.out");
        let out = Command::new("g++")
            .env("LC_ALL", "C")
            .args(GXX_FLAGS)
            .arg("-I")
            .arg(rt)
            .arg("-I")
            .arg(verif_root().join("cxx/rt"))
            .arg("-I")
            .arg(dir)
            .arg(dir.join("tu.cpp"))
            .arg("-o")
            .arg(&exe)
            .output()
            .map_err(|e| format!("cannot run g++: {e}"))?;
        if !out.status.success() {
            let text = String::from_utf8_lossy(&out.stderr);
            let first: Vec<&str> = text.lines().filter(|l| l.contains("error")).take(3).collect();
            // canonical: no temporary directory names in the answer
            let msg = if first.is_empty() { text.lines().next().unwrap_or("failed").to_owned() } else { first.join(" | ") };
            return Err(format!("g++: {}", msg.replace(&format!("{}/", dir.display()), "")));
        }
        let run = Command::new(&exe).output().map_err(|e| format!("cannot run program: {e}"))?;
        let text = String::from_utf8_lossy(&run.stdout).into_owned();
        if !run.status.success() && !text.contains("(done)") {
            return Err(format!("program exited with {:?}: {}", run.status.code(), text.lines().last().unwrap_or("")));
        }
        Ok(text)
    }
}

/// `Ui::<Type>` with one typed pointer per `<widget>` of the real `.ui` (the root widget is the argument of setupUi)
pub fn mini_ui_header(type_name: &str, ui: &str) -> (String, Vec<(String, String)>) {
    let mut members = vec![];
    let mut first = true;
    for part in ui.split("<widget ").skip(1) {
        let tag = &part[..part.find('>').unwrap_or(part.len())];
        let attr = |k: &str| -> Option<String> {
            let p = tag.find(&format!("{k}=\""))? + k.len() + 2;
            Some(tag[p..p + tag[p..].find('"')?].to_owned())
        };
        let (cls, name) = (attr("class").unwrap_or_default(), attr("name").unwrap_or_default());
        if first {
            first = false;
            continue;
        }
        members.push((cls, name));
    }
    let mut s = String::new();
    writeln!(s, "#pragma once\nnamespace Ui {{\nclass {type_name}\n{{\npublic:").unwrap();
    for (c, n) in &members {
        writeln!(s, "    {c} *{n} = nullptr;").unwrap();
    }
    writeln!(s, "    void setupUi(QWidget *root)\n    {{").unwrap();
    for (c, n) in &members {
        writeln!(s, "        {n} = new {c}(root);").unwrap();
    }
    writeln!(s, "    }}\n}};\n}} // namespace Ui").unwrap();
    (s, members)
}

// ------------------------------------------------------------------------------------------------ enum values

/// value of every enumerator of the verification classes — the rule of tools/gen_rt_decls.py (k-th enumerator = k;
/// flag enumerations 0, 1, 2, 4, …), cross-checked by static_asserts in every generated program
pub fn enum_values() -> Vec<(String, Vec<(String, i64)>)> {
    let data: serde_json::Value = serde_json::from_str(include_str!("../../metatypes/verif.json")).unwrap();
    let mut out = vec![];
    for unit in data.as_array().unwrap() {
        for c in unit["classes"].as_array().unwrap() {
            let cname = c["className"].as_str().unwrap();
            let enums = c.get("enums").and_then(|e| e.as_array()).cloned().unwrap_or_default();
            let flag_targets: Vec<String> = enums
                .iter()
                .filter(|e| e["isFlag"].as_bool() == Some(true) && e.get("alias").and_then(|a| a.as_str()).is_some())
                .map(|e| e["alias"].as_str().unwrap().to_owned())
                .collect();
            for e in &enums {
                let name = e["name"].as_str().unwrap();
                let is_flag = flag_targets.iter().any(|t| t == name) || (e["isFlag"].as_bool() == Some(true) && e.get("alias").and_then(|a| a.as_str()).is_some());
                let vals = e["values"]
                    .as_array()
                    .unwrap()
                    .iter()
                    .enumerate()
                    .map(|(k, v)| (v.as_str().unwrap().to_owned(), if is_flag { if k == 0 { 0 } else { 1i64 << (k - 1) } } else { k as i64 }))
                    .collect();
                out.push((format!("{cname}::{name}"), vals));
            }
        }
    }
    out
}

pub fn enums_sexp() -> Sexp {
    node(
        "enums",
        enum_values().into_iter().map(|(e, vs)| list(std::iter::once(st(e)).chain(vs.into_iter().map(|(v, k)| list(vec![st(v), num(k)]))).collect())).collect(),
    )
}

pub fn enum_static_asserts() -> String {
    let mut s = String::new();
    for (e, vs) in enum_values() {
        let cls = e.rsplit_once("::").unwrap().0;
        for (v, k) in vs {
            writeln!(s, "static_assert(int({cls}::{v}) == {k}, \"enum value table\");").unwrap();
        }
    }
    s
}

// ------------------------------------------------------------------------------------------------ states

/// property values of the four objects; typed s-expressions `(int n) (uint n) (double BITS) (bool b) (str "…") (enum n)
/// (ptr "id"|null) (list v…) (variant v)`
pub const VBASE_PROPS: &[(&str, &str)] = &[
    ("i", "int"), ("j", "int"), ("u", "uint"), ("d", "double"), ("e", "double"), ("b", "bool"), ("c", "bool"), ("s", "str"), ("t", "str"),
    ("mode", "enum3"), ("other", "enum2"), ("flags", "flags"), ("next", "pbase"), ("peer", "pother"), ("derived", "pderived"),
    ("items", "strlist"), ("ints", "intlist"), ("vr", "variant"), ("ro", "int"), ("k", "int"), ("nn", "int"),
];
pub const VOTHER_PROPS: &[(&str, &str)] = &[("n", "int"), ("name", "str"), ("kind", "enum2"), ("on", "bool"), ("base", "pbase")];

pub const STRINGS: &[&str] = &["", "a", "b", "abc", "x y", "Z", "é", "\u{e000}", "\u{10000}", "%1", "%1 and %2", "%2%1", "100%", "q\"q", "nl\nx", "\u{1F600}", "\u{FF01}", "ab", "e\u{301}"];

/// string constants whose orders differ between UTF-16 code units (QString, JavaScript: the specification), Unicode code
/// points (Rust `str`) and bytes: astral characters (surrogate pairs 0xD800..) next to U+E000..U+FFFF ones, prefixes of
/// each other, the empty string, a combining mark next to the precomposed character
pub const ORDER_STRINGS: &[&str] = &[
    "", "a", "ab", "abc", "b", "\u{1F600}", "\u{FF01}", "\u{E000}", "\u{10000}", "\u{FFFF}", "\u{10FFFF}", "\u{1F600}a", "\u{FF01}\u{1F600}",
    "a\u{1F600}", "a\u{FF01}", "é", "e\u{301}", "e",
];
const CMP_OPS: &[&str] = &["lt", "le", "gt", "ge", "eq", "ne"];

/// a comparison of two string CONSTANTS (folded by the compiler) whose result the value of the program depends on
fn const_str_cmp(rng: &mut Rng) -> Expr {
    let l = *rng.pick(ORDER_STRINGS);
    // mostly pairs on which the orders disagree or that are prefixes of each other
    let r = match rng.below(4) {
        0 => l,
        _ => *rng.pick(ORDER_STRINGS),
    };
    bin(*rng.pick(CMP_OPS), Expr::Str(l.to_owned()), Expr::Str(r.to_owned()))
}

fn gen_int(rng: &mut Rng) -> i64 {
    match rng.below(12) {
        0 => 0,
        1 => 1,
        2 => -1,
        3 => 2147483647,
        4 => -2147483648,
        5 => -7,
        6 => 7,
        7 => rng.range(-40, 40),
        8 => rng.range(-2147483648, 2147483647),
        9 => *rng.pick(&[2, 3, 31, 32, 33, 255, 256, 65535, 65536, 1073741824, -1073741824]),
        _ => rng.range(-5, 12),
    }
}

fn gen_value(rng: &mut Rng, kind: &str) -> Sexp {
    match kind {
        "int" => node("int", vec![num(gen_int(rng))]),
        "uint" => node(
            "uint",
            vec![num(match rng.below(8) {
                0 => 0u64,
                1 => 1,
                2 => 4294967295,
                3 => 2147483648,
                4 => 2147483647,
                5 => rng.below(40) as u64,
                6 => rng.next_u64() % 4294967296,
                _ => rng.below(8) as u64,
            })],
        ),
        "double" => {
            let v: f64 = match rng.below(14) {
                0 => 0.0,
                1 => -0.0,
                2 => 1.0,
                3 => -1.5,
                4 => 2.5,
                5 => 0.1,
                6 => 1e300,
                7 => -1e300,
                8 => 3.9999,
                9 => -3.9999,
                10 => 2147483648.5,
                11 => f64::INFINITY,
                12 => f64::NAN,
                _ => (rng.range(-2000, 2000) as f64) / 8.0,
            };
            if v.is_nan() {
                node("double", vec![num(0x7ff8000000000000u64)])
            } else {
                node("double", vec![num(v.to_bits())])
            }
        }
        "bool" => node("bool", vec![crate::sexp::boolean(rng.chance(1, 2))]),
        "str" => node("str", vec![st(*rng.pick(STRINGS))]),
        "enum3" => node("enum", vec![num(rng.below(3))]),
        "enum2" => node("enum", vec![num(rng.below(2))]),
        "flags" => node("enum", vec![num(rng.below(8))]),
        "pbase" => node("ptr", vec![match rng.below(5) { 0 => atom("null"), 1 => st("a"), 2 => st("b"), 3 => st("dv"), _ => st("b") }]),
        "pother" => node("ptr", vec![if rng.chance(1, 4) { atom("null") } else { st("o") }]),
        "pderived" => node("ptr", vec![if rng.chance(1, 4) { atom("null") } else { st("dv") }]),
        "strlist" => node("list", (0..rng.below(4)).map(|_| node("str", vec![st(*rng.pick(STRINGS))])).collect()),
        "intlist" => node("list", (0..rng.below(4)).map(|_| node("int", vec![num(gen_int(rng))])).collect()),
        "variant" => node(
            "variant",
            vec![match rng.below(4) {
                0 => node("int", vec![num(gen_int(rng))]),
                1 => node("str", vec![st(*rng.pick(STRINGS))]),
                2 => node("bool", vec![crate::sexp::boolean(rng.chance(1, 2))]),
                _ => node("double", vec![num((rng.range(-100, 100) as f64 / 4.0).to_bits())]),
            }],
        ),
        _ => panic!("kind {kind}"),
    }
}

/// the state of freshly constructed objects — the one `setup()` evaluates every binding in
pub fn init_state() -> Sexp {
    let dflt = |kind: &str| -> Sexp {
        match kind {
            "int" => node("int", vec![num(0)]),
            "uint" => node("uint", vec![num(0)]),
            "double" => node("double", vec![num(0)]),
            "bool" => node("bool", vec![crate::sexp::boolean(false)]),
            "str" => node("str", vec![st("")]),
            "enum3" | "enum2" | "flags" => node("enum", vec![num(0)]),
            "pbase" | "pother" | "pderived" => node("ptr", vec![atom("null")]),
            "strlist" | "intlist" => node("list", vec![]),
            "variant" => node("variant", vec![atom("invalid")]),
            _ => panic!("kind {kind}"),
        }
    };
    let mut objs = vec![];
    for (id, cls) in ir::OBJECTS {
        let mut v = vec![st(*id)];
        let props: Vec<(&str, &str)> = match *cls {
            "VOther" => VOTHER_PROPS.to_vec(),
            "VDerived" => VBASE_PROPS.iter().cloned().chain([("extra", "int")]).collect(),
            _ => VBASE_PROPS.to_vec(),
        };
        for (p, k) in props {
            v.push(list(vec![atom(p), dflt(k)]));
        }
        objs.push(node("obj", v));
    }
    node("init", vec![node("state", objs)])
}

pub fn gen_state(rng: &mut Rng) -> Sexp {
    let mut objs = vec![];
    for (id, cls) in ir::OBJECTS {
        let mut v = vec![st(*id)];
        let props: Vec<(&str, &str)> = match *cls {
            "VOther" => VOTHER_PROPS.to_vec(),
            "VDerived" => VBASE_PROPS.iter().cloned().chain([("extra", "int")]).collect(),
            _ => VBASE_PROPS.to_vec(),
        };
        for (p, k) in props {
            v.push(list(vec![atom(p), gen_value(rng, k)]));
        }
        objs.push(node("obj", v));
    }
    node("state", objs)
}

fn cxx_value(v: &Sexp, cxx_ty: &str) -> String {
    let (tag, a) = v.as_node().expect("value node");
    match tag {
        "int" => {
            let n = a[0].as_i64().unwrap();
            if n == -2147483648 { "(-2147483647 - 1)".into() } else { n.to_string() }
        }
        "uint" => format!("{}u", a[0].as_atom().unwrap()),
        "double" => format!("rt::dbl({}ULL)", a[0].as_atom().unwrap()),
        "bool" => a[0].as_atom().unwrap().to_owned(),
        "str" => {
            let units: Vec<String> = a[0].as_str().unwrap().encode_utf16().map(|u| u.to_string()).collect();
            format!("rt::str({{{}}})", units.join(", "))
        }
        "enum" => format!("static_cast<{cxx_ty}>({})", a[0].as_atom().unwrap()),
        "ptr" => match a[0].as_str() {
            Some(id) => format!("static_cast<{cxx_ty}>({id})"),
            None => "nullptr".into(),
        },
        "list" => {
            let elem = if cxx_ty == "QStringList" { "QString" } else { "int" };
            format!("{cxx_ty}{{{}}}", a.iter().map(|x| cxx_value(x, elem)).collect::<Vec<_>>().join(", "))
        }
        "variant" => format!("QVariant({})", cxx_value(&a[0], "")),
        _ => panic!("value tag {tag}"),
    }
}

pub fn cxx_value_pub(v: &Sexp, cxx_ty: &str) -> String {
    cxx_value(v, cxx_ty)
}

fn cxx_type_of(cls: &str, prop: &str) -> &'static str {
    match (cls, prop) {
        (_, "mode") => "VBase::Mode",
        (_, "other") => "VBase::Other",
        (_, "flags") => "VBase::Flags",
        (_, "next") | (_, "base") => "VBase *",
        (_, "peer") => "VOther *",
        (_, "derived") => "VDerived *",
        (_, "items") => "QStringList",
        (_, "ints") => "QList<int>",
        ("VOther", "kind") => "VOther::Kind",
        _ => "",
    }
}

/// `static void set_state(int k, VBase *a, VBase *b, VOther *o, VDerived *dv)`: direct stores, no signals
pub fn cxx_set_state(states: &[Sexp]) -> String {
    let mut s = String::from("static void set_state(int k, VBase *a, VBase *b, VOther *o, VDerived *dv)\n{\n    switch (k) {\n");
    for (k, state) in states.iter().enumerate() {
        writeln!(s, "    case {k}:").unwrap();
        let (_, objs) = state.as_node().unwrap();
        for o in objs {
            let (_, f) = o.as_node().unwrap();
            let id = f[0].as_str().unwrap();
            let cls = ir::OBJECTS.iter().find(|(i, _)| *i == id).unwrap().1;
            for pv in &f[1..] {
                let l = pv.as_list().unwrap();
                let p = l[0].as_atom().unwrap();
                writeln!(s, "        {id}->{p}_ = {};", cxx_value(&l[1], cxx_type_of(cls, p))).unwrap();
            }
        }
        writeln!(s, "        break;").unwrap();
    }
    s.push_str("    }\n}\n");
    s
}

// ------------------------------------------------------------------------------------------------ programs

pub fn prop_type(prop: &str) -> Ty {
    *ALL_TYS.iter().find(|t| t.base_props().contains(&prop)).unwrap_or(&Ty::Int)
}

fn id(n: &str) -> Expr {
    Expr::Ident(n.to_owned())
}
fn mem(o: Expr, p: &str) -> Expr {
    Expr::Member(Box::new(o), p.to_owned())
}
fn bin(op: &'static str, l: Expr, r: Expr) -> Expr {
    Expr::Binary(op, Box::new(l), Box::new(r))
}
fn int(v: u64) -> Expr {
    Expr::Int(v, v.to_string())
}
fn neg(v: u64) -> Expr {
    Expr::Unary("minus", Box::new(int(v)))
}
fn call(f: Expr, args: Vec<Expr>) -> Expr {
    Expr::Call(Box::new(f), args)
}
fn as_(v: Expr, t: &str) -> Expr {
    Expr::As(Box::new(v), vec![t.to_owned()])
}
fn tern(c: Expr, a: Expr, b: Expr) -> Expr {
    Expr::Ternary(Box::new(c), Box::new(a), Box::new(b))
}
fn let_(name: &str, v: Expr) -> Stmt {
    Stmt::Lexical(false, vec![Decl { name: name.into(), ty: None, value: Some(v) }])
}
fn const_(name: &str, v: Expr) -> Stmt {
    Stmt::Lexical(true, vec![Decl { name: name.into(), ty: None, value: Some(v) }])
}
fn ret(e: Expr) -> Stmt {
    Stmt::Return(Some(e))
}
fn dyn_int(rng: &mut Rng) -> Expr {
    match rng.below(6) {
        0 => mem(id("a"), "i"),
        1 => mem(id("a"), "j"),
        2 => mem(id("b"), "i"),
        3 => mem(id("o"), "n"),
        4 => id("j"),
        _ => mem(id("dv"), "extra"),
    }
}
fn small_const(rng: &mut Rng) -> Expr {
    let v = *rng.pick(&[1u64, 2, 3, 5, 7, 8, 31, 32, 100, 255, 65536, 2147483647, 2147483648, 4294967295, 4294967296]);
    if rng.chance(1, 3) { neg(v) } else { int(v) }
}

/// targeted programs for what the general generator rarely or never produces; returns (bound property, program, label)
pub fn targeted(rng: &mut Rng) -> (&'static str, Program, &'static str) {
    let block = |ss: Vec<Stmt>| Program::Stmt(Stmt::Block(ss));
    let expr = |e: Expr| Program::Stmt(Stmt::Expr(e));
    match rng.below(18) {
        16 => {
            // FOLDED comparisons of string constants decide the run-time value (UTF-16 code unit order; class of seeded/C01/7)
            let c = const_str_cmp(rng);
            match rng.below(6) {
                0 => ("s", block(vec![Stmt::If(c, Box::new(ret(mem(id("a"), "s"))), None), Stmt::Expr(Expr::Str("no".into()))]), "const-string-compare-if"),
                1 => ("i", expr(tern(c, dyn_int(rng), mem(id("b"), "j"))), "const-string-compare-ternary"),
                2 => ("b", expr(bin(*rng.pick(&["land", "lor"]), c, mem(id("a"), "b"))), "const-string-compare-logical"),
                3 => ("b", expr(bin(*rng.pick(&["eq", "ne"]), c, mem(id("a"), "c"))), "const-string-compare-eq-bool"),
                4 => {
                    // switch labels are compared with == : constant discriminant against constant labels
                    let d = *rng.pick(ORDER_STRINGS);
                    let l1 = *rng.pick(ORDER_STRINGS);
                    let sw = Stmt::Switch(
                        Expr::Str(d.to_owned()),
                        vec![
                            (Some(Expr::Str(l1.to_owned())), vec![Stmt::Expr(dyn_int(rng)), Stmt::Break(false)]),
                            (Some(Expr::Str(d.to_owned())), vec![Stmt::Expr(mem(id("b"), "j")), Stmt::Break(false)]),
                            (None, vec![Stmt::Expr(int(7))]),
                        ],
                    );
                    ("i", block(vec![sw]), "const-string-compare-switch")
                }
                _ => {
                    // nested: the folded comparison inside an if inside a ternary branch, next to a run-time comparison
                    let c2 = const_str_cmp(rng);
                    let rt = bin(*rng.pick(CMP_OPS), mem(id("a"), "s"), Expr::Str(rng.pick(ORDER_STRINGS).to_string()));
                    ("i", block(vec![Stmt::If(bin("land", c, rt), Box::new(ret(tern(c2.clone(), int(1), int(2)))), Some(Box::new(Stmt::Expr(tern(c2, int(3), int(4))))))]), "const-string-compare-nested")
                }
            }
        }
        17 => {
            // RUN-TIME comparisons of such strings: property against constant, property against property, concatenation
            let op = *rng.pick(CMP_OPS);
            let lit = Expr::Str(rng.pick(ORDER_STRINGS).to_string());
            match rng.below(4) {
                0 => ("b", expr(bin(op, mem(id("a"), "s"), lit)), "string-compare-runtime"),
                1 => ("b", expr(bin(op, lit, mem(id("b"), "t"))), "string-compare-runtime"),
                2 => ("b", expr(bin(op, bin("add", mem(id("a"), "s"), lit), mem(id("b"), "s"))), "string-compare-runtime"),
                _ => ("i", block(vec![Stmt::Switch(mem(id("a"), "s"), vec![(Some(lit), vec![ret(int(1))]), (Some(mem(id("b"), "t")), vec![ret(int(2))]), (None, vec![Stmt::Expr(int(3))])])]), "string-compare-runtime"),
            }
        }
        14 => {
            // a `let` directly in an `if` branch: the branch is a scope of its own (regression: F32, repaired by a011e08)
            let p = block(vec![
                let_("x", int(1)),
                Stmt::If(mem(id("a"), "b"), Box::new(let_("x", int(2))), Some(Box::new(let_("x", int(3))))),
                Stmt::Expr(bin("add", id("x"), dyn_int(rng))),
            ]);
            ("i", p, "let-in-if-branch")
        }
        15 => {
            // a local that is never assigned: undefined in every state (the C++ reads an uninitialised variable)
            let p = block(vec![Stmt::Lexical(false, vec![Decl { name: "v".into(), ty: Some(vec!["VBase".into()]), value: None }]), ret(mem(id("v"), "next"))]);
            ("next", p, "uninitialised-local")
        }
        0 => {
            // % / and shifts with negative and boundary operands
            let op = *rng.pick(&["rem", "div", "shl", "shr"]);
            let (l, r) = match rng.below(4) {
                0 => (dyn_int(rng), small_const(rng)),
                1 => (small_const(rng), dyn_int(rng)),
                2 => (Expr::Unary("minus", Box::new(dyn_int(rng))), dyn_int(rng)),
                _ => (dyn_int(rng), dyn_int(rng)),
            };
            ("i", expr(bin(op, l, r)), "neg-rem-shift")
        }
        1 => {
            // the same on uint
            let op = *rng.pick(&["rem", "div", "shl", "shr", "sub", "mul", "add"]);
            let l = if rng.chance(1, 2) { id("u") } else { as_(dyn_int(rng), "uint") };
            let r = match rng.below(3) { 0 => mem(id("b"), "u"), 1 => int(*rng.pick(&[0, 1, 2, 3, 31, 32, 7, 4294967295])), _ => as_(dyn_int(rng), "uint") };
            ("u", expr(bin(op, l, r)), "uint-arith")
        }
        2 => {
            // Math.min / Math.max on uint (with an untyped constant: F13), int, double
            let f = *rng.pick(&["max", "min"]);
            match rng.below(3) {
                0 => {
                    let l = if rng.chance(1, 2) { id("u") } else { mem(id("b"), "u") };
                    let r = if rng.chance(1, 2) { int(*rng.pick(&[0, 1, 7, 2147483648, 4294967295])) } else { mem(id("b"), "u") };
                    let (l, r) = if rng.chance(1, 2) { (l, r) } else { (r, l) };
                    ("u", expr(call(mem(id("Math"), f), vec![l, r])), "minmax-uint")
                }
                1 => ("i", expr(call(mem(id("Math"), f), vec![dyn_int(rng), if rng.chance(1, 2) { small_const(rng) } else { dyn_int(rng) }])), "minmax-int"),
                _ => ("d", expr(call(mem(id("Math"), f), vec![mem(id("a"), "d"), if rng.chance(1, 2) { Expr::Float("0.0".into()) } else { mem(id("b"), "e") }])), "minmax-double"),
            }
        }
        3 => {
            // folded constant sub-expression next to a dynamic one
            let c1 = bin(*rng.pick(&["add", "sub", "mul", "div", "rem", "shl", "shr", "band", "bor", "bxor"]), small_const(rng), small_const(rng));
            let op = *rng.pick(&["add", "sub", "mul", "div", "rem", "band", "bor", "bxor", "shl", "shr"]);
            let d = dyn_int(rng);
            let e = if rng.chance(1, 2) { bin(op, d, c1) } else { bin(op, c1, d) };
            ("i", expr(e), "fold-next-to-dynamic")
        }
        4 => {
            // nested switch, default in the middle, fall-through
            let inner = Stmt::Switch(
                dyn_int(rng),
                vec![
                    (Some(int(0)), vec![Stmt::Expr(int(10))]),
                    (None, vec![Stmt::Expr(bin("add", dyn_int(rng), int(1))), Stmt::Break(false)]),
                    (Some(int(1)), vec![ret(int(11))]),
                    (Some(neg(1)), vec![]),
                    (Some(int(2)), vec![Stmt::Expr(int(12))]),
                ],
            );
            let outer = Stmt::Switch(
                mem(id("a"), "mode"),
                vec![
                    (Some(mem(id("VBase"), "ModeB")), vec![inner, Stmt::Break(false)]),
                    (None, vec![Stmt::Expr(int(20))]),
                    (Some(mem(id("VBase"), "ModeA")), vec![Stmt::Expr(mem(id("b"), "j"))]),
                ],
            );
            ("i", block(vec![outer]), "nested-switch-default-middle")
        }
        5 => {
            // break under nested if
            let sw = Stmt::Switch(
                dyn_int(rng),
                vec![
                    (Some(int(1)), vec![
                        Stmt::Expr(int(1)),
                        Stmt::If(mem(id("a"), "b"), Box::new(Stmt::Block(vec![Stmt::If(mem(id("b"), "c"), Box::new(Stmt::Break(false)), None), Stmt::Expr(int(2))])), None),
                    ]),
                    (Some(int(2)), vec![Stmt::Expr(int(3)), Stmt::If(mem(id("a"), "c"), Box::new(Stmt::Break(false)), Some(Box::new(Stmt::Expr(int(4)))))]),
                    (None, vec![Stmt::Expr(int(5))]),
                ],
            );
            ("i", block(vec![sw]), "break-under-nested-if")
        }
        6 => {
            // let / const shadowing in nested blocks
            let p = block(vec![
                let_("x", dyn_int(rng)),
                const_("y", bin("add", id("x"), int(1))),
                Stmt::Block(vec![let_("x", bin("mul", id("y"), int(2))), Stmt::Expr(Expr::Assign(Box::new(id("x")), Box::new(bin("sub", id("x"), int(3))))), Stmt::If(mem(id("a"), "b"), Box::new(ret(id("x"))), None)]),
                Stmt::Expr(bin("bxor", id("x"), id("y"))),
            ]);
            ("i", p, "let-shadowing")
        }
        7 => {
            // early return, dead code after return
            let p = block(vec![
                Stmt::If(bin("lt", dyn_int(rng), int(0)), Box::new(ret(neg(1))), None),
                Stmt::If(mem(id("a"), "b"), Box::new(Stmt::Block(vec![ret(dyn_int(rng)), Stmt::Expr(int(99))])), Some(Box::new(Stmt::Block(vec![let_("q", dyn_int(rng)), Stmt::Expr(bin("band", id("q"), int(255)))])))),
            ]);
            ("i", p, "early-return")
        }
        8 => {
            // null guards: short-circuit and ternary protect the dereference
            let g = bin("ne", mem(id("a"), "next"), Expr::Null);
            match rng.below(3) {
                0 => ("i", expr(tern(g, mem(mem(id("a"), "next"), "i"), neg(1))), "null-guard-ternary"),
                1 => ("b", expr(bin("land", g, bin("gt", mem(mem(id("a"), "next"), "i"), int(0)))), "null-guard-and"),
                _ => ("b", expr(bin("lor", bin("eq", mem(id("a"), "next"), Expr::Null), mem(mem(id("a"), "next"), "b"))), "null-guard-or"),
            }
        }
        9 => {
            // casts
            match rng.below(5) {
                0 => ("i", expr(as_(mem(id("a"), "d"), "int")), "cast-double-int"),
                1 => ("u", expr(as_(mem(id("a"), "d"), "uint")), "cast-double-uint"),
                2 => ("d", expr(bin("div", as_(dyn_int(rng), "double"), as_(id("u"), "double"))), "cast-int-double"),
                3 => ("i", expr(bin("add", as_(mem(id("a"), "b"), "int"), as_(mem(id("a"), "flags"), "int"))), "cast-bool-enum"),
                _ => ("u", expr(as_(dyn_int(rng), "uint")), "cast-int-uint"),
            }
        }
        10 => {
            // an untyped constant that takes the type of the other ternary branch
            ("u", expr(bin("sub", tern(mem(id("a"), "b"), int(1), id("u")), int(2))), "ternary-const-uint")
        }
        11 => {
            // strings: concatenation, comparison by UTF-16 unit, arg, isEmpty, subscript
            match rng.below(5) {
                // the translation context of qsTr is the document's type name (the runtime mock's translate() returns
                // `<context>source`; the k-th document of a batch is type `T<k>`, its root object is anonymous)
                4 => ("s", expr(call(mem(call(id("qsTr"), vec![Expr::Str(rng.pick(&["Hello, %1!", "%1", "n"]).to_string())]), "arg"), vec![dyn_int(rng)])), "tr-context"),
                0 => ("b", expr(bin(*rng.pick(&["lt", "le", "gt", "ge", "eq", "ne"]), mem(id("a"), "s"), mem(id("b"), "t"))), "string-compare"),
                1 => ("s", expr(call(mem(call(mem(mem(id("a"), "s"), "arg"), vec![dyn_int(rng)]), "arg"), vec![mem(id("b"), "s")])), "string-arg"),
                2 => ("s", expr(tern(call(mem(mem(id("a"), "items"), "isEmpty"), vec![]), Expr::Str("none".into()), Expr::Subscript(Box::new(mem(id("a"), "items")), Box::new(dyn_int(rng))))), "list-subscript"),
                _ => ("s", expr(bin("add", bin("add", mem(id("a"), "s"), Expr::Str("-".into())), mem(id("o"), "name"))), "string-concat"),
            }
        }
        12 => {
            // switch on strings / enums with completion values from fall-through
            let sw = Stmt::Switch(
                mem(id("a"), "s"),
                vec![
                    (Some(Expr::Str("a".into())), vec![Stmt::Expr(int(1))]),
                    (Some(Expr::Str("b".into())), vec![]),
                    (Some(mem(id("b"), "s")), vec![Stmt::Expr(int(3)), Stmt::Break(false)]),
                    (None, vec![Stmt::Expr(int(4))]),
                ],
            );
            ("i", block(vec![Stmt::Expr(int(0)), sw]), "switch-string")
        }
        _ => {
            // a `let` inside a switch clause: the statement list of a clause is a scope of its own (F40, repaired by 2a702d4:
            // nothing declared in the switch outlives it; F100, repaired by 0aff63c: nor does it reach a later clause)
            let sel = if rng.chance(1, 2) { dyn_int(rng) } else { bin("band", dyn_int(rng), int(3)) };
            match rng.below(5) {
                0 => {
                    let sw = Stmt::Switch(
                        sel,
                        vec![(Some(int(0)), vec![let_("x", int(2)), Stmt::Expr(id("x")), Stmt::Break(false)]), (None, vec![Stmt::Expr(int(7))])],
                    );
                    ("i", block(vec![let_("x", int(1)), sw, Stmt::Expr(bin("add", id("x"), int(100)))]), "let-in-switch-clause")
                }
                1 => {
                    // the clause variable shadows an outer one: after falling through, the later clause reads the OUTER one
                    let sw = Stmt::Switch(
                        sel,
                        vec![
                            (Some(int(0)), vec![let_("v", int(2)), Stmt::Expr(id("v"))]),
                            (Some(int(1)), vec![ret(bin("add", id("v"), int(10)))]),
                            (None, vec![Stmt::Expr(bin("add", id("v"), int(20)))]),
                        ],
                    );
                    ("i", block(vec![let_("v", dyn_int(rng)), sw, Stmt::Expr(bin("add", id("v"), int(100)))]), "switch-clause-scope-shadow")
                }
                2 => {
                    // assignments to an outer variable made in a clause (next to a clause-local declaration) persist
                    let sw = Stmt::Switch(
                        sel,
                        vec![
                            (Some(int(0)), vec![let_("w", bin("mul", id("v"), int(2))), Stmt::Expr(Expr::Assign(Box::new(id("v")), Box::new(bin("add", id("w"), int(1)))))]),
                            (Some(int(1)), vec![const_("w", int(5)), Stmt::Expr(Expr::Assign(Box::new(id("v")), Box::new(bin("sub", id("v"), id("w"))))), Stmt::Break(false)]),
                            (None, vec![]),
                            (Some(int(2)), vec![Stmt::Expr(Expr::Assign(Box::new(id("v")), Box::new(int(0))))]),
                        ],
                    );
                    ("i", block(vec![let_("v", bin("band", dyn_int(rng), int(65535))), sw, Stmt::Expr(id("v"))]), "switch-clause-scope-assign")
                }
                3 => {
                    // the clause variable has the name of a property of `this`: a later clause reads the PROPERTY
                    let sw = Stmt::Switch(
                        sel,
                        vec![
                            (Some(int(0)), vec![let_("j", int(2)), Stmt::Expr(id("j"))]),
                            (Some(int(1)), vec![ret(bin("bxor", id("j"), int(1)))]),
                        ],
                    );
                    ("i", block(vec![sw, Stmt::Expr(id("j"))]), "switch-clause-scope-property")
                }
                _ => {
                    // the clause variable is used by a later clause and nothing outer has that name: rejected
                    let sw = Stmt::Switch(
                        sel,
                        vec![(Some(int(0)), vec![let_("w", int(2))]), (Some(int(1)), vec![ret(id("w"))]), (None, vec![Stmt::Expr(int(3))])],
                    );
                    ("i", block(vec![sw, Stmt::Expr(int(4))]), "switch-clause-scope-rejected")
                }
            }
        }
    }
}

/// does the expression contain no identifier (a constant expression) and an integer literal outside the `int` range?
fn big_constant(e: &Expr) -> bool {
    fn pure(e: &Expr) -> bool {
        match e {
            Expr::Int(..) => true,
            Expr::Unary(_, a) => pure(a),
            Expr::Binary(_, l, r) => pure(l) && pure(r),
            _ => false,
        }
    }
    fn has_big(e: &Expr) -> bool {
        match e {
            Expr::Int(v, _) => *v > 2147483647,
            Expr::Unary(_, a) => has_big(a),
            Expr::Binary(_, l, r) => has_big(l) || has_big(r),
            _ => false,
        }
    }
    pure(e) && has_big(e)
}

fn any_expr(p: &Program, f: &dyn Fn(&Expr) -> bool) -> bool {
    fn ex(e: &Expr, f: &dyn Fn(&Expr) -> bool) -> bool {
        if f(e) {
            return true;
        }
        match e {
            Expr::Array(es) => es.iter().any(|x| ex(x, f)),
            Expr::Member(o, _) => ex(o, f),
            Expr::Subscript(o, i) => ex(o, f) || ex(i, f),
            Expr::Call(g, args) => ex(g, f) || args.iter().any(|x| ex(x, f)),
            Expr::Assign(l, r) | Expr::Binary(_, l, r) => ex(l, f) || ex(r, f),
            Expr::Unary(_, a) | Expr::As(a, _) => ex(a, f),
            Expr::Ternary(c, a, b) => ex(c, f) || ex(a, f) || ex(b, f),
            _ => false,
        }
    }
    fn stm(s: &Stmt, f: &dyn Fn(&Expr) -> bool) -> bool {
        match s {
            Stmt::Expr(e) => ex(e, f),
            Stmt::Block(ss) => ss.iter().any(|x| stm(x, f)),
            Stmt::Lexical(_, ds) => ds.iter().any(|d| d.value.as_ref().map(|v| ex(v, f)).unwrap_or(false)),
            Stmt::If(c, a, b) => ex(c, f) || stm(a, f) || b.as_ref().map(|b| stm(b, f)).unwrap_or(false),
            Stmt::Switch(v, cl) => ex(v, f) || cl.iter().any(|(c, b)| c.as_ref().map(|c| ex(c, f)).unwrap_or(false) || b.iter().any(|x| stm(x, f))),
            Stmt::Break(_) => false,
            Stmt::Return(e) => e.as_ref().map(|e| ex(e, f)).unwrap_or(false),
        }
    }
    match p {
        Program::Stmt(s) => stm(s, f),
        Program::Function { body, .. } => match body {
            crate::ast::FnBody::Expr(e) => ex(e, f),
            crate::ast::FnBody::Stmt(s) => stm(s, f),
        },
    }
}

/// candidates of finding F41 (`Math.max`/`Math.min` with an integer constant that is not an `int`: `std::max(int&, long)`
/// does not compile) are run in batches of their own so that they cannot mask anything else
pub fn f41_candidate(p: &Program) -> bool {
    any_expr(p, &|e| match e {
        Expr::Call(f, args) => matches!(&**f, Expr::Member(o, m) if matches!(&**o, Expr::Ident(n) if n == "Math") && (m == "max" || m == "min")) && args.iter().any(big_constant),
        _ => false,
    })
}

/// the same family in method-call position: `a.bump(2147483648)` is emitted with a `long` literal, the overloads
/// `bump(int)` / `bump(double)` become ambiguous
pub fn f41_method_candidate(p: &Program) -> bool {
    any_expr(p, &|e| match e {
        Expr::Call(f, args) => matches!(&**f, Expr::Member(_, m) if m == "bump") && args.iter().any(big_constant),
        _ => false,
    })
}

// ------------------------------------------------------------------------------------------------ the stream

struct Built {
    name: String,
    header: String,
    ui: String,
    eval_fn: String,
}

enum Status {
    Built(Built),
    Other(&'static str),
}

/// text of the member function `name` of the header (signature line … closing brace), as written
pub fn function_text(header: &str, name: &str) -> Option<String> {
    let lines: Vec<&str> = header.lines().collect();
    let start = lines.iter().position(|l| l.starts_with("    ") && !l.starts_with("     ") && (l.contains(&format!(" {name}(")) || l.trim_start().starts_with(&format!("{name}("))))?;
    let end = lines[start..].iter().position(|l| *l == "    }")? + start;
    Some(lines[start..=end].join("\n"))
}

fn eval_function_name(header: &str) -> Option<String> {
    for l in header.lines() {
        let t = l.trim();
        if let Some(p) = t.find(" eval") {
            if t.ends_with("()") && !t.contains("this->") && !t.contains(';') {
                return Some(t[p + 1..t.len() - 2].to_owned());
            }
        }
    }
    None
}

impl C01 {
    pub fn new() -> Self {
        C01 { tm: env::load_verif_type_map(), rt: Runtime::new() }
    }

    fn translate(&self, type_name: &str, prop: &str, program: &Program) -> Status {
        let src = ir::document(prop, program);
        let t = env::translate(&self.tm, &src, type_name, Mode::Generate);
        if t.syntax_errors > 0 {
            return Status::Other("syntax-error");
        }
        if !t.accepted() {
            return Status::Other("rejected");
        }
        let (Some(header), Some(ui)) = (t.header, t.ui) else { return Status::Other("constant") };
        match eval_function_name(&header) {
            Some(eval_fn) => Status::Built(Built { name: type_name.to_owned(), header, ui, eval_fn }),
            None => Status::Other("constant"),
        }
    }

    fn run_batch(&self, states: &[Sexp], progs: &[(String, Program)]) -> Sexp {
        let stats: Vec<Status> = progs.iter().enumerate().map(|(k, (prop, p))| self.translate(&format!("T{k}"), prop, p)).collect();
        let built: Vec<&Built> = stats.iter().filter_map(|s| if let Status::Built(b) = s { Some(b) } else { None }).collect();
        let mut outputs: std::collections::HashMap<String, Vec<Sexp>> = Default::default();
        if !built.is_empty() {
            let dir = match self.rt.batch_dir() {
                Ok(d) => d,
                Err(e) => return node("fail", vec![st(format!("setup: {e}"))]),
            };
            let r = self.compile_run(&dir, states, &built);
            let _ = std::fs::remove_dir_all(&dir);
            match r {
                Ok(o) => outputs = o,
                Err(e) => {
                    // find the offending program(s) by compiling one by one
                    if built.len() > 1 {
                        for b in &built {
                            let dir = self.rt.batch_dir().unwrap();
                            match self.compile_run(&dir, states, &[b]) {
                                Ok(o) => outputs.extend(o),
                                Err(e) => {
                                    outputs.insert(b.name.clone(), vec![atom("error"), st(e)]);
                                }
                            }
                            let _ = std::fs::remove_dir_all(&dir);
                        }
                    } else {
                        outputs.insert(built[0].name.clone(), vec![atom("error"), st(e)]);
                    }
                }
            }
        }
        let mut rs = vec![];
        for (k, s) in stats.iter().enumerate() {
            match s {
                Status::Other(x) => rs.push(node("r", vec![atom(*x)])),
                Status::Built(b) => match outputs.remove(&b.name) {
                    Some(v) => rs.push(node("r", v)),
                    None => rs.push(node("r", vec![atom("error"), st(format!("no output for program {k}"))])),
                },
            }
        }
        node("results", rs)
    }

    fn compile_run(&self, dir: &Path, states: &[Sexp], built: &[&Built]) -> Result<std::collections::HashMap<String, Vec<Sexp>>, String> {
        let mut tu = String::from("#include \"rtclasses.h\"\n");
        tu.push_str(&enum_static_asserts());
        tu.push_str("#define private public\n");
        for b in built {
            let lower = b.name.to_ascii_lowercase();
            let (uih, members) = mini_ui_header(&b.name, &b.ui);
            if members.len() != ir::OBJECTS.len() {
                return Err(format!("unexpected .ui members {members:?}"));
            }
            std::fs::write(dir.join(format!("ui_{lower}.h")), uih).map_err(|e| e.to_string())?;
            std::fs::write(dir.join(format!("uisupport_{lower}.h")), &b.header).map_err(|e| e.to_string())?;
            writeln!(tu, "#include \"uisupport_{lower}.h\"").unwrap();
        }
        tu.push_str("#undef private\n");
        tu.push_str(&cxx_set_state(states));
        for b in built {
            let n = &b.name;
            writeln!(tu, "static void run_{n}()\n{{").unwrap();
            writeln!(tu, "    QWidget *root = new QWidget; Ui::{n} *ui = new Ui::{n}; ui->setupUi(root);").unwrap();
            writeln!(tu, "    rt::names.clear(); rt::names[root] = \"root\";").unwrap();
            for (id, _) in ir::OBJECTS {
                writeln!(tu, "    rt::names[ui->{id}] = \"{id}\";").unwrap();
            }
            writeln!(tu, "    UiSupport::{n} *sup = new UiSupport::{n}(root, ui);").unwrap();
            writeln!(tu, "    const char *st = rt::guard([&]() {{ sup->setup(); }});").unwrap();
            writeln!(tu, "    std::printf(\"{n} (setup %s)\", st ? st : \"ok\"); std::fflush(stdout);").unwrap();
            writeln!(tu, "    for (int k = 0; k < {}; ++k) {{", states.len()).unwrap();
            writeln!(tu, "        set_state(k, ui->a, ui->b, ui->o, ui->dv);").unwrap();
            writeln!(tu, "        std::string v;").unwrap();
            writeln!(tu, "        const char *f = rt::guard([&]() {{ v = rt::show(sup->{}()); }});", b.eval_fn).unwrap();
            writeln!(tu, "        if (f) std::printf(\" (fail %s)\", f); else std::printf(\" %s\", v.c_str());").unwrap();
            writeln!(tu, "        std::fflush(stdout);").unwrap();
            writeln!(tu, "    }}\n    std::printf(\"\\n\"); std::fflush(stdout);\n}}").unwrap();
        }
        tu.push_str("int main()\n{\n    rt::install();\n");
        for b in built {
            // a program whose undefined behaviour kills the process must not take the batch down
            writeln!(tu, "    rt::in_child([]() {{ run_{}(); }});", b.name).unwrap();
        }
        tu.push_str("    std::printf(\"(done)\\n\");\n    return 0;\n}\n");
        std::fs::write(dir.join("tu.cpp"), tu).map_err(|e| e.to_string())?;
        let text = self.rt.compile_and_run(dir)?;
        let mut out = std::collections::HashMap::new();
        for line in text.lines() {
            if let Some((name, rest)) = line.split_once(' ') {
                if name.starts_with('T') {
                    if let Some(Sexp::List(v)) = Sexp::parse(&format!("({rest})")) {
                        out.insert(name.to_owned(), pad_died(v, states.len()));
                    }
                }
            }
        }
        if !text.contains("(done)") {
            return Err(format!("program did not finish: {}", text.lines().last().unwrap_or("")));
        }
        Ok(out)
    }
}

/// `(setup S) v… [(died)]` of one program → `ok (setup S) v1 … vN`: a program that died (its child process did not exit
/// normally) has `(fail died)` for every state it did not reach (and `(setup died)` if it did not get that far)
pub fn pad_died(v: Vec<Sexp>, nstates: usize) -> Vec<Sexp> {
    let died = v.last().map(|x| x.render() == "(died)").unwrap_or(false);
    let mut items: Vec<Sexp> = if died { v[..v.len() - 1].to_vec() } else { v };
    if items.is_empty() {
        items.push(node("setup", vec![atom("died")]));
    }
    while died && items.len() < nstates + 1 {
        items.push(node("fail", vec![atom("died")]));
    }
    let mut r = vec![atom("ok")];
    r.extend(items);
    r
}

fn parse_progs(args: &[Sexp]) -> (Vec<Sexp>, Vec<(String, Program)>) {
    let mut states = vec![];
    let mut progs = vec![];
    for a in args {
        if let Some((tag, f)) = a.as_node() {
            match tag {
                "states" => states = f.to_vec(),
                "prog" => {
                    let (_, p) = f[0].as_node().unwrap();
                    progs.push((p[0].as_str().unwrap().to_owned(), ast::program_of(&f[1])));
                }
                _ => {}
            }
        }
    }
    (states, progs)
}

pub fn prog_sexp(prop: &str, p: &Program) -> Sexp {
    node("prog", vec![node("prop", vec![st(prop)]), p.sexp()])
}

impl Stream for C01 {
    fn generate(&self, seed: u64, thorough: bool) -> Vec<Case> {
        let mut cases = vec![];
        // (1) execution oracle: batches of programs sharing a set of states
        let (batches, per_batch, nstates) = if thorough { (400, 40, 16) } else { (60, 32, 12) };
        for bk in 0..batches {
            let mut rng = Rng::fork(seed, "c01-batch", bk as u64);
            let states: Vec<Sexp> = (0..nstates).map(|_| gen_state(&mut rng)).collect();
            let mut items = vec![enums_sexp(), init_state(), node("states", states.clone())];
            let mut labels = vec![];
            let mut single = |label: &str, prop: &str, p: &Program| Case {
                kind: "pred",
                labels: vec![label.to_owned()],
                request: node("spec-c01", vec![enums_sexp(), init_state(), node("states", states.clone()), prog_sexp(prop, p)]),
            };
            for k in 0..per_batch {
                let (prop, p, label) = if k % 3 == 0 {
                    let (prop, p, label) = targeted(&mut rng);
                    (prop, p, label.to_owned())
                } else {
                    let ty = *rng.pick(&[Ty::Int, Ty::Int, Ty::Uint, Ty::Double, Ty::Bool, Ty::Bool, Ty::Str, Ty::Mode, Ty::Flags, Ty::PBase, Ty::StrList]);
                    let depth = 1 + rng.below(if thorough { 5 } else { 4 });
                    let mut g = Gen::new(&mut rng, 0);
                    (ir::prop_of(ty), g.binding(ty, depth), format!("{ty:?}"))
                };
                // witnesses of known findings run alone (at most a few per tier), so that they cannot mask anything
                if label == "let-in-switch-clause" {
                    if bk % 8 == 0 {
                        cases.push(single("f40-let-in-switch-clause", prop, &p));
                    }
                    continue;
                }
                if f41_candidate(&p) {
                    if bk % 4 == 0 {
                        cases.push(single("f41-minmax-big-constant", prop, &p));
                    }
                    continue;
                }
                labels.push(label);
                items.push(prog_sexp(prop, &p));
            }
            labels.sort();
            labels.dedup();
            cases.push(Case { kind: "pred", labels, request: node("spec-c01", items) });
        }
        // (2) IR-level oracle and (3) exact body text, per program
        let n = if thorough { 20_000 } else { 2_400 };
        for k in 0..n {
            let mut rng = Rng::fork(seed, "c01-ir", k as u64);
            let states: Vec<Sexp> = (0..6).map(|_| gen_state(&mut rng)).collect();
            let (prop, p, label) = if k % 3 == 0 {
                let (prop, p, label) = targeted(&mut rng);
                (prop, p, label.to_owned())
            } else {
                let ty = *rng.pick(&[Ty::Int, Ty::Int, Ty::Uint, Ty::Double, Ty::Bool, Ty::Bool, Ty::Str, Ty::Mode, Ty::Flags, Ty::PBase, Ty::StrList]);
                let depth = 1 + rng.below(if thorough { 5 } else { 4 });
                let mut g = Gen::new(&mut rng, 0);
                (ir::prop_of(ty), g.binding(ty, depth), format!("{ty:?}"))
            };
            let label = if label == "let-in-switch-clause" { "f40-let-in-switch-clause".to_owned() } else { label };
            if label.starts_with("f40") && k % 40 != 0 {
                continue;
            }
            cases.push(Case {
                kind: "pred",
                labels: vec![label.clone(), "ir".into()],
                request: node("c01-ir", vec![enums_sexp(), node("states", states), prog_sexp(prop, &p)]),
            });
            let req = ir::make_request(node("kind", vec![atom("prop"), st(prop)]), &p);
            cases.push(Case { kind: "model", labels: vec![label, "body".into()], request: ir::retag(&req, "c01-body") });
        }
        cases
    }

    fn answer(&self, req: &Sexp) -> Sexp {
        let (tag, args) = req.as_node().expect("request node");
        match tag {
            "spec-c01" => {
                let (states, progs) = parse_progs(args);
                self.run_batch(&states, &progs)
            }
            "c01-ir" => {
                let (_, progs) = parse_progs(args);
                let (prop, program) = &progs[0];
                let src = ir::document(prop, program);
                match ir::observe(&self.tm, &src, "property", prop) {
                    Err(e) => e,
                    Ok((obs, diags)) => match obs.code {
                        Some(code) if !diags.iter().any(|d| d.is_error) => node("built", vec![code]),
                        _ => node("rejected", vec![]),
                    },
                }
            }
            "c01-body" => {
                let (_, kind) = args[2].as_node().unwrap();
                let prop = kind[1].as_str().unwrap();
                let program = ast::program_of(&args[3]);
                match self.translate("MyType", prop, &program) {
                    Status::Other(x) => node(x, vec![]),
                    Status::Built(b) => match function_text(&b.header, &b.eval_fn) {
                        Some(t) => node("body", vec![st(t)]),
                        None => node("error", vec![st("eval function not found")]),
                    },
                }
            }
            _ => node("bad-request", vec![]),
        }
    }
}
