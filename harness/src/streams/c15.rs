//! C15 — `qmluic generate-ui` writes only where it should, atomically, only when needed.
//! This stream runs the REAL CLI binary, built from /repo's working tree by the constructor
//! (`cargo build --release --offline --manifest-path /repo/Cargo.toml --target-dir /verif/.work/cli-target`
//! under an exclusive file lock; override the directories with QV_CLI_TARGET_DIR / QV_REPO).
//!
//!   (cli-paths (opts OUTDIR|_ NODYN NOLOWER) "source")        → (refused) | (not-qml) | (ok "ui" "hdr"|_)
//!   (spec-cli-paths …)                                         same answer, compared with Spec.Fs
//!   (cli-hist (opts …) (sources (src "path" U H|fail|missing|dir)…) (steps STEP…))
//!        STEP = (gen) | (edit I U H) | (edit I fail) | (rm "p") | (put-file "p") | (put-dir "p")
//!        → (hist (step (status S) (trace OP…) (changed "p"…))… (final ENTRY…))
//!          trace   = the successful mkdir / open(O_CREAT) / write / fchmod / rename syscalls seen by strace
//!          changed = regular files that are new or whose (inode, mtime, size) differ after the step
//!          final   = every directory and non-source file below the case's root, with its content class
//!   (cli-rerun-oracle …same…) → (ok (reruns N)) | (fail "…"): after every gen step that did not end in an I/O error
//!                              the CLI is run once more: no file operation, no changed inode/mtime, same status
//!   (cli-kill …same…)        → (crash-states (state ENTRY…)…): the trees left behind when SIGKILL is injected at
//!                              every state-changing syscall of the LAST gen step (plus before/after)
//!   (cli-kill-oracle …same…) → (ok (kill-points N) (states K)) | (fail "…"): every surviving file holds its
//!                              complete old or complete new content; other residue = `.tmp*` files next to outputs;
//!                              and RECOVERY: the CLI run again (to completion) after each kill ends with every
//!                              output holding the content of the un-killed reference run
//!   (cli-paths (opts …) (multi "src1" "src2" …))  /  (spec-cli-paths …same…)
//!        SEVERAL sources on one command line (safe and unsafe shapes mixed, in every position) in a fresh directory
//!        → (multi (status S) (files "p"…)): S as in cli-hist; files = EVERY regular file other than the sources that
//!          exists below the case root afterwards (inside and outside the output directory; `..`-relative names for
//!          what lies outside the cwd); `(stray-dirs …)` is appended if a directory was created that holds no output.
//!          model: Model.Cli.generateUi; spec: refused (and nothing written) iff -O is given and SOME source is
//!          absolute or has a `..` segment, otherwise exactly the documented names at the documented places.
//!          The option is spelled `-O DIR`, `--output-directory=DIR` or `-ODIR` (number of sources mod 3).
//!   (cli-fresh-oracle …same arguments as cli-hist…) → (ok (steps N) (skipped K)) | (fail "…")
//!        further STEPs: (chmod "p" ro|rw) (permission bits of an existing file; no-op in the model);
//!        (put-link "p" "target") a symbolic link (oracle kinds only: symbolic links are outside the model).
//!        After EVERY gen step (whatever the history before it: edits of only a binding expression, of only a constant,
//!        of both, of neither, removed / stale / read-only outputs, failing sources, unsafe sources mixed in):
//!        (1) the exit-status class is the documented one (refused iff -O and some unsafe source, …);
//!        (2) every output of every translated source holds byte for byte what a FRESH run of the same binary
//!            produces for that source text in an empty directory (reference run), at the documented path;
//!        (3) an output that already held that content keeps inode, mtime and mode;
//!        (4) nothing else below the case root — inside or outside the output directory, sources included — is
//!            created, modified or removed; new directories are ancestors of outputs.
//!        Steps ending in an I/O error (blocked paths) are skipped: the property is silent there.
//! Paths are relative to the CLI's cwd (`/ABS` in a request stands for that cwd), lexically normalised, temp
//! names printed as `.tmp*`.  Every case runs in a fresh directory under std::env::temp_dir(), removed afterwards.
use crate::rng::Rng;
use crate::sexp::{atom, boolean, list, node, num, st, Sexp};
use crate::{Case, Stream};
use std::collections::{BTreeMap, HashMap};
use std::fs;
use std::os::unix::fs::MetadataExt;
use std::path::{Path, PathBuf};
use std::process::{Command, Stdio};
use std::sync::atomic::{AtomicU64, Ordering};
use std::sync::{Arc, Mutex, OnceLock};

pub struct C15 {
    cli: PathBuf,
    metatypes: String,
    seccomp_ok: bool,
    kill_cache: Mutex<HashMap<String, Arc<OnceLock<(Sexp, Sexp)>>>>,
}

static COUNTER: AtomicU64 = AtomicU64::new(0);
const JUNK: &[u8] = b"JUNK\n";
const TRACED: &str = "mkdir,mkdirat,open,openat,creat,write,pwrite64,writev,fchmod,chmod,fchmodat,rename,renameat,renameat2,unlink,unlinkat,rmdir,link,linkat,symlink,symlinkat,truncate,ftruncate";

impl C15 {
    pub fn new() -> Self {
        let repo = std::env::var("QV_REPO").unwrap_or_else(|_| "/repo".to_owned());
        let target = std::env::var("QV_CLI_TARGET_DIR")
            .unwrap_or_else(|_| concat!(env!("CARGO_MANIFEST_DIR"), "/../.work/cli-target").to_owned());
        fs::create_dir_all(&target).expect("create CLI target dir");
        {
            // always reflects the current /repo source; concurrent checks serialise on the lock
            let lock = fs::File::create(format!("{target}/.qv-build.lock")).expect("lock file");
            lock.lock().expect("flock");
            let out = Command::new("cargo")
                .args(["build", "--release", "--offline", "--manifest-path"])
                .arg(format!("{repo}/Cargo.toml"))
                .arg("--target-dir")
                .arg(&target)
                .env("CARGO_NET_OFFLINE", "true")
                .output()
                .expect("run cargo");
            if !out.status.success() {
                panic!("building the CLI failed: {}", String::from_utf8_lossy(&out.stderr));
            }
            let _ = lock.unlock();
        }
        let cli = PathBuf::from(format!("{target}/release/qmluic"));
        assert!(cli.exists(), "CLI binary missing");
        let mut s = C15 {
            cli,
            metatypes: format!("{repo}/contrib/metatypes"),
            seccomp_ok: false,
            kill_cache: Mutex::new(HashMap::new()),
        };
        s.seccomp_ok = s.probe_seccomp();
        s
    }

    fn probe_seccomp(&self) -> bool {
        let case = CaseDir::new();
        let log = case.aux.join("probe.strace");
        let ok = Command::new("strace")
            .args(["-f", "--seccomp-bpf", "-o"])
            .arg(&log)
            .args(["-e", "trace=mkdir", "true"])
            .stdout(Stdio::null())
            .stderr(Stdio::null())
            .status()
            .map(|s| s.success())
            .unwrap_or(false);
        ok && fs::read_to_string(&log).map(|t| t.contains("+++ exited with 0")).unwrap_or(false)
    }
}

/// A throw-away directory: `<tmp>/qv-c15-PID-N/{root/w/cwd, aux}`; the CLI runs in `root/w/cwd`.
struct CaseDir {
    base: PathBuf,
    root: PathBuf,
    cwd: PathBuf,
    aux: PathBuf,
}

impl CaseDir {
    fn new() -> Self {
        let n = COUNTER.fetch_add(1, Ordering::Relaxed);
        let base = std::env::temp_dir().join(format!("qv-c15-{}-{}", std::process::id(), n));
        let _ = fs::remove_dir_all(&base);
        let base = {
            fs::create_dir_all(&base).expect("temp dir");
            base.canonicalize().expect("canonical temp dir")
        };
        let root = base.join("root");
        let cwd = root.join("w").join("cwd");
        let aux = base.join("aux");
        fs::create_dir_all(&cwd).unwrap();
        fs::create_dir_all(&aux).unwrap();
        CaseDir { base, root, cwd, aux }
    }
}

impl Drop for CaseDir {
    fn drop(&mut self) {
        let _ = fs::remove_dir_all(&self.base);
    }
}

#[derive(Clone, Debug)]
struct Opts {
    outdir: Option<String>,
    nodyn: bool,
    nolower: bool,
}

fn parse_opts(s: &Sexp) -> Opts {
    let (_, a) = s.as_node().expect("opts");
    Opts {
        outdir: a[0].as_str().map(|x| x.to_owned()),
        nodyn: a[1].as_bool().unwrap(),
        nolower: a[2].as_bool().unwrap(),
    }
}

fn opts_sexp(o: &Opts) -> Sexp {
    node(
        "opts",
        vec![o.outdir.as_ref().map(|d| st(d.clone())).unwrap_or(atom("_")), boolean(o.nodyn), boolean(o.nolower)],
    )
}

#[derive(Clone, Debug, PartialEq)]
enum SrcState {
    Ok(u32, u32),
    Fail,
    Missing,
    Dir,
}

fn qml_text(state: &SrcState, variant: usize) -> String {
    match state {
        SrcState::Ok(u, h) => {
            let mut s = format!("import qmluic.QtWidgets\nQDialog {{\n    windowTitle: \"u{u}\"\n");
            if *h > 0 {
                s.push_str(&format!("    QLabel {{ id: a; text: b.text + \"h{h}\" }}\n    QLineEdit {{ id: b }}\n"));
                // everything the support code keeps in unordered containers, so that "unchanged input, unchanged output"
                // also speaks about their emission order: every system header (<algorithm>, <cmath>, <QtDebug>), several
                // bindings with shared sources, several handlers
                s.push_str("    QLineEdit { id: e; onTextEdited: console.log(e.text); onEditingFinished: console.warn(\"done\") }\n");
                s.push_str("    QDoubleSpinBox { id: c; value: Math.max(d.value, 1.5) % 2.5; minimum: Math.min(d.value, 9.5) }\n");
                s.push_str("    QDoubleSpinBox { id: d }\n");
            }
            s.push_str("}\n");
            s
        }
        _ => {
            if variant % 2 == 0 {
                "import qmluic.QtWidgets\nQDialog { unknown: 1 }\n".to_owned()
            } else {
                "import qmluic.QtWidgets\nQDialog { windowTitle: \"what\" \"ever\" }\n".to_owned()
            }
        }
    }
}

/// lexical normalisation of an absolute path text
fn normalize_abs(p: &str) -> Vec<String> {
    let mut st: Vec<String> = vec![];
    for seg in p.split('/') {
        match seg {
            "" | "." => {}
            ".." => {
                st.pop();
            }
            s => st.push(s.to_owned()),
        }
    }
    st
}

fn canon_component(s: &str) -> String {
    if s.starts_with(".tmp") {
        ".tmp*".to_owned()
    } else {
        s.to_owned()
    }
}

/// canonical text of `p` (absolute, or relative to `cwd`) relative to `cwd`
fn rel_to_cwd(cwd: &Path, p: &str) -> String {
    let cwd_s = cwd.to_str().unwrap();
    let abs = if p.starts_with('/') { p.to_owned() } else { format!("{cwd_s}/{p}") };
    let a = normalize_abs(&abs);
    let c = normalize_abs(cwd_s);
    let mut k = 0;
    while k < a.len() && k < c.len() && a[k] == c[k] {
        k += 1;
    }
    let mut out: Vec<String> = vec!["..".to_owned(); c.len() - k];
    out.extend(a[k..].iter().map(|s| canon_component(s)));
    if out.is_empty() {
        ".".to_owned()
    } else {
        out.join("/")
    }
}

fn subst_abs(cwd: &Path, p: &str) -> String {
    if let Some(rest) = p.strip_prefix("/ABS") {
        format!("{}{}", cwd.to_str().unwrap(), rest)
    } else {
        p.to_owned()
    }
}

#[derive(Clone, Debug, PartialEq)]
enum TOp {
    Mkdir(String),
    Create(String),
    Write(String),
    Chmod(String),
    Rename(String, String),
    Other(String),
}

impl TOp {
    fn sexp(&self) -> Sexp {
        match self {
            TOp::Mkdir(p) => node("mkdir", vec![st(p.clone())]),
            TOp::Create(p) => node("create", vec![st(p.clone())]),
            TOp::Write(p) => node("write", vec![st(p.clone())]),
            TOp::Chmod(p) => node("chmod", vec![st(p.clone())]),
            TOp::Rename(a, b) => node("rename", vec![st(a.clone()), st(b.clone())]),
            TOp::Other(s) => node("other", vec![st(s.clone())]),
        }
    }
}

/// one state-changing syscall of the reference trace: (syscall name, its ordinal among ALL calls of that name)
#[derive(Clone, Debug)]
struct KillPoint {
    syscall: String,
    ordinal: usize,
}

enum Strace {
    No,
    Trace,
    Kill(KillPoint),
}

struct RunResult {
    code: Option<i32>,
    killed: bool,
    stderr: String,
    ops: Vec<TOp>,
    kill_points: Vec<KillPoint>,
    temp_names_ok: bool,
}

fn quoted_args(s: &str) -> Vec<String> {
    // the double-quoted string arguments of a strace line (escapes kept verbatim; our paths have none)
    let mut out = vec![];
    let b: Vec<char> = s.chars().collect();
    let mut i = 0;
    while i < b.len() {
        if b[i] == '"' {
            let mut j = i + 1;
            let mut cur = String::new();
            while j < b.len() && b[j] != '"' {
                if b[j] == '\\' && j + 1 < b.len() {
                    cur.push(b[j]);
                    cur.push(b[j + 1]);
                    j += 2;
                } else {
                    cur.push(b[j]);
                    j += 1;
                }
            }
            out.push(cur);
            i = j + 1;
        } else {
            i += 1;
        }
    }
    out
}

fn unescape_strace(s: &str) -> String {
    // strace prints non-ASCII bytes as octal escapes (\303\234); decode them back to UTF-8
    let b = s.as_bytes();
    let mut out: Vec<u8> = vec![];
    let mut i = 0;
    while i < b.len() {
        if b[i] == b'\\' && i + 1 < b.len() {
            let c = b[i + 1];
            if c.is_ascii_digit() {
                let mut j = i + 1;
                let mut v = 0u32;
                while j < b.len() && j < i + 4 && b[j].is_ascii_digit() {
                    v = v * 8 + (b[j] - b'0') as u32;
                    j += 1;
                }
                out.push(v as u8);
                i = j;
            } else {
                out.push(match c {
                    b'n' => b'\n',
                    b't' => b'\t',
                    other => other,
                });
                i += 2;
            }
        } else {
            out.push(b[i]);
            i += 1;
        }
    }
    String::from_utf8_lossy(&out).into_owned()
}

impl C15 {
    fn cli_args(&self, case: &CaseDir, o: &Opts, sources: &[String]) -> Vec<String> {
        self.cli_args_spelled(case, o, sources, 0)
    }

    fn cli_args_spelled(&self, case: &CaseDir, o: &Opts, sources: &[String], long_opt: u8) -> Vec<String> {
        let mut args = vec!["generate-ui".to_owned(), "--foreign-types".to_owned(), self.metatypes.clone()];
        if let Some(d) = &o.outdir {
            if long_opt == 1 {
                args.push(format!("--output-directory={}", subst_abs(&case.cwd, d)));
            } else if long_opt == 2 && !d.is_empty() {
                args.push(format!("-O{}", subst_abs(&case.cwd, d)));
            } else {
                args.push("-O".to_owned());
                args.push(subst_abs(&case.cwd, d));
            }
        }
        if o.nodyn {
            args.push("--no-dynamic-binding".to_owned());
        }
        if o.nolower {
            args.push("--no-lowercase-file-name".to_owned());
        }
        args.push("--".to_owned());
        for s in sources {
            args.push(subst_abs(&case.cwd, s));
        }
        args
    }

    fn run_cli(&self, case: &CaseDir, cwd: &Path, args: &[String], mode: Strace) -> RunResult {
        let log = case.aux.join(format!("strace-{}.log", COUNTER.fetch_add(1, Ordering::Relaxed)));
        let mut cmd = match &mode {
            Strace::No => Command::new(&self.cli),
            Strace::Trace | Strace::Kill(_) => {
                let mut c = Command::new("strace");
                c.arg("-f");
                if matches!(mode, Strace::Trace) && self.seccomp_ok {
                    c.arg("--seccomp-bpf");
                }
                c.args(["-s", "0", "-o"]).arg(&log).arg("-e").arg(format!("trace={TRACED}"));
                if let Strace::Kill(k) = &mode {
                    c.arg("-e").arg(format!("inject={}:signal=KILL:when={}", k.syscall, k.ordinal));
                }
                c.arg(&self.cli);
                c
            }
        };
        // The process's temporary directory is on ANOTHER file system than the outputs (tmpfs) and is watched: replacing an
        // output atomically needs the temporary file next to it — one created in $TMPDIR cannot be renamed over it (EXDEV,
        // the run fails) and whatever is left there after the run is litter outside the output directory.
        let foreign_tmp = {
            use std::os::unix::fs::MetadataExt;
            let shm = Path::new("/dev/shm");
            match (fs::metadata(shm), fs::metadata(&case.root)) {
                (Ok(a), Ok(b)) if a.dev() != b.dev() => tempfile::Builder::new().prefix("qv-c15-tmp-").tempdir_in(shm).ok(),
                _ => None,
            }
        };
        if let Some(t) = &foreign_tmp {
            cmd.env("TMPDIR", t.path());
        }
        let out = cmd
            .args(args)
            .current_dir(cwd)
            .env_remove("QMLUIC_LOG")
            .env("NO_COLOR", "1")
            .stdin(Stdio::null())
            .output()
            .expect("spawn CLI");
        let tmp_litter: Vec<String> = foreign_tmp
            .as_ref()
            .and_then(|t| fs::read_dir(t.path()).ok())
            .map(|rd| rd.flatten().map(|e| e.file_name().to_string_lossy().into_owned()).collect())
            .unwrap_or_default();
        let mut stderr = String::from_utf8_lossy(&out.stderr).into_owned();
        if !tmp_litter.is_empty() {
            // reported through the diagnostic text: every oracle that predicts the status class sees an unknown message
            stderr.push_str(&format!("\nqv-harness: files left in $TMPDIR: {}\n", tmp_litter.join(" ")));
        }
        let mut res = RunResult {
            code: out.status.code(),
            killed: false,
            stderr,
            ops: vec![],
            kill_points: vec![],
            temp_names_ok: true,
        };
        use std::os::unix::process::ExitStatusExt;
        if out.status.signal() == Some(9) || out.status.code() == Some(137) {
            res.killed = true;
        }
        if matches!(mode, Strace::No) {
            return res;
        }
        let text = fs::read_to_string(&log).unwrap_or_default();
        let _ = fs::remove_file(&log);
        if text.contains("+++ killed by SIGKILL") {
            res.killed = true;
        }
        // parse
        let mut fds: HashMap<(String, String), String> = HashMap::new(); // (pid, fd) → created path
        let mut counts: HashMap<String, usize> = HashMap::new();
        for line in text.lines() {
            let Some((pid, rest)) = line.split_once(' ') else { continue };
            let rest = rest.trim_start();
            let Some(paren) = rest.find('(') else { continue };
            let name = &rest[..paren];
            if !name.chars().all(|c| c.is_ascii_alphanumeric() || c == '_') || name.is_empty() {
                continue;
            }
            let ord = {
                let c = counts.entry(name.to_owned()).or_insert(0);
                *c += 1;
                *c
            };
            let ret = rest.rsplit_once(" = ").map(|(_, r)| r.trim()).unwrap_or("?");
            let ok = !ret.starts_with('-') && !ret.starts_with('?');
            let q: Vec<String> = quoted_args(rest).iter().map(|s| unescape_strace(s)).collect();
            let p = |i: usize| -> String { q.get(i).map(|s| rel_to_cwd(cwd, s)).unwrap_or_else(|| "?".to_owned()) };
            let first_arg = rest[paren + 1..].split(|c| c == ',' || c == ')').next().unwrap_or("").trim().to_owned();
            let push = |res: &mut RunResult, op: TOp| {
                res.kill_points.push(KillPoint { syscall: name.to_owned(), ordinal: ord });
                // consecutive writes to the same file are one `write_all`
                if let (TOp::Write(a), Some(TOp::Write(b))) = (&op, res.ops.last()) {
                    if a == b {
                        return;
                    }
                }
                res.ops.push(op);
            };
            match name {
                "mkdir" | "mkdirat" => {
                    if ok {
                        push(&mut res, TOp::Mkdir(p(0)));
                    }
                }
                "open" | "openat" | "creat" => {
                    let creating = rest.contains("O_CREAT") || name == "creat";
                    if ok {
                        let fd = ret.split_whitespace().next().unwrap_or("").to_owned();
                        if creating {
                            if let Some(raw) = q.first() {
                                let fname = raw.rsplit('/').next().unwrap_or("");
                                if fname.starts_with(".tmp") {
                                    let tail = &fname[4..];
                                    if tail.len() != 6 || !tail.chars().all(|c| c.is_ascii_alphanumeric()) {
                                        res.temp_names_ok = false;
                                    }
                                }
                            }
                            fds.insert((pid.to_owned(), fd), p(0));
                            push(&mut res, TOp::Create(p(0)));
                        } else {
                            fds.remove(&(pid.to_owned(), fd));
                        }
                    } else if creating && matches!(mode, Strace::Kill(_)) {
                        // killed at entry: still a kill point of the reference numbering (not used here)
                    }
                }
                "write" | "pwrite64" | "writev" => {
                    if let Some(path) = fds.get(&(pid.to_owned(), first_arg.clone())) {
                        if ok {
                            let path = path.clone();
                            push(&mut res, TOp::Write(path));
                        }
                    }
                }
                "fchmod" => {
                    if ok {
                        let path = fds.get(&(pid.to_owned(), first_arg.clone())).cloned().unwrap_or_else(|| "?".to_owned());
                        push(&mut res, TOp::Chmod(path));
                    }
                }
                "rename" => {
                    if ok {
                        push(&mut res, TOp::Rename(p(0), p(1)));
                    }
                }
                "renameat" | "renameat2" => {
                    if ok {
                        push(&mut res, TOp::Rename(p(0), p(1)));
                    }
                }
                "chmod" | "fchmodat" | "unlink" | "unlinkat" | "rmdir" | "link" | "linkat" | "symlink" | "symlinkat"
                | "truncate" | "ftruncate" => {
                    if ok {
                        push(&mut res, TOp::Other(format!("{name} {}", p(0))));
                    }
                }
                _ => {}
            }
        }
        res
    }

    fn status_of(&self, r: &RunResult) -> Sexp {
        let e = &r.stderr;
        let s = if r.killed {
            "killed"
        } else if r.code == Some(0) {
            "ok"
        } else if e.contains("source file paths must be relative") {
            "refused"
        } else if e.contains("failed to read module directory") || e.contains("failed to read QML document") {
            "populate"
        } else if e.contains("QML source not loaded") {
            "not-loaded"
        } else if e.contains("failed to create output directory") {
            "io-mkdir"
        } else if e.contains("failed to persist temporary file") {
            "io-persist"
        } else if e.contains("invalid file name") {
            "invalid"
        } else if e.contains("failed to write UI") {
            "io-temp"
        } else if e.contains("panicked") {
            "panic"
        } else if r.code == Some(1) {
            "diagnostic"
        } else {
            "other"
        };
        atom(s)
    }
}

#[derive(Clone, Debug, PartialEq)]
struct Entry {
    is_dir: bool,
    ino: u64,
    mtime: (i64, i64),
    size: u64,
    mode: u32,
    content: Vec<u8>,
}

/// every entry below `root`, keyed by its real absolute path
fn snapshot(root: &Path) -> BTreeMap<String, Entry> {
    let mut out = BTreeMap::new();
    let mut todo = vec![root.to_path_buf()];
    while let Some(d) = todo.pop() {
        let Ok(rd) = fs::read_dir(&d) else { continue };
        for e in rd.flatten() {
            let p = e.path();
            let Ok(md) = fs::symlink_metadata(&p) else { continue };
            let is_dir = md.is_dir();
            let content = if md.is_file() { fs::read(&p).unwrap_or_default() } else { vec![] };
            out.insert(
                p.to_str().unwrap().to_owned(),
                Entry { is_dir, ino: md.ino(), mtime: (md.mtime(), md.mtime_nsec()), size: md.size(), mode: md.mode(), content },
            );
            if is_dir {
                todo.push(p);
            }
        }
    }
    out
}

struct Source {
    path: String,
    state: SrcState,
}

/// a history being replayed in one case directory
struct World<'a> {
    s: &'a C15,
    case: CaseDir,
    opts: Opts,
    sources: Vec<Source>,
    /// reference contents: bytes → content class
    refs: Vec<(Vec<u8>, Sexp)>,
    ref_done: Vec<(String, u32, u32)>,
    /// reference ("fresh") outputs of (file name, u, h): ui bytes, header bytes
    fresh: Vec<((String, u32, u32), Option<Vec<u8>>, Option<Vec<u8>>)>,
    /// how the option is spelled: 0 `-O DIR`, 1 `--output-directory=DIR`, 2 `-ODIR` (attached; `-O DIR` if DIR is empty)
    long_opt: u8,
}

fn type_name_of(path: &str) -> String {
    let file = path.rsplit('/').next().unwrap_or("");
    match file.rfind('.') {
        Some(i) if i > 0 => file[..i].to_owned(),
        _ => file.to_owned(),
    }
}

impl<'a> World<'a> {
    fn new(s: &'a C15, opts: Opts, sources: Vec<Source>) -> Self {
        let w = World { s, case: CaseDir::new(), opts, sources, refs: vec![], ref_done: vec![], fresh: vec![], long_opt: 0 };
        for i in 0..w.sources.len() {
            w.materialise(i);
        }
        w
    }

    fn real_path(&self, p: &str) -> PathBuf {
        let p = subst_abs(&self.case.cwd, p);
        if p.starts_with('/') {
            PathBuf::from(p)
        } else {
            self.case.cwd.join(p)
        }
    }

    fn materialise(&self, i: usize) {
        let src = &self.sources[i];
        let p = self.real_path(&src.path);
        match &src.state {
            SrcState::Dir => {
                fs::create_dir_all(&p).unwrap();
            }
            SrcState::Missing => {
                if let Some(d) = p.parent() {
                    fs::create_dir_all(d).unwrap();
                }
            }
            st => {
                if let Some(d) = p.parent() {
                    fs::create_dir_all(d).unwrap();
                }
                fs::write(&p, qml_text(st, i)).unwrap();
            }
        }
    }

    /// reference translation of (file name, u, h) with the same flags, in a scratch directory
    fn ensure_ref(&mut self, i: usize) {
        let SrcState::Ok(u, h) = self.sources[i].state.clone() else { return };
        let file = self.sources[i].path.rsplit('/').next().unwrap_or("").to_owned();
        if self.ref_done.iter().any(|(f, a, b)| *f == file && *a == u && *b == h) {
            return;
        }
        self.ref_done.push((file.clone(), u, h));
        let dir = self.case.aux.join(format!("ref{}", self.ref_done.len()));
        fs::create_dir_all(&dir).unwrap();
        fs::write(dir.join(&file), qml_text(&SrcState::Ok(u, h), 0)).unwrap();
        let o = Opts { outdir: None, ..self.opts.clone() };
        let args = self.s.cli_args(&self.case, &o, &[file.clone()]);
        let r = self.s.run_cli(&self.case, &dir, &args, Strace::No);
        if r.code != Some(0) {
            return;
        }
        let tn = type_name_of(&file);
        let (mut fresh_ui, mut fresh_h) = (None, None);
        for e in fs::read_dir(&dir).unwrap().flatten() {
            let name = e.file_name().to_str().unwrap().to_owned();
            if name == file {
                continue;
            }
            let bytes = fs::read(e.path()).unwrap();
            let class = if name.ends_with(".ui") {
                fresh_ui = Some(bytes.clone());
                node("ui", vec![st(tn.clone()), num(u), num(h.min(1))])
            } else {
                fresh_h = Some(bytes.clone());
                node("hdr", vec![st(tn.clone()), num(h)])
            };
            if !self.refs.iter().any(|(b, c)| *b == bytes && *c == class) {
                self.refs.push((bytes, class));
            }
        }
        self.fresh.push(((file, u, h), fresh_ui, fresh_h));
    }

    fn classify(&self, bytes: &[u8]) -> Sexp {
        if bytes.is_empty() {
            return atom("empty");
        }
        if bytes == JUNK {
            return atom("junk");
        }
        for (b, c) in &self.refs {
            if b == bytes {
                return c.clone();
            }
        }
        atom("unknown")
    }

    fn is_source_file(&self, real: &str) -> bool {
        self.sources.iter().any(|s| {
            !matches!(s.state, SrcState::Dir | SrcState::Missing)
                && normalize_abs(self.real_path(&s.path).to_str().unwrap()) == normalize_abs(real)
        })
    }

    fn listing(&self, snap: &BTreeMap<String, Entry>) -> Vec<Sexp> {
        let mut v: Vec<(String, String, Sexp)> = vec![];
        for (real, e) in snap {
            if !e.is_dir && self.is_source_file(real) {
                continue;
            }
            let name = rel_to_cwd(&self.case.cwd, real);
            if name == "." {
                continue;
            }
            // ancestors of the cwd inside the case root are scaffolding, not part of the modelled tree
            if e.is_dir && self.case.cwd.to_str().unwrap().starts_with(&format!("{real}/")) {
                continue;
            }
            let sx = if e.is_dir {
                node("dir", vec![st(name.clone())])
            } else {
                node("file", vec![st(name.clone()), self.classify(&e.content)])
            };
            v.push((name, sx.render(), sx));
        }
        v.sort_by(|a, b| (a.0.as_str(), a.1.as_str()).cmp(&(b.0.as_str(), b.1.as_str())));
        v.into_iter().map(|x| x.2).collect()
    }

    fn source_args(&self) -> Vec<String> {
        self.sources.iter().map(|s| s.path.clone()).collect()
    }

    fn apply_edit(&mut self, step: &Sexp) {
        let (tag, a) = step.as_node().expect("step");
        match tag {
            "edit" => {
                let i = a[0].as_usize().unwrap();
                let state = if a[1].as_atom() == Some("fail") {
                    SrcState::Fail
                } else {
                    SrcState::Ok(a[1].as_i64().unwrap() as u32, a[2].as_i64().unwrap() as u32)
                };
                self.sources[i].state = state;
                self.materialise(i);
            }
            "rm" => {
                let _ = fs::remove_file(self.real_path(a[0].as_str().unwrap()));
            }
            "put-file" => {
                let p = self.real_path(a[0].as_str().unwrap());
                if let Some(d) = p.parent() {
                    fs::create_dir_all(d).unwrap();
                }
                fs::write(&p, JUNK).unwrap();
            }
            "put-dir" => {
                fs::create_dir_all(self.real_path(a[0].as_str().unwrap())).unwrap();
            }
            "put-link" => {
                // a symbolic link `a[0]` to the file `a[1]` (relative to the link's directory); may dangle for a while
                let p = self.real_path(a[0].as_str().unwrap());
                if let Some(d) = p.parent() {
                    fs::create_dir_all(d).unwrap();
                }
                let _ = fs::remove_file(&p);
                std::os::unix::fs::symlink(a[1].as_str().unwrap(), &p).unwrap();
            }
            "chmod" => {
                use std::os::unix::fs::PermissionsExt;
                let p = self.real_path(a[0].as_str().unwrap());
                let mode = if a[1].as_atom() == Some("ro") { 0o444 } else { 0o644 };
                if p.is_file() {
                    fs::set_permissions(&p, fs::Permissions::from_mode(mode)).unwrap();
                }
            }
            _ => panic!("unknown step {tag}"),
        }
    }

    fn gen(&mut self, mode: Strace) -> RunResult {
        for i in 0..self.sources.len() {
            self.ensure_ref(i);
        }
        let args = self.s.cli_args_spelled(&self.case, &self.opts, &self.source_args(), self.long_opt);
        self.s.run_cli(&self.case, &self.case.cwd.clone(), &args, mode)
    }

    fn changed(&self, before: &BTreeMap<String, Entry>, after: &BTreeMap<String, Entry>) -> Vec<String> {
        let mut v: Vec<String> = vec![];
        for (real, e) in after {
            if e.is_dir || self.is_source_file(real) {
                continue;
            }
            let same = before.get(real).map(|b| b.ino == e.ino && b.mtime == e.mtime && b.size == e.size && !b.is_dir).unwrap_or(false);
            if !same {
                let n = rel_to_cwd(&self.case.cwd, real);
                if !v.contains(&n) {
                    v.push(n);
                }
            }
        }
        // removed files would be a violation too: report them so that the comparison fails
        for (real, b) in before {
            if !b.is_dir && !after.contains_key(real) {
                v.push(format!("REMOVED:{}", rel_to_cwd(&self.case.cwd, real)));
            }
        }
        v.sort();
        v
    }
}


/// the documented refusal rule on the path TEXT: absolute, or some `/`-separated segment is `..`
fn unsafe_source_text(p: &str) -> bool {
    p.starts_with('/') || p.split('/').any(|s| s == "..")
}

impl<'a> World<'a> {
    /// documentation rule, written without the model: the real absolute paths of the outputs of a source
    /// (`None`: not a plain `STEM.qml` name — the oracle makes no prediction)
    fn doc_outputs(&self, src: &str) -> Option<(String, String)> {
        let (dir, file) = src.rsplit_once('/').unwrap_or(("", src));
        if file.len() < 5 || !file[file.len() - 4..].eq_ignore_ascii_case(".qml") || file.starts_with('.') {
            return None;
        }
        let stem = &file[..file.len() - 4];
        let stem = if self.opts.nolower { stem.to_owned() } else { stem.to_ascii_lowercase() };
        let cwd = self.case.cwd.to_str().unwrap();
        let dir = subst_abs(&self.case.cwd, dir);
        let base = match &self.opts.outdir {
            Some(od) => format!("{}/{}", subst_abs(&self.case.cwd, od), dir),
            None => dir,
        };
        let abs = if base.starts_with('/') { base } else { format!("{cwd}/{base}") };
        let real = |name: String| format!("/{}", normalize_abs(&format!("{abs}/{name}")).join("/"));
        Some((real(format!("{stem}.ui")), real(format!("uisupport_{stem}.h"))))
    }

    fn fresh_of(&self, i: usize) -> Option<&((String, u32, u32), Option<Vec<u8>>, Option<Vec<u8>>)> {
        let SrcState::Ok(u, h) = self.sources[i].state else { return None };
        let file = self.sources[i].path.rsplit('/').next().unwrap_or("");
        self.fresh.iter().find(|(k, _, _)| k.0 == file && k.1 == u && k.2 == h)
    }

    /// The property oracle for one regenerate step (see the module documentation, `cli-fresh-oracle`).
    /// `Ok(true)`: judged and fine; `Ok(false)`: outside what the property speaks about; `Err`: violations.
    fn judge_step(&self, before: &BTreeMap<String, Entry>, after: &BTreeMap<String, Entry>, status: &str) -> Result<bool, Vec<String>> {
        let rel = |p: &str| rel_to_cwd(&self.case.cwd, p);
        if matches!(status, "killed" | "panic" | "other" | "temp-name-shape") {
            return Err(vec![format!("the run ended with status class {status}")]);
        }
        if status.starts_with("io-") || status == "invalid" {
            return Ok(false);
        }
        // what the documentation predicts for this command line and these source states
        let mut translated: Vec<usize> = vec![];
        let predicted = if self.opts.outdir.is_some() && self.sources.iter().any(|s| unsafe_source_text(&s.path)) {
            "refused"
        } else if self.sources.iter().any(|s| s.state == SrcState::Missing) {
            "populate"
        } else {
            let mut diag = false;
            let mut stopped = false;
            for (k, s) in self.sources.iter().enumerate() {
                let file = s.path.rsplit('/').next().unwrap_or("");
                let qml = file.len() >= 5 && file[file.len() - 4..].eq_ignore_ascii_case(".qml");
                match &s.state {
                    SrcState::Dir => {
                        stopped = true;
                        break;
                    }
                    _ if !qml => {
                        stopped = true;
                        break;
                    }
                    SrcState::Fail => diag = true,
                    SrcState::Ok(_, h) if self.opts.nodyn && *h > 0 => diag = true,
                    SrcState::Ok(..) => translated.push(k),
                    SrcState::Missing => unreachable!(),
                }
            }
            if stopped {
                "not-loaded"
            } else if diag {
                "diagnostic"
            } else {
                "ok"
            }
        };
        let mut f: Vec<String> = vec![];
        if status != predicted {
            f.push(format!("exit-status class `{status}`, the documentation predicts `{predicted}`"));
        }
        let mut expect: BTreeMap<String, Vec<u8>> = BTreeMap::new();
        if matches!(predicted, "ok" | "diagnostic" | "not-loaded") {
            for &k in &translated {
                let Some((ui, hdr)) = self.doc_outputs(&self.sources[k].path) else { return Ok(false) };
                let Some((_, fresh_ui, fresh_h)) = self.fresh_of(k) else { return Ok(false) };
                let mut jobs = vec![(ui, fresh_ui)];
                if !self.opts.nodyn {
                    jobs.push((hdr, fresh_h));
                }
                for (path, bytes) in jobs {
                    let Some(bytes) = bytes else {
                        f.push(format!("the reference run in an empty directory did not produce {}", rel(&path)));
                        continue;
                    };
                    if let Some(prev) = expect.get(&path) {
                        if prev != bytes {
                            return Ok(false); // two sources claim one output path (known finding F16): no prediction
                        }
                    }
                    expect.insert(path, bytes.clone());
                }
            }
        }
        // (2) + (3): outputs hold the content of a fresh run; untouched if they already did
        for (path, bytes) in &expect {
            match after.get(path) {
                Some(e) if !e.is_dir && e.content == *bytes => {
                    if let Some(b) = before.get(path) {
                        if !b.is_dir && b.content == *bytes && (b.ino != e.ino || b.mtime != e.mtime || b.mode != e.mode) {
                            f.push(format!("{} already held the content of a fresh run but was replaced (inode/mtime/mode changed)", rel(path)));
                        }
                    }
                }
                Some(e) if e.is_dir => f.push(format!("{} is a directory although the run reported success", rel(path))),
                Some(e) => {
                    let was = match before.get(path) {
                        Some(b) if !b.is_dir && b.content == e.content => "its previous content was left in place",
                        Some(_) => "it was rewritten with something else",
                        None => "it was created with something else",
                    };
                    f.push(format!("{} does not hold what a fresh run of the same source produces: {was} ({} bytes, a fresh run gives {})", rel(path), e.content.len(), bytes.len()));
                }
                None => f.push(format!("{} does not exist after a run that translated its source", rel(path))),
            }
        }
        // (4): nothing else is created, modified or removed anywhere below the case root
        for (path, e) in after {
            if expect.contains_key(path) {
                continue;
            }
            match before.get(path) {
                Some(b) if b.is_dir && e.is_dir => {}
                Some(b) if b == e => {}
                Some(_) => f.push(format!("{} was modified although it is not an output of a translated source", rel(path))),
                None if e.is_dir => {
                    if !expect.keys().any(|o| o.starts_with(&format!("{path}/"))) {
                        f.push(format!("directory {} was created although no output goes there", rel(path)));
                    }
                }
                None => f.push(format!("unexpected new file {} (status class {status})", rel(path))),
            }
        }
        for path in before.keys() {
            if !after.contains_key(path) {
                f.push(format!("{} was removed", rel(path)));
            }
        }
        if f.is_empty() {
            Ok(true)
        } else {
            Err(f)
        }
    }
}

fn parse_sources(s: &Sexp) -> Vec<Source> {
    let (_, a) = s.as_node().expect("sources");
    a.iter()
        .map(|x| {
            let (_, f) = x.as_node().expect("src");
            let path = f[0].as_str().unwrap().to_owned();
            let state = match f[1].as_atom() {
                Some("fail") => SrcState::Fail,
                Some("missing") => SrcState::Missing,
                Some("dir") => SrcState::Dir,
                _ => SrcState::Ok(f[1].as_i64().unwrap() as u32, f[2].as_i64().unwrap() as u32),
            };
            Source { path, state }
        })
        .collect()
}

impl C15 {
    fn answer_paths(&self, args: &[Sexp]) -> Sexp {
        let opts = parse_opts(&args[0]);
        if let Some(("multi", srcs)) = args[1].as_node() {
            return self.answer_multi(opts, srcs);
        }
        let src = args[1].as_str().unwrap().to_owned();
        let mut w = World::new(self, opts, vec![Source { path: src, state: SrcState::Ok(1, 0) }]);
        let before = snapshot(&w.case.root);
        let r = w.gen(Strace::No);
        let after = snapshot(&w.case.root);
        let status = self.status_of(&r);
        match status.as_atom().unwrap() {
            "refused" => node("refused", vec![]),
            "not-loaded" => node("not-qml", vec![]),
            "ok" => {
                let ch = w.changed(&before, &after);
                let ui: Vec<&String> = ch.iter().filter(|p| p.ends_with(".ui")).collect();
                let h: Vec<&String> = ch.iter().filter(|p| p.ends_with(".h")).collect();
                if ui.len() == 1 && h.len() <= 1 && ui.len() + h.len() == ch.len() {
                    node("ok", vec![st(ui[0].clone()), h.first().map(|x| st((*x).clone())).unwrap_or(atom("_"))])
                } else {
                    node("unexpected-files", ch.into_iter().map(st).collect())
                }
            }
            other => node("status", vec![atom(other), st(r.stderr.clone())]),
        }
    }

    fn answer_hist(&self, args: &[Sexp]) -> Sexp {
        let opts = parse_opts(&args[0]);
        let mut w = World::new(self, opts, parse_sources(&args[1]));
        let (_, steps) = args[2].as_node().expect("steps");
        let mut out = vec![];
        for step in steps {
            if step.as_node().map(|x| x.0) == Some("gen") {
                let before = snapshot(&w.case.root);
                let r = w.gen(Strace::Trace);
                let after = snapshot(&w.case.root);
                let mut status = self.status_of(&r);
                if !r.temp_names_ok {
                    status = atom("temp-name-shape");
                }
                let mut tr = vec![atom("trace")];
                tr.extend(r.ops.iter().map(|o| o.sexp()));
                let mut ch = vec![atom("changed")];
                ch.extend(w.changed(&before, &after).into_iter().map(st));
                out.push(node("step", vec![node("status", vec![status]), list(tr), list(ch)]));
            } else {
                w.apply_edit(step);
            }
        }
        let mut fin = vec![atom("final")];
        fin.extend(w.listing(&snapshot(&w.case.root)));
        out.push(list(fin));
        node("hist", out)
    }

    /// property oracle for the re-run clause: after every gen step that did not end in an I/O error, run the
    /// CLI once more on the unchanged inputs — nothing may be created, replaced or touched.
    fn answer_rerun_oracle(&self, args: &[Sexp]) -> Sexp {
        let opts = parse_opts(&args[0]);
        let mut w = World::new(self, opts, parse_sources(&args[1]));
        let (_, steps) = args[2].as_node().expect("steps");
        let mut reruns = 0;
        let mut failures: Vec<String> = vec![];
        for (i, step) in steps.iter().enumerate() {
            if step.as_node().map(|x| x.0) == Some("gen") {
                let r = w.gen(Strace::No);
                let status = self.status_of(&r);
                let s1 = status.as_atom().unwrap().to_owned();
                if s1.starts_with("io-") || s1 == "invalid" || s1 == "killed" || s1 == "panic" || s1 == "other" {
                    continue;
                }
                let before = snapshot(&w.case.root);
                let r2 = w.gen(Strace::Trace);
                let after = snapshot(&w.case.root);
                reruns += 1;
                let s2 = self.status_of(&r2);
                if s2 != status {
                    failures.push(format!("step {i}: status {} then {}", s1, s2.render()));
                }
                let ch = w.changed(&before, &after);
                if !ch.is_empty() {
                    failures.push(format!("step {i}: re-run on unchanged inputs replaced {}", ch.join(" ")));
                }
                if !r2.ops.is_empty() {
                    failures.push(format!("step {i}: re-run performed {} file operations", r2.ops.len()));
                }
                for (p, e) in &after {
                    if e.is_dir && !before.contains_key(p) {
                        failures.push(format!("step {i}: re-run created directory {}", rel_to_cwd(&w.case.cwd, p)));
                    }
                }
            } else {
                w.apply_edit(step);
            }
        }
        if failures.is_empty() {
            node("ok", vec![node("reruns", vec![num(reruns)])])
        } else {
            failures.truncate(4);
            node("fail", failures.into_iter().map(st).collect())
        }
    }


    /// several sources on one command line in a fresh directory: status class + every file that exists afterwards
    fn answer_multi(&self, opts: Opts, srcs: &[Sexp]) -> Sexp {
        let sources: Vec<Source> = srcs
            .iter()
            .enumerate()
            .map(|(i, p)| Source {
                path: p.as_str().expect("source path").to_owned(),
                state: SrcState::Ok(1, if opts.nodyn { 0 } else { (i % 2) as u32 }),
            })
            .collect();
        let mut w = World::new(self, opts, sources);
        w.long_opt = (srcs.len() % 3) as u8;
        let before = snapshot(&w.case.root);
        let r = w.gen(Strace::No);
        let after = snapshot(&w.case.root);
        let status = self.status_of(&r);
        let mut files: Vec<String> = vec![];
        let mut touched_sources: Vec<String> = vec![];
        for (real, e) in &after {
            if e.is_dir {
                continue;
            }
            if w.is_source_file(real) {
                if before.get(real) != Some(e) {
                    touched_sources.push(rel_to_cwd(&w.case.cwd, real));
                }
                continue;
            }
            let n = rel_to_cwd(&w.case.cwd, real);
            if !files.contains(&n) {
                files.push(n);
            }
        }
        files.sort();
        let stray: Vec<String> = after
            .iter()
            .filter(|(p, e)| {
                e.is_dir && !before.contains_key(*p) && !after.iter().any(|(q, x)| !x.is_dir && q.starts_with(&format!("{p}/")) && !w.is_source_file(q))
            })
            .map(|(p, _)| rel_to_cwd(&w.case.cwd, p))
            .collect();
        let mut out = vec![node("status", vec![status]), node("files", files.into_iter().map(st).collect())];
        if !stray.is_empty() {
            out.push(node("stray-dirs", stray.into_iter().map(st).collect()));
        }
        if !touched_sources.is_empty() {
            out.push(node("sources-modified", touched_sources.into_iter().map(st).collect()));
        }
        node("multi", out)
    }

    /// Oracle `cli-every-source`: one invocation with 2-6 sources in a fresh directory.  Each source is a regular file, a
    /// symbolic link to another listed file (same or other directory), a file reached through a symbolic link to its
    /// directory, the same file once more under another spelling, or a document that is rejected.  Demanded: the outputs
    /// `<stem>.ui` / `uisupport_<stem>.h` next to EVERY accepted source path as listed (named after the listed name, with
    /// `<class>` = the listed file's stem), none for a rejected one, exit status 1 iff some source is rejected.
    fn answer_every_source(&self, args: &[Sexp]) -> Sexp {
        let mut rng = Rng::fork(args[0].as_usize().unwrap() as u64, "c15-every-source", args[1].as_usize().unwrap() as u64);
        let case = CaseDir::new();
        let cwd = case.cwd.clone();
        fs::create_dir_all(cwd.join("d")).unwrap();
        fs::create_dir_all(cwd.join("e")).unwrap();
        let good = |t: &str| format!("import qmluic.QtWidgets\nQDialog {{\n    windowTitle: \"{t}\"\n    QLabel {{ id: a; text: b.text }}\n    QLineEdit {{ id: b }}\n}}\n");
        let bad = "import qmluic.QtWidgets\nQDialog { unknown: 1 }\n";
        // (listed path, accepted)
        let mut listed: Vec<(String, bool)> = vec![];
        let names = ["Alpha", "Beta", "Gamma", "Delta", "Eps", "Zeta"];
        let n = 2 + rng.below(5);
        let mut real: Vec<(String, bool)> = vec![]; // regular files so far (relative path, accepted)
        for i in 0..n {
            let name = names[i];
            let kind = if real.is_empty() { 0 } else { rng.below(6) };
            match kind {
                0 | 1 => {
                    let dir = *rng.pick(&["", "d/", "e/"]);
                    let ok = !rng.chance(1, 4);
                    let p = format!("{dir}{name}.qml");
                    fs::write(cwd.join(&p), if ok { good(name) } else { bad.to_owned() }).unwrap();
                    real.push((p.clone(), ok));
                    listed.push((p, ok));
                }
                2 => {
                    // symbolic link to a listed file, in the same or another directory
                    let (t, ok) = rng.pick(&real).clone();
                    let dir = *rng.pick(&["", "d/", "e/"]);
                    let p = format!("{dir}{name}.qml");
                    let target = if dir.is_empty() { t.clone() } else { format!("../{t}") };
                    if std::os::unix::fs::symlink(&target, cwd.join(&p)).is_ok() {
                        listed.push((p, ok));
                    }
                }
                3 => {
                    // the directory of a listed file under a second name
                    let (t, ok) = rng.pick(&real).clone();
                    if let Some((dir, file)) = t.rsplit_once('/') {
                        let alias = format!("{dir}link{i}");
                        if std::os::unix::fs::symlink(dir, cwd.join(&alias)).is_ok() {
                            listed.push((format!("{alias}/{file}"), ok));
                        }
                    }
                }
                4 => {
                    // the same file under another spelling
                    let (t, ok) = rng.pick(&real).clone();
                    let sp = match rng.below(3) {
                        0 => format!("./{t}"),
                        1 => format!("d/../{t}"),
                        _ => t.clone(),
                    };
                    listed.push((sp, ok));
                }
                _ => {
                    let p = format!("{name}.qml");
                    fs::write(cwd.join(&p), bad).unwrap();
                    real.push((p.clone(), false));
                    listed.push((p, false));
                }
            }
        }
        rng.shuffle(&mut listed);
        let o = Opts { outdir: None, nodyn: false, nolower: false };
        let srcs: Vec<String> = listed.iter().map(|l| l.0.clone()).collect();
        let argv = self.cli_args(&case, &o, &srcs);
        let r = self.run_cli(&case, &cwd, &argv, Strace::No);
        let mut f: Vec<String> = vec![];
        let any_bad = listed.iter().any(|l| !l.1);
        match (r.code, any_bad) {
            (Some(0), false) | (Some(1), true) => {}
            (c, _) => f.push(format!("exit status {c:?} with {} rejected source(s) listed", listed.iter().filter(|l| !l.1).count())),
        }
        for (p, ok) in &listed {
            let (dir, file) = p.rsplit_once('/').map(|(d, f)| (format!("{d}/"), f)).unwrap_or((String::new(), p.as_str()));
            let stem = file.trim_end_matches(".qml");
            let ui = cwd.join(format!("{dir}{}.ui", stem.to_lowercase()));
            let hdr = cwd.join(format!("{dir}uisupport_{}.h", stem.to_lowercase()));
            // two listed paths may name one output (a spelling variant of the same file): then both say the same
            let clash = listed.iter().any(|(q, okq)| q != p && okq != ok && {
                let (dq, fq) = q.rsplit_once('/').map(|(d, f)| (format!("{d}/"), f)).unwrap_or((String::new(), q.as_str()));
                fs::canonicalize(cwd.join(&dq)).ok() == fs::canonicalize(cwd.join(&dir)).ok() && fq.eq_ignore_ascii_case(file)
            });
            if clash {
                continue;
            }
            match (ok, fs::read_to_string(&ui)) {
                (true, Ok(text)) => {
                    if !text.contains(&format!("<class>{stem}</class>")) {
                        f.push(format!("{p}: {} does not carry <class>{stem}</class>", ui.strip_prefix(&cwd).unwrap().display()));
                    }
                    if !hdr.exists() {
                        f.push(format!("{p}: accepted, but its support header was not written"));
                    }
                }
                (true, Err(_)) => f.push(format!("{p}: listed and accepted, but no {}.ui was written next to it", stem.to_lowercase())),
                (false, Ok(_)) => f.push(format!("{p}: rejected, but a .ui was written")),
                (false, Err(_)) => {}
            }
        }
        if f.is_empty() {
            node("ok", vec![node("sources", vec![num(listed.len())])])
        } else {
            f.truncate(4);
            f.push(format!("command line: {}", srcs.join(" ")));
            node("fail", f.into_iter().map(st).collect())
        }
    }

    /// property oracle over histories: see the module documentation
    fn answer_fresh_oracle(&self, args: &[Sexp]) -> Sexp {
        let opts = parse_opts(&args[0]);
        let mut w = World::new(self, opts, parse_sources(&args[1]));
        let (_, steps) = args[2].as_node().expect("steps");
        let (mut judged, mut skipped) = (0, 0);
        let mut failures: Vec<String> = vec![];
        for (i, step) in steps.iter().enumerate() {
            if step.as_node().map(|x| x.0) == Some("gen") {
                let before = snapshot(&w.case.root);
                let r = w.gen(Strace::No);
                let after = snapshot(&w.case.root);
                let status = self.status_of(&r);
                match w.judge_step(&before, &after, status.as_atom().unwrap()) {
                    Ok(true) => judged += 1,
                    Ok(false) => skipped += 1,
                    Err(v) => failures.extend(v.into_iter().map(|m| format!("step {i}: {m}"))),
                }
            } else {
                w.apply_edit(step);
            }
        }
        if failures.is_empty() {
            node("ok", vec![node("steps", vec![num(judged)]), node("skipped", vec![num(skipped)])])
        } else {
            failures.truncate(6);
            node("fail", failures.into_iter().map(st).collect())
        }
    }

    /// replays the history up to (excluding) the last gen step in a fresh case directory
    fn replay_to_last<'a>(&'a self, args: &[Sexp]) -> World<'a> {
        let opts = parse_opts(&args[0]);
        let mut w = World::new(self, opts, parse_sources(&args[1]));
        let (_, steps) = args[2].as_node().expect("steps");
        let last = steps.iter().rposition(|s| s.as_node().map(|x| x.0) == Some("gen")).expect("a gen step");
        for step in &steps[..last] {
            if step.as_node().map(|x| x.0) == Some("gen") {
                w.gen(Strace::No);
            } else {
                w.apply_edit(step);
            }
        }
        w
    }

    fn kill_enumeration(&self, args: &[Sexp]) -> (Sexp, Sexp) {
        // reference run: which syscalls change state, old and new trees
        let mut w0 = self.replay_to_last(args);
        let before = snapshot(&w0.case.root);
        let r0 = w0.gen(Strace::Trace);
        let after = snapshot(&w0.case.root);
        let rel = |w: &World, snap: &BTreeMap<String, Entry>| -> BTreeMap<String, Entry> {
            snap.iter().map(|(k, v)| (k.strip_prefix(w.case.base.to_str().unwrap()).unwrap_or(k).to_owned(), v.clone())).collect()
        };
        let old = rel(&w0, &before);
        let new = rel(&w0, &after);
        let mut states: Vec<(String, Sexp)> = vec![];
        let mut add_state = |w: &World, snap: &BTreeMap<String, Entry>| {
            let mut v = vec![atom("state")];
            v.extend(w.listing(snap));
            let s = list(v);
            let r = s.render();
            if !states.iter().any(|x| x.0 == r) {
                states.push((r, s));
            }
        };
        add_state(&w0, &before);
        add_state(&w0, &after);
        let mut failures: Vec<String> = vec![];
        let mut killed_runs = 0;
        let mut recovered = 0;
        let ref_status = self.status_of(&r0).render();
        for kp in &r0.kill_points {
            let mut w = self.replay_to_last(args);
            let r = w.gen(Strace::Kill(kp.clone()));
            if !r.killed {
                failures.push(format!("not killed at {} #{}", kp.syscall, kp.ordinal));
                continue;
            }
            killed_runs += 1;
            let snap = snapshot(&w.case.root);
            w.refs = w0.refs.clone();
            add_state(&w, &snap);
            // oracle: complete old or complete new, residue = temp files next to outputs, new directories
            let cur = rel(&w, &snap);
            let temps_in = |m: &BTreeMap<String, Entry>, dir: &str| -> usize {
                m.iter().filter(|(q, e)| !e.is_dir && q.starts_with(dir) && !q[dir.len()..].contains('/') && q[dir.len()..].starts_with(".tmp")).count()
            };
            let mut temp_dirs: Vec<String> = vec![];
            for (p, e) in &cur {
                let fname = p.rsplit('/').next().unwrap_or("");
                if e.is_dir {
                    if !old.contains_key(p) && !new.contains_key(p) {
                        failures.push(format!("stray directory {p} after kill at {} #{}", kp.syscall, kp.ordinal));
                    }
                    continue;
                }
                if fname.starts_with(".tmp") {
                    // temp names are random: judged per directory below
                    let dir = p[..p.len() - fname.len()].to_owned();
                    if !temp_dirs.contains(&dir) {
                        temp_dirs.push(dir);
                    }
                    continue;
                }
                let is_old = old.get(p).map(|o| !o.is_dir && o.content == e.content).unwrap_or(false);
                let is_new = new.get(p).map(|o| !o.is_dir && o.content == e.content).unwrap_or(false);
                if !(is_old || is_new) {
                    failures.push(format!("{p} holds neither its old nor its new content after kill at {} #{}", kp.syscall, kp.ordinal));
                }
            }
            for dir in &temp_dirs {
                let (c, o, n) = (temps_in(&cur, dir), temps_in(&old, dir), temps_in(&new, dir));
                // at most one temp file in flight; only in a directory the complete run writes into
                let receives = n > o
                    || new.iter().any(|(q, e)| {
                        !e.is_dir && q.starts_with(dir.as_str()) && !q[dir.len()..].contains('/')
                            && old.get(q).map(|x| x.ino != e.ino).unwrap_or(true)
                    });
                if c > o + 1 || (c > o && !receives) {
                    failures.push(format!("unexpected temp files in {dir} ({c}, before {o}) after kill at {} #{}", kp.syscall, kp.ordinal));
                }
            }
            for (p, o) in &old {
                let fname = p.rsplit('/').next().unwrap_or("");
                if fname.starts_with(".tmp") {
                    let dir = &p[..p.len() - fname.len()];
                    if temps_in(&cur, dir) < temps_in(&old, dir) {
                        failures.push(format!("temp residue in {dir} vanished after kill at {} #{}", kp.syscall, kp.ordinal));
                    }
                } else if !cur.contains_key(p) && !o.is_dir {
                    failures.push(format!("{p} vanished after kill at {} #{}", kp.syscall, kp.ordinal));
                }
            }
            // recovery: the CLI run again to completion ends with every output as in the un-killed reference run
            if matches!(ref_status.as_str(), "ok" | "diagnostic") {
                let r2 = w.gen(Strace::No);
                let s2 = self.status_of(&r2).render();
                if s2 != ref_status {
                    failures.push(format!("re-run after kill at {} #{} ends with {s2}, the un-killed run with {ref_status}", kp.syscall, kp.ordinal));
                }
                let cur2 = rel(&w, &snapshot(&w.case.root));
                let is_tmp = |p: &str| p.rsplit('/').next().unwrap_or("").starts_with(".tmp");
                for (p, n) in &new {
                    if n.is_dir || is_tmp(p) {
                        continue;
                    }
                    match cur2.get(p) {
                        Some(c) if !c.is_dir && c.content == n.content => {}
                        _ => failures.push(format!("{p} does not hold the reference content after kill at {} #{} + complete re-run", kp.syscall, kp.ordinal)),
                    }
                }
                for (p, c) in &cur2 {
                    if !c.is_dir && !is_tmp(p) && !new.contains_key(p) {
                        failures.push(format!("unexpected file {p} after kill at {} #{} + complete re-run", kp.syscall, kp.ordinal));
                    }
                }
                recovered += 1;
            }
        }
        states.sort_by(|a, b| a.0.cmp(&b.0));
        let n_states = states.len();
        let mut sv = vec![atom("crash-states")];
        sv.extend(states.into_iter().map(|x| x.1));
        let oracle = if failures.is_empty() {
            node("ok", vec![node("kill-points", vec![num(killed_runs)]), node("states", vec![num(n_states)]), node("recovered", vec![num(recovered)])])
        } else {
            failures.truncate(5);
            node("fail", failures.into_iter().map(st).collect())
        };
        (list(sv), oracle)
    }

    fn kill_cached(&self, args: &[Sexp]) -> (Sexp, Sexp) {
        let key = list(args.to_vec()).render();
        let cell = {
            let mut m = self.kill_cache.lock().unwrap();
            m.entry(key).or_insert_with(|| Arc::new(OnceLock::new())).clone()
        };
        cell.get_or_init(|| self.kill_enumeration(args)).clone()
    }
}

// ---------------------------------------------------------------------------------------------------
// generators

const SHAPES: &[&str] = &[
    "X.qml", "./X.qml", "sub/Y.qml", "sub/Deep/MyDlg.qml", "./sub//a/./Z.W.qml", "Up.QML", "MiXed.Qml", "a/../B.qml",
    "../Esc.qml", "sub/../../Esc2.qml", "/ABS/Abs.qml", "/ABS/sub/Abs2.qml", "..qml", "x..qml", ".qml", "noext",
    "name.txt", "UPPER_CASE.qml", "with space.qml", "\u{dc}n\u{ef}.qml", "sub/.hidden.qml", ".tmpabc/T.qml",
    "Sub/Dir/CamelCase.qml", "a/b/c/d/e/Deep.qml", "uisupport_x.qml", "x.ui.qml", "-dash.qml", "./././Dots.qml",
];
/// sources `--output-directory` must refuse: a `..` segment anywhere (escaping or not), absolute paths
const UNSAFE_SHAPES: &[&str] = &[
    "../Esc.qml", "a/../Back.qml", "sub/../../Esc2.qml", "/ABS/Abs.qml", "/ABS/sub/Abs2.qml", "./../E3.qml",
    "a/b/../../../E4.qml", "sub/..//E5.qml", "../../E6.qml", "/ABS/../E7.qml", "a/./../b/E8.qml",
];
/// sources it must accept (relative, no `..` SEGMENT — `..b`, `b..`, `...` are ordinary names)
const SAFE_SHAPES: &[&str] = &[
    "X.qml", "./Dot.qml", "sub/Y.qml", "a/b/Z.qml", "sub//a/./W.qml", "./././D.qml", "Up.QML", "sub/.hid/H.qml",
    "with space.qml", "\u{dc}n\u{ef}.qml", "..b/C.qml", "b../C2.qml", ".../C3.qml", "a/b/c/d/e/Deep.qml", "Sub/Dir/CamelCase.qml",
    "x..qml", "x.ui.qml", "-dash.qml",
];
const OUTDIRS: &[Option<&str>] =
    &[None, Some("out"), Some("out/put"), Some("../o2"), Some("/ABS/absout"), Some("."), Some(""), Some("./o/./p//q")];

fn hist_request(tag: &str, o: &Opts, sources: &[(String, String)], steps: &[Sexp]) -> Sexp {
    let src: Vec<Sexp> = sources
        .iter()
        .map(|(p, s)| {
            let mut v = vec![atom("src"), st(p.clone())];
            v.extend(s.split(' ').map(|x| atom(x.to_owned())));
            list(v)
        })
        .collect();
    node(tag, vec![opts_sexp(o), node("sources", src), node("steps", steps.to_vec())])
}

fn gen_history(rng: &mut Rng, short: bool) -> (Opts, Vec<(String, String)>, Vec<Sexp>, Vec<String>) {
    let nodyn = rng.chance(1, 4);
    let o = Opts {
        outdir: rng.pick(&[None, Some("out"), Some("out/put"), None, Some("../o2"), Some("."), Some("/ABS/ao")]).map(|x| x.to_owned()),
        nodyn,
        nolower: rng.chance(1, 3),
    };
    // relative sources that are accepted with and without -O; a few special ones without -O
    let pool: &[&str] = if o.outdir.is_some() {
        &["X.qml", "./Dot.qml", "sub/Y.qml", "sub/Deep/MyDlg.qml", "sub//a/./Z.W.qml", "Up.QML", "other/Y.qml", "a/b/c/Deep.qml"]
    } else {
        &["X.qml", "./Dot.qml", "sub/Y.qml", "sub/Deep/MyDlg.qml", "sub//a/./Z.W.qml", "Up.QML", "a/../Back.qml",
          "/ABS/abs/A.qml", "../Esc.qml", "other/Y.qml"]
    };
    let n = 1 + rng.below(if short { 2 } else { 3 });
    let mut paths: Vec<String> = vec![];
    while paths.len() < n {
        let p = rng.pick(pool).to_string();
        let stem = type_name_of(&p).to_lowercase();
        // distinct outputs (collisions are the subject of a corpus case) — compare dir + lower-cased stem
        let dir = normalize_abs(&format!("/{}", p.rsplit_once('/').map(|x| x.0).unwrap_or(""))).join("/");
        if !paths.iter().any(|q| {
            let qd = normalize_abs(&format!("/{}", q.rsplit_once('/').map(|x| x.0).unwrap_or(""))).join("/");
            qd.replace("ABS", "") == dir.replace("ABS", "") && type_name_of(q).to_lowercase() == stem
        }) {
            paths.push(p);
        }
    }
    let state = |rng: &mut Rng| -> String {
        let h = if nodyn && rng.chance(3, 4) { 0 } else { rng.below(3) };
        format!("{} {}", 1 + rng.below(3), h)
    };
    let mut labels = vec![format!("outdir-{}", o.outdir.clone().unwrap_or("none".into()).replace('/', "_")), format!("sources{n}")];
    // with -O: sometimes an absolute / `..` source among the safe ones, in any position (every gen step must be refused
    // and leave everything alone, whatever the other sources and the history)
    let mut n = n;
    if o.outdir.is_some() && !short && rng.chance(1, 7) {
        let at = rng.below(paths.len() + 1);
        paths.insert(at, (*rng.pick(UNSAFE_SHAPES)).to_owned());
        n += 1;
        labels.push("mixed-unsafe".into());
    }
    let safe: Vec<usize> = (0..n).filter(|&k| o.outdir.is_none() || !unsafe_source_text(&paths[k])).collect();
    let mut sources: Vec<(String, String)> = paths.iter().map(|p| (p.clone(), state(rng))).collect();
    if rng.chance(1, 12) {
        let k = rng.below(n);
        sources[k].1 = (*rng.pick(&["fail", "missing", "dir"])).to_owned();
        labels.push(format!("initial-{}", sources[k].1));
    }
    let special: Vec<bool> = sources.iter().map(|(_, st)| st == "dir").collect();
    let mut blocked = false;
    let mut steps = vec![node("gen", vec![])];
    let n_steps = if short { 1 + rng.below(2) } else { 1 + rng.below(4) };
    // the outputs a source maps to (for rm / blockers), as the documentation says
    let out_of = |p: &str, o: &Opts| -> (String, String) {
        let (d, f) = p.rsplit_once('/').unwrap_or(("", p));
        let stem = type_name_of(f);
        let stem = if o.nolower { stem } else { stem.to_ascii_lowercase() };
        let base = match &o.outdir {
            Some(od) if !od.is_empty() => format!("{od}/{d}"),
            _ => d.to_owned(),
        };
        let base = if base.is_empty() { String::new() } else { format!("{base}/") };
        (format!("{base}{stem}.ui"), format!("{base}uisupport_{stem}.h"))
    };
    let mut cur: Vec<String> = sources.iter().map(|x| x.1.clone()).collect();
    for _ in 0..n_steps {
        match rng.below(12) {
            0..=3 => {
                let k = rng.below(n);
                if special[k] {
                    continue;
                }
                // only the binding expression / only the constant / both / neither (when the source translates)
                let s = match (cur[k].split_once(' '), rng.below(5)) {
                    (Some((u, h)), 0) if h != "0" && u.parse::<u32>().is_ok() => {
                        labels.push("edit-binding-only".into());
                        format!("{u} {}", if h == "1" { 2 } else { 1 })
                    }
                    (Some((u, h)), 1) if u.parse::<u32>().is_ok() => {
                        labels.push("edit-constant-only".into());
                        format!("{} {h}", u.parse::<u32>().unwrap() % 3 + 1)
                    }
                    (Some((u, h)), 2) if u.parse::<u32>().is_ok() => {
                        labels.push("edit-none".into());
                        format!("{u} {h}")
                    }
                    _ => state(rng),
                };
                cur[k] = s.clone();
                steps.push(list(vec![atom("edit"), num(k), atom(s.split(' ').next().unwrap().to_owned()), atom(s.split(' ').nth(1).unwrap().to_owned())]));
                labels.push("edit".into());
            }
            10 | 11 => {
                // an output made read-only (or writable again): replace-by-rename does not care, an unchanged one stays
                if blocked || safe.is_empty() {
                    continue;
                }
                let k = *rng.pick(&safe);
                let (u, h) = out_of(&paths[k], &o);
                steps.push(node("chmod", vec![st(if rng.chance(1, 2) { u } else { h }), atom(if rng.chance(3, 4) { "ro" } else { "rw" })]));
                labels.push("chmod-output".into());
            }
            4 => {
                let k = rng.below(n);
                if special[k] {
                    continue;
                }
                steps.push(list(vec![atom("edit"), num(k), atom("fail")]));
                cur[k] = "fail".into();
                labels.push("edit-fail".into());
            }
            5 => {
                if blocked || safe.is_empty() {
                    continue;
                }
                let k = *rng.pick(&safe);
                let (u, h) = out_of(&paths[k], &o);
                steps.push(node("rm", vec![st(if rng.chance(1, 2) { u } else { h })]));
                labels.push("rm-output".into());
            }
            6 => {
                if blocked || safe.is_empty() {
                    continue;
                }
                let k = *rng.pick(&safe);
                let (u, h) = out_of(&paths[k], &o);
                steps.push(node("put-file", vec![st(if rng.chance(1, 2) { u } else { h })]));
                labels.push("stale-output".into());
            }
            7 => {
                // rerun with nothing changed
                labels.push("rerun".into());
            }
            8 => {
                // a directory where an output should go (persist must fail), only if nothing is there yet
                if blocked || steps.len() > 1 || safe.is_empty() {
                    continue;
                }
                let k = *rng.pick(&safe);
                blocked = true;
                let (u, _) = out_of(&paths[k], &o);
                steps.insert(0, node("put-dir", vec![st(u)]));
                labels.push("blocker-dir".into());
            }
            9 => {
                // a file where an output directory should be created
                if let Some(od) = &o.outdir {
                    if !blocked && steps.len() == 1 && !od.is_empty() && od != "." && !od.starts_with("..") && !od.starts_with('/') {
                        blocked = true;
                        steps.insert(0, node("put-file", vec![st(od.split('/').next().unwrap().to_owned())]));
                        labels.push("blocker-file".into());
                    }
                }
            }
            _ => unreachable!(),
        }
        steps.push(node("gen", vec![]));
    }
    (o, sources, steps, labels)
}

impl Stream for C15 {
    fn generate(&self, seed: u64, thorough: bool) -> Vec<Case> {
        let mut rng = Rng::fork(seed, "c15", 0);
        let mut cases = vec![];
        // 1. path shapes × options
        for (si, shape) in SHAPES.iter().enumerate() {
            for (oi, od) in OUTDIRS.iter().enumerate() {
                if !thorough && oi >= 2 && (si + oi) % 4 != 0 {
                    continue;
                }
                for flags in 0..4 {
                    if !thorough && flags != 0 && (si + oi + flags) % 3 != 0 {
                        continue;
                    }
                    let o = Opts { outdir: od.map(|x| x.to_owned()), nodyn: flags & 1 != 0, nolower: flags & 2 != 0 };
                    let labels = vec![
                        format!("shape:{shape}"),
                        format!("outdir:{}", od.unwrap_or("none")),
                        format!("flags{flags}"),
                    ];
                    let a = vec![opts_sexp(&o), st(*shape)];
                    cases.push(Case { kind: "model", labels: labels.clone(), request: node("cli-paths", a.clone()) });
                    cases.push(Case { kind: "spec", labels, request: node("spec-cli-paths", a) });
                }
            }
        }
        // 1b. SEVERAL sources on one command line: safe and unsafe shapes mixed, the unsafe ones in every position
        {
            let mut push = |o: &Opts, srcs: &[&str], mut labels: Vec<String>| {
                let n_unsafe = srcs.iter().filter(|p| unsafe_source_text(p)).count();
                labels.push(format!("multi{}", srcs.len()));
                labels.push(format!("unsafe{n_unsafe}"));
                labels.push(format!("outdir:{}", o.outdir.as_deref().unwrap_or("none")));
                let a = vec![opts_sexp(o), node("multi", srcs.iter().map(|p| st(*p)).collect())];
                cases.push(Case { kind: "model", labels: labels.clone(), request: node("cli-paths", a.clone()) });
                cases.push(Case { kind: "spec", labels, request: node("spec-cli-paths", a) });
            };
            // systematic: every unsafe shape between two safe ones, in first / middle / last position
            for (ui, bad) in UNSAFE_SHAPES.iter().enumerate() {
                for pos in 0..3 {
                    if !thorough && (ui + pos) % 3 != 0 {
                        continue;
                    }
                    let od = OUTDIRS[1 + (ui + pos) % (OUTDIRS.len() - 1)];
                    let o = Opts { outdir: od.map(|x| x.to_owned()), nodyn: (ui + pos) % 4 == 3, nolower: (ui + pos) % 5 == 4 };
                    let mut srcs = vec![SAFE_SHAPES[ui % SAFE_SHAPES.len()], SAFE_SHAPES[(ui + 5) % SAFE_SHAPES.len()]];
                    srcs.insert(pos, bad);
                    push(&o, &srcs, vec![format!("unsafe-at{pos}"), format!("shape:{bad}")]);
                }
            }
            // random mixes, with and without -O
            let n_multi = if thorough { 900 } else { 110 };
            for _ in 0..n_multi {
                let od = *rng.pick(OUTDIRS);
                let o = Opts { outdir: od.map(|x| x.to_owned()), nodyn: rng.chance(1, 4), nolower: rng.chance(1, 4) };
                let n = 2 + rng.below(4);
                let n_unsafe = match rng.below(6) {
                    0..=2 => 0,
                    3 | 4 => 1,
                    _ => 2,
                };
                let mut srcs: Vec<&str> = (0..n).map(|_| *rng.pick(SAFE_SHAPES)).collect();
                for _ in 0..n_unsafe {
                    let at = rng.below(srcs.len() + 1);
                    srcs.insert(at, *rng.pick(UNSAFE_SHAPES));
                }
                push(&o, &srcs, vec!["multi-random".into()]);
            }
        }
        // 2. histories under strace
        let n_hist = if thorough { 600 } else { 70 };
        for _ in 0..n_hist {
            let (o, sources, steps, mut labels) = gen_history(&mut rng, false);
            labels.push("history".into());
            cases.push(Case { kind: "model", labels: labels.clone(), request: hist_request("cli-hist", &o, &sources, &steps) });
            cases.push(Case { kind: "oracle", labels: labels.clone(), request: hist_request("cli-rerun-oracle", &o, &sources, &steps) });
            cases.push(Case { kind: "oracle", labels, request: hist_request("cli-fresh-oracle", &o, &sources, &steps) });
        }
        // 2b. the regenerate grid: first run, ONE change, second run — for the edited source A and an untouched source B
        {
            let gen = || node("gen", vec![]);
            let edit = |u: u32, h: u32| list(vec![atom("edit"), num(0), num(u), num(h)]);
            for (oi, od) in [None, Some("out"), Some("out/put"), Some("."), Some("../o2")].iter().enumerate() {
                for flags in 0..4usize {
                    if !thorough && oi >= 2 && (oi + flags) % 2 != 0 {
                        continue;
                    }
                    let o = Opts { outdir: od.map(|x| x.to_owned()), nodyn: flags & 1 != 0, nolower: flags & 2 != 0 };
                    let (a, b) = ("sub/MyDlg.qml", "Other.qml");
                    let lower = |x: &str| if o.nolower { x.to_owned() } else { x.to_ascii_lowercase() };
                    let base = match od {
                        Some(d) => format!("{d}/sub/"),
                        None => "sub/".to_owned(),
                    };
                    let (ui, hdr) = (format!("{base}{}.ui", lower("MyDlg")), format!("{base}uisupport_{}.h", lower("MyDlg")));
                    let h0 = if o.nodyn { 0 } else { 1 };
                    let mut scen: Vec<(&str, Vec<Sexp>)> = vec![
                        ("constant-only", vec![edit(2, h0)]),
                        ("neither", vec![edit(1, h0)]),
                        ("rm-ui", vec![node("rm", vec![st(ui.clone())])]),
                        ("ro-ui-unchanged", vec![node("chmod", vec![st(ui.clone()), atom("ro")])]),
                        ("ro-ui-constant", vec![node("chmod", vec![st(ui.clone()), atom("ro")]), edit(3, h0)]),
                        ("stale-ui", vec![node("put-file", vec![st(ui.clone())])]),
                        ("source-broken-then-repaired", vec![list(vec![atom("edit"), num(0), atom("fail")]), gen(), edit(2, h0)]),
                    ];
                    if !o.nodyn {
                        scen.extend(vec![
                            ("binding-only", vec![edit(1, 2)]),
                            ("both", vec![edit(2, 2)]),
                            ("binding-removed", vec![edit(1, 0)]),
                            ("rm-hdr", vec![node("rm", vec![st(hdr.clone())])]),
                            ("rm-both", vec![node("rm", vec![st(ui.clone())]), node("rm", vec![st(hdr.clone())])]),
                            ("rm-hdr-binding", vec![node("rm", vec![st(hdr.clone())]), edit(1, 2)]),
                            ("ro-hdr-binding", vec![node("chmod", vec![st(hdr.clone()), atom("ro")]), edit(1, 2)]),
                            ("ro-hdr-unchanged", vec![node("chmod", vec![st(hdr.clone()), atom("ro")])]),
                            ("ro-both-constant", vec![node("chmod", vec![st(ui.clone()), atom("ro")]), node("chmod", vec![st(hdr.clone()), atom("ro")]), edit(2, 1)]),
                            ("stale-hdr", vec![node("put-file", vec![st(hdr.clone())])]),
                            ("stale-hdr-constant", vec![node("put-file", vec![st(hdr.clone())]), edit(2, 1)]),
                        ]);
                    }
                    for (name, mid) in scen {
                        let sources = vec![(a.to_owned(), format!("1 {h0}")), (b.to_owned(), format!("2 {h0}"))];
                        let mut steps = vec![gen()];
                        steps.extend(mid);
                        steps.push(gen());
                        let labels = vec!["regen-grid".to_owned(), format!("regen:{name}"), format!("outdir:{}", od.unwrap_or("none")), format!("flags{flags}")];
                        cases.push(Case { kind: "model", labels: labels.clone(), request: hist_request("cli-hist", &o, &sources, &steps) });
                        cases.push(Case { kind: "oracle", labels, request: hist_request("cli-fresh-oracle", &o, &sources, &steps) });
                    }
                }
            }
        }
        // 3. kill points
        let n_kill = if thorough { 150 } else { 24 };
        for _ in 0..n_kill {
            let (o, sources, mut steps, mut labels) = gen_history(&mut rng, true);
            labels.push("kill".into());
            // make the killed run do some work: change the first source right before the last gen step
            if rng.chance(3, 4) && sources[0].1 != "dir" {
                let h = if o.nodyn { 0 } else { rng.below(3) };
                let at = steps.len() - 1;
                steps.insert(at, list(vec![atom("edit"), num(0), num(4), num(h)]));
                labels.push("kill-after-edit".into());
            }
            cases.push(Case { kind: "model", labels: labels.clone(), request: hist_request("cli-kill", &o, &sources, &steps) });
            cases.push(Case { kind: "oracle", labels, request: hist_request("cli-kill-oracle", &o, &sources, &steps) });
        }
        // every listed source is translated, whatever else is on the command line: the same file under several names
        // (symbolic links to files and through directories, `./` and `a/../` spellings, listed twice), rejected sources
        // before / between / after accepted ones
        let m = if thorough { 600 } else { 60 };
        for k in 0..m {
            cases.push(Case { kind: "oracle", labels: vec!["every-source".into()], request: node("cli-every-source", vec![num(seed as usize % 1_000_000), num(k)]) });
        }
        cases
    }

    fn answer(&self, req: &Sexp) -> Sexp {
        let (tag, args) = req.as_node().expect("request node");
        match tag {
            "cli-paths" | "spec-cli-paths" => self.answer_paths(args),
            "cli-hist" => self.answer_hist(args),
            "cli-rerun-oracle" => self.answer_rerun_oracle(args),
            "cli-fresh-oracle" => self.answer_fresh_oracle(args),
            "cli-kill" => self.kill_cached(args).0,
            "cli-kill-oracle" => self.kill_cached(args).1,
            "cli-every-source" => self.answer_every_source(args),
            _ => node("bad-request", vec![]),
        }
    }
}
