//! C05: static typing discipline.  All programs are bound on object `a` (class VBase) of the document shape of the
//! `ir` stream and translated by the REAL pipeline in generate mode.
//!
//! * `(c05-accept  (this …) (objects …) (kind prop "i" | cb "fired") <program>)`, kind=pred: a WELL-TYPED program
//!   generated type-directed from the documented constructs (typegen.rs).  Answer: what the real compiler did,
//!     (accepted (warnings n) (ui yes|no) (code yes|no))  |  (rejected (errors "msg"…) (ui yes|no) (code yes|no))
//!   Lean (`Spec.Typing`) must type the program and the compiler must have accepted it without any diagnostic.
//! * `(c05-reject (mut "kind") (this …) …)`, kind=pred: the same with ONE type-breaking edit of the catalogue
//!   `typegen::Mk`.  If Lean says ill-typed the compiler must have produced ≥ 1 error and neither a `.ui` value nor
//!   a support-code function for the binding.
//! * `(c05-ir …)`, kind=pred: the REAL IR of every accepted program, re-checked by `Spec.IrTyping.check`.
//!   Answer: (built <code>) | (rejected)
//! * `(c05-verdict …)`, kind=model: accepted/rejected vs the Lean MODEL of the checker (tir::build + dependency
//!   analysis + verify_code_return_type / verify_callback_parameter_type: QV.Model.TypeCheck).
use crate::ast::{self, Program};
use crate::env::{self, Mode};
use crate::rng::Rng;
use crate::sexp::{atom, list, node, num, st, Sexp};
use crate::streams::ir;
use crate::typegen::{self, Mk, TGen, T, ALL_MK, ALL_T};
use crate::xml;
use crate::{Case, Stream};
use qmluic::typemap::TypeMap;

pub struct C05 {
    tm: TypeMap,
}

impl C05 {
    pub fn new() -> Self {
        C05 { tm: env::load_verif_type_map() }
    }
}

const SIGNALS: &[(&str, &[T])] = &[
    ("fired", &[]),
    ("fired2", &[T::Int, T::Str]),
    ("defaulted", &[T::Bool]),
    ("moved", &[T::PBase]),
    ("iChanged", &[]),
];

fn cap(s: &str) -> String {
    let mut c = s.chars();
    match c.next() {
        Some(f) => f.to_ascii_uppercase().to_string() + c.as_str(),
        None => String::new(),
    }
}

fn yes(b: bool) -> Sexp {
    atom(if b { "yes" } else { "no" })
}

/// which program shapes an edit kind applies to
fn wants_callback(k: Mk) -> Option<bool> {
    match k {
        Mk::CbTooManyParams | Mk::CbParamType | Mk::CbParamUntyped | Mk::CbNamed | Mk::CbDupParam | Mk::AssignReadOnly | Mk::AssignRvalue => Some(true),
        Mk::ResultType | Mk::ReturnVoid | Mk::ReturnMixed | Mk::VoidValue | Mk::Unreadable | Mk::Undeclared | Mk::OutOfScope | Mk::BreakOutside
        | Mk::FunctionExpression | Mk::LiteralDefault | Mk::UnsupportedStatement | Mk::SwitchScopeLeak | Mk::IfScopeLeak => Some(false),
        _ => None,
    }
}

struct Target {
    kind: Sexp,
    label: String,
    /// operand position broken by an operand-swap edit (typegen::TGen::pos)
    pos: Option<&'static str>,
}

/// one generated program: binding of type ALL_T[..] or callback
fn generate(seed: u64, label: &str, k: u64, callback: bool, plan: Option<(Mk, usize)>) -> (Target, Program, usize) {
    let mut rng = Rng::fork(seed, label, k);
    let side = Rng::fork(seed, "c05-side", k ^ plan.map(|p| (p.1 as u64).wrapping_add(1)).unwrap_or(0));
    let depth = 1 + rng.below(4);
    if callback {
        let (sig, params) = *rng.pick(SIGNALS);
        let mut g = TGen::new(rng, side, plan);
        let p = g.callback(params, depth.min(3));
        (Target { kind: node("kind", vec![atom("cb"), st(sig)]), label: format!("cb-{sig}"), pos: g.pos }, p, g.counter)
    } else {
        let t = *rng.pick(ALL_T);
        let prop = *rng.pick(t.props());
        let mut g = TGen::new(rng, side, plan);
        let p = g.binding(t, depth);
        (Target { kind: node("kind", vec![atom("prop"), st(prop)]), label: format!("{t:?}"), pos: g.pos }, p, g.counter)
    }
}

impl C05 {
    fn translate(&self, args: &[Sexp]) -> Result<(env::Translation, bool, String), Sexp> {
        let (_, kind) = args[2].as_node().unwrap();
        let is_cb = kind[0].as_atom() == Some("cb");
        let name = kind[1].as_str().unwrap().to_owned();
        let program = ast::program_of(&args[3]);
        let lhs = if is_cb { format!("on{}", cap(&name)) } else { name.clone() };
        let src = ir::document(&lhs, &program);
        let t = env::translate(&self.tm, &src, "MyType", Mode::Generate);
        if t.syntax_errors > 0 {
            return Err(node("syntax-error", vec![st(src)]));
        }
        Ok((t, is_cb, name))
    }

    /// what became of the binding in the outputs
    fn outputs(t: &env::Translation, is_cb: bool, name: &str) -> (bool, bool) {
        let mut in_ui = false;
        if let Some(ui) = &t.ui {
            if let Ok(root) = xml::parse(ui) {
                let all = root.descendants();
                if let Some(a) = all.iter().find(|e| e.name == "widget" && e.attr("name") == Some("a")) {
                    in_ui = !is_cb && a.children_named("property").any(|p| p.attr("name") == Some(name));
                }
            }
        }
        let fname = format!("A{}", cap(name));
        let in_code = t.header.as_ref().is_some_and(|h| {
            if is_cb {
                h.contains(&format!("void on{fname}("))
            } else {
                h.contains(&format!(" eval{fname}(")) || h.contains(&format!("void update{fname}("))
            }
        });
        (in_ui, in_code)
    }

    fn judge_answer(&self, args: &[Sexp]) -> Sexp {
        let (t, is_cb, name) = match self.translate(args) {
            Ok(x) => x,
            Err(e) => return e,
        };
        let (in_ui, in_code) = Self::outputs(&t, is_cb, &name);
        let errors: Vec<Sexp> = t.diags.iter().filter(|d| d.is_error).map(|d| st(d.message.clone())).collect();
        let warnings = t.diags.iter().filter(|d| !d.is_error).count();
        if errors.is_empty() && t.built {
            node("accepted", vec![node("warnings", vec![num(warnings)]), node("ui", vec![yes(in_ui)]), node("code", vec![yes(in_code)])])
        } else {
            node("rejected", vec![node("errors", errors), node("ui", vec![yes(in_ui)]), node("code", vec![yes(in_code)])])
        }
    }

    fn ir_answer(&self, args: &[Sexp]) -> Sexp {
        let (_, kind) = args[2].as_node().unwrap();
        let is_cb = kind[0].as_atom() == Some("cb");
        let name = kind[1].as_str().unwrap();
        let program = ast::program_of(&args[3]);
        let lhs = if is_cb { format!("on{}", cap(name)) } else { name.to_owned() };
        let src = ir::document(&lhs, &program);
        let (obs, diags) = match ir::observe(&self.tm, &src, if is_cb { "callback" } else { "property" }, name) {
            Ok(x) => x,
            Err(e) => return e,
        };
        if diags.iter().any(|d| d.is_error) {
            return node("rejected", vec![]);
        }
        match obs.code {
            Some(code) => node("built", vec![code]),
            None => node("rejected", vec![]),
        }
    }
}

impl Stream for C05 {
    fn generate(&self, seed: u64, thorough: bool) -> Vec<Case> {
        let mut cases = vec![];
        let push3 = |cases: &mut Vec<Case>, labels: Vec<String>, req: &Sexp, first: &str, extra: Option<Sexp>| {
            let (_, args) = req.as_node().unwrap();
            let mut a = vec![];
            if let Some(x) = extra {
                a.push(x);
            }
            a.extend(args.iter().cloned());
            cases.push(Case { kind: "pred", labels: labels.clone(), request: node(first, a) });
            cases.push(Case { kind: "pred", labels: labels.clone(), request: ir::retag(req, "c05-ir") });
            cases.push(Case { kind: "model", labels, request: ir::retag(req, "c05-verdict") });
        };
        // well-typed programs
        let n = if thorough { 60_000 } else { 3_000 };
        for k in 0..n {
            let callback = k % 4 == 3;
            let (target, p, _) = generate(seed, "c05", k as u64, callback, None);
            let mut labels = vec!["accept".to_string(), target.label.clone()];
            if matches!(p, Program::Stmt(ast::Stmt::Block(_))) {
                labels.push("block".into());
            }
            let req = ir::make_request(target.kind, &p);
            push3(&mut cases, labels, &req, "c05-accept", None);
        }
        // single type-breaking edits
        let m = if thorough { 80_000 } else { 4_000 };
        for k in 0..m {
            let mk = ALL_MK[k % ALL_MK.len()];
            let mut rng = Rng::fork(seed, "c05-mut", k as u64);
            if mk == Mk::ResultType {
                let side = Rng::fork(seed, "c05-mut-side", k as u64);
                let (pt, _, p) = typegen::result_type_mutant(&mut rng, side);
                let prop = pt.props()[0];
                let req = ir::make_request(node("kind", vec![atom("prop"), st(prop)]), &p);
                push3(&mut cases, vec!["reject".into(), format!("mut:{}", mk.name())], &req, "c05-reject", Some(node("mut", vec![st(mk.name())])));
                continue;
            }
            // find a program with at least one place where the edit applies
            let mut found = None;
            for attempt in 0..40u64 {
                let callback = match wants_callback(mk) {
                    Some(b) => b,
                    None => attempt % 3 == 2,
                };
                let idx = (k as u64) * 64 + attempt;
                let (_, _, sites) = generate(seed, "c05-mutbase", idx, callback, Some((mk, usize::MAX)));
                if sites > 0 {
                    let site = rng.below(sites);
                    let (target, p, _) = generate(seed, "c05-mutbase", idx, callback, Some((mk, site)));
                    found = Some((target, p));
                    break;
                }
            }
            let Some((target, p)) = found else { continue };
            let req = ir::make_request(target.kind, &p);
            let mut labels = vec!["reject".to_string(), format!("mut:{}", mk.name()), target.label.clone()];
            if let Some(pos) = target.pos {
                labels.push(format!("pos:{pos}"));
            }
            push3(
                &mut cases,
                labels,
                &req,
                "c05-reject",
                Some(node("mut", vec![st(mk.name())])),
            );
        }
        cases
    }

    fn answer(&self, req: &Sexp) -> Sexp {
        let (tag, args) = req.as_node().expect("request node");
        match tag {
            "c05-accept" => self.judge_answer(args),
            "c05-reject" => self.judge_answer(&args[1..]),
            "c05-ir" => self.ir_answer(args),
            "c05-verdict" => {
                let a = self.judge_answer(args);
                match a.as_node() {
                    Some(("accepted", _)) => node("accepted", vec![]),
                    Some(("rejected", r)) => {
                        // a rejection that comes ONLY from a syntax node the translator does not know (the parser chose a
                        // reading outside the documented subset, finding F101) is told apart: the model has no parser
                        let msgs: Vec<&str> = r.first().and_then(|e| e.as_node()).map(|(_, es)| es.iter().filter_map(|e| e.as_str()).collect()).unwrap_or_default();
                        if !msgs.is_empty() && msgs.iter().all(|m| m.starts_with("unexpected node kind: ")) {
                            node("rejected", vec![node("parser", vec![st(msgs[0].to_owned())])])
                        } else {
                            node("rejected", vec![])
                        }
                    }
                    _ => a,
                }
            }
            _ => list(vec![atom("bad-request")]),
        }
    }
}
