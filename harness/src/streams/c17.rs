//! C17 — type lookups on generated class tables, through the real `ModuleData::extend` / `TypeMap` API.
//!
//! Request (kind=model, compared with QV.Model.ClassGraph):
//!   (cg (classes (class "Name" (supers ("S" pub|prot|priv)..) (props "p"..)
//!                       (signals ("m" pub|prot|priv NARGS)..) (slots ..) (methods ..)
//!                       (enums ("E" scoped|unscoped "V"..)..))..)
//!       (others "N"..)          ; names that resolve in the module scope to something that is not a class
//!                               ; (module-level enums; primitive type names such as "int")
//!       (queries Q..))
//!   Q ::= (derives "A" "B") | (commonbase "A" "B") | (supers "C") | (prop "C" "n") | (method "C" "n")
//!       | (variant "C" "v") | (type "C" "n")
//!       | (derives*) | (commonbase*) | (supers*)                     ; for all (pairs of) class names, table order
//!       | (prop* "n"..) | (method* "n"..) | (variant* "v"..) | (type* "n"..)   ; for all classes × the given names
//!   Answer: (ans A..), one A per expanded query:
//!     derives            T | F | noclass
//!     supers             (items (ok "A") (err tr|sc "N")..)
//!     prop               - | (ok "Owner") | (err tr|sc "N")
//!     method             - | (ok "Owner" (signal|slot|method NARGS)..) | (err ..)
//!     variant, type      - | (ok "Owner::Enum") | (err ..)
//!     commonbase         - | (ok "Class") | (err ..)
//!   where tr = TypeMapError::InvalidTypeRef, sc = TypeMapError::InvalidSuperClassType.
//!
//! Request (kind=spec, compared with QV.Spec.Graph; `f10-cg` is the F10 variant of the same oracle): `(spec-cg …)`,
//! same payload.  The answers are coarse — what the property text determines:
//!     derives            T | F
//!     supers             (sup "A"..)                       public supers that resolve to a class, in order
//!     prop/method/type/variant   - | (own) | (inh)   (an `Err` counts as "not found": `-`; + ` unsound` inside the list when the real owner is not an
//!                        ancestor-or-self according to the real `is_derived_from`, or does not declare the member in
//!                        the request's table, or — for variants — the real enum does not list the variant)
//!     commonbase         - | (cb) | (cb unsound)            (`Err` → `-`) sound = both classes derive from the result (real code)
//!
//! MEMBER TYPES.  A property is `"p"` (type `int`) or `("p" "Type")`, a method `("m" pub NARGS)` (`void m(int, …)`) or
//! `("m" pub (args "T1" …) (ret "R"))`.  Type names are what a metatypes.json carries: `int`, `QString`, `C0*`, `QList<int>`,
//! `QStringList`, a nested enum `E`, a scoped name `C0::E`, … and names that do not resolve (`Nope`, `QList<Nope>`, `QMap<int,int>`,
//! `C0::Nope`, an enum that only a DERIVED class declares, …).  A declaration whose types do not resolve in the scope of the
//! declaring class is `(err tr "Nope")` / `(err ud "QMap<int,int>")` (ud = TypeMapError::UnsupportedDecoration) — also when an
//! ancestor declares the same name resolvably.
//!
//! Request (kind=pred, judged by QV.Spec.GraphMembers): `(spec-cg (classes …) (others …) (queries …) (judge))`; the answer is the
//! EXACT answer vector (as for `cg`); check appends `(impl (ans …))` and the Lean specification says `(ok n)` or
//! `(fail (query i "why" …))`: every member answer must be that of an UNHIDDEN declaration of the name (the class's own one
//! first; on a chain the nearest), found iff that declaration's types resolve, an error iff they do not.
//!
//! Requests (kind=oracle, the whole pipeline): `(c17-doc (classes …) (use KIND "Inst" "As" "member"))` — the classes (same
//! syntax; supers may name Qt classes) are loaded NEXT TO the Qt metatypes, a document is written that instantiates `Inst` and
//! uses the member through `As` (`Inst` itself or an ancestor: `(x as As).m()`), KIND = prop-bind | prop-read | method-call |
//! signal-cb, translated in-process (generate mode); `(c17-cli …same…)` runs the real `qmluic generate-ui` binary with the classes
//! in a `--foreign-types` file.  Expected, computed here from the class list by the same rule (unhidden declaration decides):
//! accepted, "… resolution failed", or "unknown property / not found".  Answers `(ok …)` / `(violation …)`.
//!
//! ISOLATION.  Every table request (and every whole-pipeline request on a cyclic class family) is answered in a CHILD PROCESS
//! (`qv-harness answer c17` with QV_C17_INPROC=1, one request, 5 s): a look-up that does not terminate is killed and answered
//! `(fail "child-timeout" …)`, one that exhausts the stack (plain recursion over a cyclic graph aborts the process) is answered
//! `(fail "child-crashed" (status "signal 6") …)` — a failing input instead of a harness that hangs or dies.  After 12 such answers
//! in one run the remaining isolated cases are not started any more (`(fail "not-run" …)`): the run is red anyway, and it ends.
use crate::rng::Rng;
use crate::sexp::{atom, list, node, st, Sexp};
use crate::{Case, Stream};
use qmluic::metatype;
use qmluic::typemap::{
    Class, MethodKind, ModuleData, ModuleId, NamedType, Namespace, TypeMap, TypeMapError, TypeSpace as _,
};
use std::sync::OnceLock;

mod pipeline;
use pipeline::{status_vectors, St};

/// cases of this run that crashed or timed out in their child process
static CHILD_FAILURES: std::sync::atomic::AtomicUsize = std::sync::atomic::AtomicUsize::new(0);
const CHILD_FAILURE_LIMIT: usize = 12;
const CHILD_TIMEOUT: std::time::Duration = std::time::Duration::from_secs(5);

/// Answers `req` in a child process (see ISOLATION in the header).
fn answer_in_child(req: &Sexp) -> Sexp {
    use std::io::{Read as _, Write as _};
    use std::sync::atomic::Ordering;
    if CHILD_FAILURES.load(Ordering::Relaxed) >= CHILD_FAILURE_LIMIT {
        return node("fail", vec![st("not-run"), st(format!("{CHILD_FAILURE_LIMIT} earlier cases of this run crashed or timed out in their child process"))]);
    }
    let exe = match std::env::current_exe() {
        Ok(e) => e,
        Err(e) => return node("fail", vec![st("child-spawn"), st(e.to_string())]),
    };
    let child = std::process::Command::new(exe)
        .args(["answer", "c17"])
        .env("QV_C17_INPROC", "1")
        .env("QV_CASE_TIMEOUT", "60")
        .stdin(std::process::Stdio::piped())
        .stdout(std::process::Stdio::piped())
        .stderr(std::process::Stdio::null())
        .spawn();
    let mut child = match child {
        Ok(c) => c,
        Err(e) => return node("fail", vec![st("child-spawn"), st(e.to_string())]),
    };
    {
        let mut stdin = child.stdin.take().expect("piped stdin");
        let _ = writeln!(stdin, "{}", req.render());
    }
    let mut stdout = child.stdout.take().expect("piped stdout");
    let reader = std::thread::spawn(move || {
        let mut out = String::new();
        let _ = stdout.read_to_string(&mut out);
        out
    });
    let start = std::time::Instant::now();
    let status = loop {
        match child.try_wait() {
            Ok(Some(s)) => break Some(s),
            Ok(None) if start.elapsed() > CHILD_TIMEOUT => {
                let _ = child.kill();
                let _ = child.wait();
                break None;
            }
            Ok(None) => std::thread::sleep(std::time::Duration::from_millis(2)),
            Err(_) => break None,
        }
    };
    let out = reader.join().unwrap_or_default();
    match status {
        None => {
            CHILD_FAILURES.fetch_add(1, Ordering::Relaxed);
            node("fail", vec![st("child-timeout"), node("seconds", vec![atom(CHILD_TIMEOUT.as_secs().to_string())]), st("the look-ups of this request do not terminate")])
        }
        Some(s) => match out.lines().next().and_then(Sexp::parse) {
            Some(a) if s.success() => a,
            _ => {
                use std::os::unix::process::ExitStatusExt as _;
                CHILD_FAILURES.fetch_add(1, Ordering::Relaxed);
                let how = match (s.signal(), s.code()) {
                    (Some(sig), _) => format!("signal {sig}"),
                    (_, Some(c)) => format!("exit {c}"),
                    _ => "unknown".to_owned(),
                };
                node("fail", vec![st("child-crashed"), node("status", vec![st(how)]), st("the process answering this request died (signal 6 / 11: stack exhausted by unbounded recursion)")])
            }
        },
    }
}

pub struct C17 {
    /// the Qt metatypes of /repo, parsed once (whole-pipeline cases only)
    qt: OnceLock<Vec<metatype::Class>>,
}

impl C17 {
    pub fn new() -> Self {
        C17 { qt: OnceLock::new() }
    }
}

#[derive(Clone, Debug)]
struct PropSpec {
    name: String,
    /// `None`: the old untyped form, type `int`
    ty: Option<String>,
}

impl PropSpec {
    fn type_name(&self) -> &str {
        self.ty.as_deref().unwrap_or("int")
    }
}

#[derive(Clone, Debug)]
struct MethodSpec {
    name: String,
    access: &'static str,
    nargs: usize,
    /// `None`: the old untyped form `void name(int × nargs)`; else (argument type names, return type name)
    types: Option<(Vec<String>, String)>,
}

impl MethodSpec {
    fn arg_types(&self) -> Vec<String> {
        match &self.types {
            Some((a, _)) => a.clone(),
            None => vec!["int".to_owned(); self.nargs],
        }
    }
    fn ret_type(&self) -> &str {
        self.types.as_ref().map(|t| t.1.as_str()).unwrap_or("void")
    }
}

#[derive(Clone, Debug)]
struct EnumSpec {
    name: String,
    scoped: bool,
    variants: Vec<String>,
}

#[derive(Clone, Debug, Default)]
struct ClassSpec {
    name: String,
    supers: Vec<(String, &'static str)>,
    props: Vec<PropSpec>,
    signals: Vec<MethodSpec>,
    slots: Vec<MethodSpec>,
    methods: Vec<MethodSpec>,
    enums: Vec<EnumSpec>,
}

#[derive(Clone, Debug, Default)]
struct TableSpec {
    classes: Vec<ClassSpec>,
    others: Vec<String>,
}

const PRIMITIVES: [&str; 8] = ["bool", "double", "int", "qreal", "QString", "QVariant", "uint", "void"];

fn access_atom(a: &str) -> Option<&'static str> {
    match a {
        "pub" => Some("pub"),
        "prot" => Some("prot"),
        "priv" => Some("priv"),
        _ => None,
    }
}

fn access_meta(a: &str) -> metatype::AccessSpecifier {
    match a {
        "pub" => metatype::AccessSpecifier::Public,
        "prot" => metatype::AccessSpecifier::Protected,
        _ => metatype::AccessSpecifier::Private,
    }
}

// ---------------------------------------------------------------------------------------------- encoding

fn strs(v: &[String]) -> Vec<Sexp> {
    v.iter().map(|s| st(s.clone())).collect()
}

fn methods_sexp(tag: &str, ms: &[MethodSpec]) -> Sexp {
    node(
        tag,
        ms.iter()
            .map(|m| match &m.types {
                None => list(vec![st(m.name.clone()), atom(m.access), atom(m.nargs.to_string())]),
                Some((args, ret)) => list(vec![st(m.name.clone()), atom(m.access), node("args", strs(args)), node("ret", vec![st(ret.clone())])]),
            })
            .collect(),
    )
}

fn class_sexp(c: &ClassSpec) -> Sexp {
    node(
        "class",
        vec![
            st(c.name.clone()),
            node("supers", c.supers.iter().map(|(n, a)| list(vec![st(n.clone()), atom(*a)])).collect()),
            node(
                "props",
                c.props
                    .iter()
                    .map(|p| match &p.ty {
                        None => st(p.name.clone()),
                        Some(t) => list(vec![st(p.name.clone()), st(t.clone())]),
                    })
                    .collect(),
            ),
            methods_sexp("signals", &c.signals),
            methods_sexp("slots", &c.slots),
            methods_sexp("methods", &c.methods),
            node(
                "enums",
                c.enums
                    .iter()
                    .map(|e| {
                        let mut v = vec![st(e.name.clone()), atom(if e.scoped { "scoped" } else { "unscoped" })];
                        v.extend(strs(&e.variants));
                        list(v)
                    })
                    .collect(),
            ),
        ],
    )
}

fn parse_class(c: &Sexp) -> Option<ClassSpec> {
    let (t, a) = c.as_node()?;
    if t != "class" || a.len() != 7 {
        return None;
    }
    let sect = |s: &Sexp, tag: &str| -> Option<Vec<Sexp>> {
        let (t, v) = s.as_node()?;
        (t == tag).then(|| v.to_vec())
    };
    let meths = |s: &Sexp, tag: &str| -> Option<Vec<MethodSpec>> {
        sect(s, tag)?
            .iter()
            .map(|m| {
                let l = m.as_list()?;
                let name = l.first()?.as_str()?.to_owned();
                let access = access_atom(l.get(1)?.as_atom()?)?;
                if let Some(n) = l.get(2)?.as_usize() {
                    return (l.len() == 3).then(|| MethodSpec { name, access, nargs: n, types: None });
                }
                let (t, args) = l.get(2)?.as_node()?;
                let (t2, ret) = l.get(3)?.as_node()?;
                if t != "args" || t2 != "ret" || ret.len() != 1 || l.len() != 4 {
                    return None;
                }
                let args = args.iter().map(|x| x.as_str().map(str::to_owned)).collect::<Option<Vec<_>>>()?;
                Some(MethodSpec { name, access, nargs: args.len(), types: Some((args, ret[0].as_str()?.to_owned())) })
            })
            .collect()
    };
    let mut cls = ClassSpec { name: a[0].as_str()?.to_owned(), ..Default::default() };
    for s in sect(&a[1], "supers")? {
        let l = s.as_list()?;
        cls.supers.push((l.first()?.as_str()?.to_owned(), access_atom(l.get(1)?.as_atom()?)?));
    }
    for p in sect(&a[2], "props")? {
        cls.props.push(match p.as_str() {
            Some(n) => PropSpec { name: n.to_owned(), ty: None },
            None => {
                let l = p.as_list()?;
                if l.len() != 2 {
                    return None;
                }
                PropSpec { name: l[0].as_str()?.to_owned(), ty: Some(l[1].as_str()?.to_owned()) }
            }
        });
    }
    cls.signals = meths(&a[3], "signals")?;
    cls.slots = meths(&a[4], "slots")?;
    cls.methods = meths(&a[5], "methods")?;
    for e in sect(&a[6], "enums")? {
        let l = e.as_list()?;
        let scoped = match l.get(1)?.as_atom()? {
            "scoped" => true,
            "unscoped" => false,
            _ => return None,
        };
        let variants = l[2..].iter().map(|v| v.as_str().map(str::to_owned)).collect::<Option<Vec<_>>>()?;
        cls.enums.push(EnumSpec { name: l.first()?.as_str()?.to_owned(), scoped, variants });
    }
    Some(cls)
}

fn meta_methods(ms: &[MethodSpec]) -> Vec<metatype::Method> {
    ms.iter()
        .map(|m| {
            let mut x = metatype::Method::with_argument_types(m.name.clone(), m.ret_type(), m.arg_types());
            x.access = access_meta(m.access);
            x
        })
        .collect()
}

fn meta_class(c: &ClassSpec) -> metatype::Class {
    metatype::Class {
        class_name: c.name.clone(),
        qualified_class_name: c.name.clone(),
        object: true,
        super_classes: c
            .supers
            .iter()
            .map(|(n, a)| metatype::SuperClassSpecifier { name: n.clone(), access: access_meta(a) })
            .collect(),
        properties: c
            .props
            .iter()
            .map(|p| {
                let mut x = metatype::Property::new(p.name.clone(), p.type_name());
                // readable and writable (the whole-pipeline documents bind and read them)
                x.read = Some(p.name.clone());
                let mut setter = String::from("set");
                setter.extend(p.name.chars().take(1).flat_map(|c| c.to_uppercase()));
                setter.extend(p.name.chars().skip(1));
                x.write = Some(setter);
                x
            })
            .collect(),
        signals: meta_methods(&c.signals),
        slots: meta_methods(&c.slots),
        methods: meta_methods(&c.methods),
        enums: c
            .enums
            .iter()
            .map(|e| {
                let mut m = metatype::Enum::with_values(e.name.clone(), e.variants.clone());
                m.is_class = e.scoped;
                m
            })
            .collect(),
        ..Default::default()
    }
}

impl TableSpec {
    fn to_sexp(&self) -> (Sexp, Sexp) {
        (node("classes", self.classes.iter().map(class_sexp).collect()), node("others", strs(&self.others)))
    }

    fn parse(classes: &Sexp, others: &Sexp) -> Option<TableSpec> {
        let (t, cs) = classes.as_node()?;
        if t != "classes" {
            return None;
        }
        let mut out = TableSpec::default();
        for c in cs {
            out.classes.push(parse_class(c)?);
        }
        let (t, os) = others.as_node()?;
        if t != "others" {
            return None;
        }
        for o in os {
            out.others.push(o.as_str()?.to_owned());
        }
        Some(out)
    }

    /// the class a name denotes (the last one loaded under that name)
    fn effective(&self, name: &str) -> Option<&ClassSpec> {
        self.classes.iter().rev().find(|c| c.name == name)
    }

    /// inputs outside the modelled fragment
    fn unsupported(&self) -> Option<&'static str> {
        for c in &self.classes {
            if self.others.contains(&c.name) || PRIMITIVES.contains(&c.name.as_str()) {
                return Some("class-name-clashes-with-non-class");
            }
            for (s, _) in &c.supers {
                if s.contains("::") {
                    return Some("scoped-super-name");
                }
                if s == "QString" {
                    return Some("primitive-class-super");
                }
                if PRIMITIVES.contains(&s.as_str()) && !self.others.contains(s) {
                    return Some("primitive-super-not-listed-in-others");
                }
            }
        }
        if self.others.iter().any(|o| o == "QString" || o.contains("::")) {
            return Some("unsupported-other-name");
        }
        None
    }

    fn build_type_map(&self) -> TypeMap {
        let mut type_map = TypeMap::with_primitive_types();
        let mut md = ModuleData::with_builtins();
        md.extend(self.classes.iter().map(meta_class));
        md.extend(
            self.others
                .iter()
                .filter(|o| !PRIMITIVES.contains(&o.as_str()))
                .map(|o| metatype::Enum::with_values(o.clone(), ["OtherValue"])),
        );
        type_map.insert_module(ModuleId::Named("m"), md);
        type_map
    }
}

// ---------------------------------------------------------------------------------------------- queries

#[derive(Clone, Debug)]
enum Query {
    Derives(String, String),
    CommonBase(String, String),
    Supers(String),
    Prop(String, String),
    Method(String, String),
    Variant(String, String),
    Type(String, String),
    /// scoped names `A::B::C`: `get_type_scoped` on the module / on a class, `resolve_type_scoped` on a class
    GScoped(String),
    CScoped(String, String),
    RScoped(String, String),
}

fn expand_queries(tbl: &TableSpec, qs: &[Sexp]) -> Option<Vec<Query>> {
    let names: Vec<String> = tbl.classes.iter().map(|c| c.name.clone()).collect();
    let mut out = vec![];
    for q in qs {
        let (tag, args) = q.as_node()?;
        let a: Vec<String> = args.iter().map(|x| x.as_str().map(str::to_owned)).collect::<Option<_>>()?;
        let two = |f: fn(String, String) -> Query, out: &mut Vec<Query>| -> Option<()> {
            if a.len() != 2 {
                return None;
            }
            out.push(f(a[0].clone(), a[1].clone()));
            Some(())
        };
        let pairs = |f: fn(String, String) -> Query, out: &mut Vec<Query>| {
            for x in &names {
                for y in &names {
                    out.push(f(x.clone(), y.clone()));
                }
            }
        };
        let each = |f: fn(String, String) -> Query, out: &mut Vec<Query>| {
            for x in &names {
                for n in &a {
                    out.push(f(x.clone(), n.clone()));
                }
            }
        };
        match tag {
            "derives" => two(Query::Derives, &mut out)?,
            "commonbase" => two(Query::CommonBase, &mut out)?,
            "prop" => two(Query::Prop, &mut out)?,
            "method" => two(Query::Method, &mut out)?,
            "variant" => two(Query::Variant, &mut out)?,
            "type" => two(Query::Type, &mut out)?,
            "cscoped" => two(Query::CScoped, &mut out)?,
            "rscoped" => two(Query::RScoped, &mut out)?,
            "gscoped" => {
                if a.len() != 1 {
                    return None;
                }
                out.push(Query::GScoped(a[0].clone()))
            }
            "gscoped*" => out.extend(a.iter().map(|n| Query::GScoped(n.clone()))),
            "cscoped*" => each(Query::CScoped, &mut out),
            "rscoped*" => each(Query::RScoped, &mut out),
            "supers" => {
                if a.len() != 1 {
                    return None;
                }
                out.push(Query::Supers(a[0].clone()))
            }
            "derives*" => pairs(Query::Derives, &mut out),
            "commonbase*" => pairs(Query::CommonBase, &mut out),
            "supers*" => out.extend(names.iter().map(|x| Query::Supers(x.clone()))),
            "prop*" => each(Query::Prop, &mut out),
            "method*" => each(Query::Method, &mut out),
            "variant*" => each(Query::Variant, &mut out),
            "type*" => each(Query::Type, &mut out),
            _ => return None,
        }
    }
    Some(out)
}

fn err_sexp(e: &TypeMapError) -> Sexp {
    match e {
        TypeMapError::InvalidTypeRef(n) => node("err", vec![atom("tr"), st(n.clone())]),
        TypeMapError::InvalidSuperClassType(n) => node("err", vec![atom("sc"), st(n.clone())]),
        TypeMapError::UnsupportedDecoration(n) => node("err", vec![atom("ud"), st(n.clone())]),
        other => node("err", vec![atom("other"), st(other.to_string())]),
    }
}

fn get_class<'a>(module: &Namespace<'a>, name: &str) -> Option<Class<'a>> {
    match module.get_type(name) {
        Some(Ok(NamedType::Class(c))) => Some(c),
        _ => None,
    }
}

fn kind_atom(k: MethodKind) -> Sexp {
    atom(match k {
        MethodKind::Signal => "signal",
        MethodKind::Slot => "slot",
        MethodKind::Method => "method",
    })
}

/// coarse answer for a member lookup: where was it found, and is that place legitimate
fn coarse<'a>(cls: &Class<'a>, owner: &Class<'a>, declared: bool) -> Sexp {
    let mut v = vec![atom(if owner == cls { "own" } else { "inh" })];
    if !(cls.is_derived_from(owner) && declared) {
        v.push(atom("unsound"));
    }
    list(v)
}

/// answer to a scoped-name query: what the name denotes
fn named_sexp(r: Option<Result<NamedType, TypeMapError>>, spec: bool) -> Sexp {
    match r {
        None => atom("-"),
        Some(Err(e)) => {
            if spec {
                atom("-")
            } else {
                err_sexp(&e)
            }
        }
        Some(Ok(_)) if spec => list(vec![atom("found")]),
        Some(Ok(NamedType::Class(c))) => node("ok", vec![atom("class"), st(c.name().to_owned())]),
        Some(Ok(NamedType::Enum(e))) => node("ok", vec![atom("enum"), st(e.qualified_cxx_name().into_owned())]),
        Some(Ok(NamedType::Primitive(p))) => node("ok", vec![atom("prim"), st(p.name())]),
        Some(Ok(other)) => node("ok", vec![atom("other"), st(format!("{other:?}"))]),
    }
}

fn run_query<'a>(tbl: &TableSpec, module: &Namespace<'a>, q: &Query, spec: bool) -> Sexp {
    let cname = match q {
        Query::GScoped(n) => return named_sexp(module.get_type_scoped(n), spec),
        Query::Derives(a, _) | Query::CommonBase(a, _) | Query::Supers(a) => a,
        Query::Prop(a, _) | Query::Method(a, _) | Query::Variant(a, _) | Query::Type(a, _) => a,
        Query::CScoped(a, _) | Query::RScoped(a, _) => a,
    };
    let Some(cls) = get_class(module, cname) else {
        return atom("noclass");
    };
    let none = || atom("-");
    // for the property an error is one way of not finding something
    let err = |e: &TypeMapError| if spec { atom("-") } else { err_sexp(e) };
    match q {
        Query::GScoped(_) => unreachable!("answered above"),
        Query::CScoped(_, n) => named_sexp(cls.get_type_scoped(n), spec),
        Query::RScoped(_, n) => named_sexp(cls.resolve_type_scoped(n), spec),
        Query::Derives(_, b) => {
            let Some(base) = get_class(module, b) else {
                return atom("noclass");
            };
            atom(if cls.is_derived_from(&base) { "T" } else { "F" })
        }
        Query::CommonBase(_, b) => {
            let Some(other) = get_class(module, b) else {
                return atom("noclass");
            };
            match cls.common_base_class(&other) {
                None => none(),
                Some(Ok(r)) => {
                    if spec {
                        let mut v = vec![atom("cb")];
                        if !(cls.is_derived_from(&r) && other.is_derived_from(&r)) {
                            v.push(atom("unsound"));
                        }
                        list(v)
                    } else {
                        node("ok", vec![st(r.name().to_owned())])
                    }
                }
                Some(Err(e)) => err(&e),
            }
        }
        Query::Supers(_) => {
            if spec {
                node(
                    "sup",
                    cls.public_super_classes().filter_map(|r| r.ok()).map(|c| st(c.name().to_owned())).collect(),
                )
            } else {
                node(
                    "items",
                    cls.public_super_classes()
                        .map(|r| match r {
                            Ok(c) => node("ok", vec![st(c.name().to_owned())]),
                            Err(e) => err_sexp(&e),
                        })
                        .collect(),
                )
            }
        }
        Query::Prop(_, n) => match cls.get_property(n) {
            None => none(),
            Some(Ok(p)) => {
                let o = p.object_class();
                if spec {
                    let declared = tbl.effective(o.name()).map(|d| d.props.iter().any(|x| &x.name == n)).unwrap_or(false) && p.name() == n;
                    coarse(&cls, o, declared)
                } else {
                    node("ok", vec![st(o.name().to_owned())])
                }
            }
            Some(Err(e)) => err(&e),
        },
        Query::Method(_, n) => match cls.get_public_method(n) {
            None => none(),
            Some(Ok(ms)) => {
                let o = ms.as_slice()[0].object_class().clone();
                if spec {
                    let declared = tbl
                        .effective(o.name())
                        .map(|d| d.signals.iter().chain(&d.slots).chain(&d.methods).any(|m| &m.name == n && m.access == "pub"))
                        .unwrap_or(false)
                        && ms.iter().all(|m| m.name() == n && m.object_class() == &o);
                    coarse(&cls, &o, declared)
                } else {
                    let mut v = vec![st(o.name().to_owned())];
                    v.extend(ms.iter().map(|m| list(vec![kind_atom(m.kind()), atom(m.arguments_len().to_string())])));
                    node("ok", v)
                }
            }
            Some(Err(e)) => err(&e),
        },
        Query::Variant(_, n) | Query::Type(_, n) => {
            let is_variant = matches!(q, Query::Variant(..));
            let r = if is_variant {
                cls.get_enum_by_variant(n)
            } else {
                cls.get_type(n).map(|r| {
                    r.map(|t| match t {
                        NamedType::Enum(e) => e,
                        other => panic!("nested type is not an enum: {other:?}"),
                    })
                })
            };
            match r {
                None => none(),
                Some(Ok(en)) => {
                    if spec {
                        let qn = en.qualified_cxx_name().into_owned();
                        let oname = qn.rsplit_once("::").map(|(o, _)| o.to_owned()).unwrap_or_default();
                        let Some(o) = get_class(module, &oname) else {
                            return list(vec![atom("inh"), atom("unsound")]);
                        };
                        let declared = tbl
                            .effective(&oname)
                            .map(|d| {
                                d.enums.iter().any(|e| {
                                    e.name == en.name() && (!is_variant || (!e.scoped && e.variants.contains(n)))
                                })
                            })
                            .unwrap_or(false)
                            && (if is_variant { en.contains_variant(n) && !en.is_scoped() } else { en.name() == n });
                        coarse(&cls, &o, declared)
                    } else {
                        node("ok", vec![st(en.qualified_cxx_name().into_owned())])
                    }
                }
                Some(Err(e)) => err(&e),
            }
        }
    }
}

// ---------------------------------------------------------------------------------------------- generator

struct Shape {
    n: usize,
    cycles: bool,
    dangling: bool,
    private: bool,
    nonclass: bool,
    dups: bool,
    dense: bool,
    /// member types from `type_pool` (resolvable and unresolvable) instead of `int`/`void`
    typed: bool,
}

/// Type names a generated member may carry in a table with `n` classes `C0..`: builtins, decorations, classes and pointers
/// to them, nested and module-level enums (visible or not — that depends on the class that declares the member), scoped names,
/// and names that resolve nowhere.  Roughly a third never resolves.
fn random_type(rng: &mut Rng, n: usize) -> String {
    let c = |rng: &mut Rng| format!("C{}", rng.below(n.max(1) + 1)); // one index past the last class: unknown
    match rng.below(30) {
        0..=5 => (*rng.pick(&["int", "QString", "bool", "double", "qreal", "QVariant", "uint", "void"])).to_owned(),
        6 => (*rng.pick(&["QStringList", "QList<int>", "QVector<QString>", "QList<QList<int>>"])).to_owned(),
        7..=8 => format!("{}*", c(rng)),
        9 => c(rng),
        10 => format!("QList<{}*>", c(rng)),
        11..=14 => (*rng.pick(&["E", "F", "G"])).to_owned(),
        15 => (*rng.pick(&["E0", "Flags"])).to_owned(),
        16..=18 => format!("{}::{}", c(rng), rng.pick(&["E", "F", "G", "V0", "Nope"])),
        19 => format!("QList<{}::E>", c(rng)),
        20..=22 => (*rng.pick(&["Nope", "Nope*", "QList<Nope>", "QVector<Nope*>", "Nope::E"])).to_owned(),
        23..=24 => (*rng.pick(&["QMap<int,int>", "QHash<QString,int>", "QSet<int>", "std::vector<int>"])).to_owned(),
        25 => (*rng.pick(&["E::V0", "int::x", "E0::OtherValue", "QString::E"])).to_owned(),
        26 => (*rng.pick(&["QList<int>*", "int*", "QString*", "E*"])).to_owned(),
        27 => (*rng.pick(&["V0", "p0", "m0", "OtherValue"])).to_owned(),
        _ => (*rng.pick(&["int", "int", "QString"])).to_owned(),
    }
}

fn gen_methods(rng: &mut Rng, max: usize, typed: Option<usize>) -> Vec<MethodSpec> {
    let n = rng.below(max + 1);
    (0..n)
        .map(|_| {
            let nargs = rng.below(3);
            MethodSpec {
                name: rng.pick(&["m0", "m1", "m2", "a", "zz9"]).to_string(),
                access: *rng.pick(&["pub", "pub", "pub", "pub", "prot", "priv"]),
                nargs,
                types: typed.map(|nc| {
                    // mostly plain signatures, so that whole overload sets resolve often enough
                    let ty = |rng: &mut Rng| if rng.chance(1, 2) { "int".to_owned() } else { random_type(rng, nc) };
                    let args = (0..nargs).map(|_| ty(rng)).collect();
                    (args, if rng.chance(2, 3) { "void".to_owned() } else { ty(rng) })
                }),
            }
        })
        .collect()
}

fn gen_table(rng: &mut Rng, sh: &Shape) -> TableSpec {
    let mut t = TableSpec::default();
    if sh.nonclass {
        t.others = vec!["E0".to_owned(), "int".to_owned()];
        if rng.chance(1, 2) {
            t.others.push("Flags".to_owned());
        }
    }
    let name_of = |i: usize| format!("C{i}");
    for i in 0..sh.n {
        let mut c = ClassSpec { name: name_of(i), ..Default::default() };
        if sh.dups && i > 0 && rng.chance(1, 6) {
            c.name = name_of(rng.below(i));
        }
        let max_supers = if sh.dense { 4 } else { 2 };
        let k = match rng.below(10) {
            0..=1 => 0,
            2..=6 => 1,
            _ => 1 + rng.below(max_supers),
        };
        for _ in 0..k {
            let roll = rng.below(24);
            let s = if sh.dangling && roll == 0 {
                format!("Nope{}", rng.below(2))
            } else if sh.nonclass && roll == 1 {
                t.others[rng.below(t.others.len())].clone()
            } else if sh.cycles {
                // any class, including itself and later ones
                name_of(rng.below(sh.n))
            } else if i == 0 {
                continue;
            } else {
                // earlier classes only: a DAG; prefer near neighbours so that chains and diamonds appear
                let lo = if rng.chance(1, 2) { i.saturating_sub(3) } else { 0 };
                name_of(lo + rng.below(i - lo))
            };
            let a = if sh.private && rng.chance(1, 5) { *rng.pick(&["prot", "priv"]) } else { "pub" };
            c.supers.push((s, a));
        }
        let np = rng.below(3);
        for _ in 0..np {
            let name = rng.pick(&["p0", "p1", "p2", "p3"]).to_string();
            let ty = sh.typed.then(|| random_type(rng, sh.n));
            c.props.push(PropSpec { name, ty });
        }
        if rng.chance(1, 2) {
            let typed = sh.typed.then_some(sh.n);
            c.signals = gen_methods(rng, 2, typed);
            c.slots = gen_methods(rng, 2, typed);
            c.methods = gen_methods(rng, 3, typed);
        }
        if rng.chance(1, 2) {
            let ne = 1 + rng.below(2);
            for _ in 0..ne {
                let nv = rng.below(4);
                c.enums.push(EnumSpec {
                    name: rng.pick(&["E", "F", "G"]).to_string(),
                    scoped: rng.chance(1, 4),
                    variants: (0..nv).map(|_| rng.pick(&["V0", "V1", "V2", "V3"]).to_string()).collect(),
                });
            }
        }
        t.classes.push(c);
    }
    t
}

// ---------------------------------------------------------------------------------------------- member scenarios

/// graphs on which the SAME member names are declared at several levels: (label, per class `Ci` its supers)
fn member_shapes(thorough: bool) -> Vec<(&'static str, Vec<Vec<(&'static str, &'static str)>>)> {
    let p = |n: &'static str| (n, "pub");
    let mut v = vec![
        ("chain1", vec![vec![]]),
        ("chain2", vec![vec![], vec![p("C0")]]),
        ("chain3", vec![vec![], vec![p("C0")], vec![p("C1")]]),
        ("chain4", vec![vec![], vec![p("C0")], vec![p("C1")], vec![p("C2")]]),
        ("diamond", vec![vec![], vec![p("C0")], vec![p("C0")], vec![p("C1"), p("C2")]]),
        ("two-bases", vec![vec![], vec![], vec![p("C0"), p("C1")]]),
        // a base that is also listed directly, after resp. before the class that derives from it
        ("skew-late", vec![vec![], vec![p("C0")], vec![p("C1"), p("C0")]]),
        ("skew-early", vec![vec![], vec![p("C0")], vec![p("C0"), p("C1")]]),
        // an unresolved / a non-class super listed first (F10: skipped, reported only if nothing is found)
        ("dangling", vec![vec![], vec![p("Nope"), p("C0")], vec![p("E0"), p("C1")]]),
        ("cycle", vec![vec![p("C1")], vec![p("C0")], vec![p("C1")]]),
        // every look-up — also of names nobody on the cycle declares — must end on a self-loop, a 3-cycle, and a cycle with an
        // unresolved super class on it
        ("self-loop", vec![vec![p("C0")], vec![p("C0")], vec![p("C1")]]),
        ("cycle3", vec![vec![p("C2")], vec![p("C0")], vec![p("C1")]]),
        ("cycle-dangling", vec![vec![p("C1"), p("Nope")], vec![p("C0")], vec![p("C1")]]),
        ("private-base", vec![vec![], vec![("C0", "priv")], vec![p("C1")]]),
    ];
    if thorough {
        v.push(("chain5", vec![vec![], vec![p("C0")], vec![p("C1")], vec![p("C2")], vec![p("C3")]]));
        v.push(("diamond-tail", vec![vec![], vec![p("C0")], vec![p("C0")], vec![p("C1"), p("C2")], vec![p("C3")]]));
    }
    v
}

fn rot(s: St) -> St {
    match s {
        St::R => St::U,
        St::U => St::A,
        St::A => St::R,
    }
}

/// enum names the class `i` sees as nested types: its own and those of its public ancestors (plain graph search)
fn visible_enums(classes: &[ClassSpec], i: usize) -> Vec<String> {
    let mut seen = vec![];
    let mut stack = vec![classes[i].name.clone()];
    let mut out = vec![];
    while let Some(n) = stack.pop() {
        if seen.contains(&n) {
            continue;
        }
        seen.push(n.clone());
        if let Some(c) = classes.iter().rev().find(|c| c.name == n) {
            out.extend(c.enums.iter().map(|e| e.name.clone()));
            stack.extend(c.supers.iter().filter(|(_, a)| *a == "pub").map(|(s, _)| s.clone()));
        }
    }
    out
}

/// a type name that resolves in the scope of class `i`
fn resolvable_type(rng: &mut Rng, classes: &[ClassSpec], i: usize) -> String {
    let n = classes.len();
    let vis = visible_enums(classes, i);
    loop {
        let t = match rng.below(12) {
            0..=3 => (*rng.pick(&["int", "QString", "bool", "double", "qreal", "QVariant", "uint", "void"])).to_owned(),
            4 => (*rng.pick(&["QStringList", "QList<int>", "QVector<QString>", "QList<QList<bool>>"])).to_owned(),
            5 => format!("C{}*", rng.below(n)),
            6 => format!("C{}", rng.below(n)),
            7 => format!("QList<C{}*>", rng.below(n)),
            8 => "E0".to_owned(),
            9..=10 if !vis.is_empty() => rng.pick(&vis).clone(),
            11 => {
                // `Cj::E` where Cj sees E
                let j = rng.below(n);
                let vj = visible_enums(classes, j);
                if vj.is_empty() {
                    continue;
                }
                format!("C{j}::{}", rng.pick(&vj))
            }
            _ => continue,
        };
        return t;
    }
}

/// a type name that does NOT resolve in the scope of class `i`
fn unresolvable_type(rng: &mut Rng, classes: &[ClassSpec], i: usize) -> String {
    let n = classes.len();
    let vis = visible_enums(classes, i);
    loop {
        let t = match rng.below(12) {
            0..=2 => (*rng.pick(&["Nope", "Nope*", "QList<Nope>", "QVector<Nope*>", "Nope::E"])).to_owned(),
            3 => (*rng.pick(&["QMap<int,int>", "QHash<QString,int>", "QSet<int>", "QList<QMap<int,int>>"])).to_owned(),
            4 => format!("C{}::Nope", rng.below(n)),
            5 => format!("C{}::V0", rng.below(n)), // an enumerator is not a type
            6 => format!("C{}*", n + rng.below(2)), // no such class
            7 => (*rng.pick(&["E0::OtherValue", "int::x", "QString::E", "QList<int>*"])).to_owned(),
            // an enum that exists in the table but is not visible from THIS class (declared by a derived or unrelated class)
            _ => {
                let hidden: Vec<&str> = ["E", "F", "G"].into_iter().filter(|e| !vis.iter().any(|v| v == e)).collect();
                if hidden.is_empty() {
                    continue;
                }
                let e = *rng.pick(&hidden);
                if rng.chance(1, 2) { e.to_owned() } else { format!("QList<{e}>") }
            }
        };
        return t;
    }
}

fn typed_methods(rng: &mut Rng, classes: &[ClassSpec], i: usize, name: &str, st: St, signals_only: bool) -> Vec<(usize, MethodSpec)> {
    // (section: 0 signals, 1 slots, 2 methods; method)
    let section = |rng: &mut Rng| if signals_only { 0 } else { rng.below(3) };
    match st {
        St::A => {
            // absent — or present but not public, which is the same to the type map
            if rng.chance(1, 3) {
                let acc = *rng.pick(&["prot", "priv"]);
                vec![(section(rng), MethodSpec { name: name.to_owned(), access: acc, nargs: 0, types: Some((vec![], "void".into())) })]
            } else {
                vec![]
            }
        }
        St::R | St::U => {
            let k = 1 + rng.below(3);
            let mut out: Vec<(usize, MethodSpec)> = (0..k)
                .map(|_| {
                    let nargs = rng.below(3);
                    let args = (0..nargs).map(|_| resolvable_type(rng, classes, i)).collect();
                    let ret = if rng.chance(1, 2) { "void".to_owned() } else { resolvable_type(rng, classes, i) };
                    (section(rng), MethodSpec { name: name.to_owned(), access: "pub", nargs, types: Some((args, ret)) })
                })
                .collect();
            if st == St::U {
                // one type of one overload does not resolve: the whole name fails
                let o = rng.below(k);
                let bad = unresolvable_type(rng, classes, i);
                let (args, ret) = out[o].1.types.as_mut().unwrap();
                if !args.is_empty() && rng.chance(2, 3) {
                    let a = rng.below(args.len());
                    args[a] = bad;
                } else {
                    *ret = bad;
                }
            }
            out
        }
    }
}

/// One table: the shape's graph; property `p0`, method `m0`, signal `a`, enum `E` (variant `V0`) each declared per class
/// according to a status vector (resolvable / unresolvable / absent; enums: unscoped / scoped / absent) derived from `sv`.
fn member_table(rng: &mut Rng, shape: &[Vec<(&'static str, &'static str)>], sv: &[St]) -> (TableSpec, Vec<String>) {
    let n = shape.len();
    let mut t = TableSpec { classes: vec![], others: vec!["E0".to_owned(), "int".to_owned()] };
    let prop_st = |i: usize| sv[i];
    let meth_st = |i: usize| rot(sv[(i + 1) % n]);
    let sig_st = |i: usize| rot(rot(sv[(i + 2) % n]));
    let enum_st = |i: usize| sv[(i + 1) % n];
    // graph and enums first: whether a type name resolves depends on which enums a class sees
    for (i, supers) in shape.iter().enumerate() {
        let mut c = ClassSpec { name: format!("C{i}"), supers: supers.iter().map(|(s, a)| ((*s).to_owned(), *a)).collect(), ..Default::default() };
        match enum_st(i) {
            St::R => c.enums.push(EnumSpec { name: "E".into(), scoped: false, variants: vec!["V0".into(), format!("V{}", 1 + i % 3)] }),
            St::U => c.enums.push(EnumSpec { name: "E".into(), scoped: true, variants: vec!["V0".into()] }),
            St::A => {}
        }
        if rng.chance(1, 3) {
            c.enums.push(EnumSpec { name: (*rng.pick(&["F", "G"])).into(), scoped: rng.chance(1, 4), variants: vec![(*rng.pick(&["V0", "V1", "V2"])).into()] });
        }
        t.classes.push(c);
    }
    let snapshot = t.classes.clone();
    for i in 0..n {
        match prop_st(i) {
            St::R => t.classes[i].props.push(PropSpec { name: "p0".into(), ty: Some(resolvable_type(rng, &snapshot, i)) }),
            St::U => {
                // sometimes an earlier, resolvable declaration of the same name in the same class: the later one counts
                if rng.chance(1, 5) {
                    t.classes[i].props.push(PropSpec { name: "p0".into(), ty: Some("int".into()) });
                }
                t.classes[i].props.push(PropSpec { name: "p0".into(), ty: Some(unresolvable_type(rng, &snapshot, i)) })
            }
            St::A => {}
        }
        if rng.chance(1, 2) {
            let ty = if rng.chance(1, 2) { resolvable_type(rng, &snapshot, i) } else { unresolvable_type(rng, &snapshot, i) };
            t.classes[i].props.push(PropSpec { name: (*rng.pick(&["p1", "p2"])).into(), ty: Some(ty) });
        }
        let mut ms = typed_methods(rng, &snapshot, i, "m0", meth_st(i), false);
        ms.extend(typed_methods(rng, &snapshot, i, "a", sig_st(i), true));
        if rng.chance(1, 3) {
            let st = *rng.pick(&[St::R, St::U]);
            ms.extend(typed_methods(rng, &snapshot, i, "m1", st, false));
        }
        for (sec, m) in ms {
            match sec {
                0 => t.classes[i].signals.push(m),
                1 => t.classes[i].slots.push(m),
                _ => t.classes[i].methods.push(m),
            }
        }
    }
    let mut labels = vec!["members".to_owned()];
    // the situations the property singles out
    let anc = |i: usize, j: usize| i != j && pipeline_derives(&t.classes, i, j);
    for (what, st) in [("prop", &prop_st as &dyn Fn(usize) -> St), ("method", &meth_st), ("signal", &sig_st)] {
        if (0..n).any(|i| st(i) == St::U && (0..n).any(|j| anc(i, j) && st(j) == St::R)) {
            labels.push(format!("{what}:own-unresolvable-over-resolvable-ancestor"));
        }
        if (0..n).any(|i| st(i) == St::A && (0..n).any(|j| anc(i, j) && st(j) == St::U)) {
            labels.push(format!("{what}:inherited-unresolvable"));
        }
        if (0..n).any(|i| st(i) == St::R && (0..n).any(|j| anc(i, j) && st(j) == St::U)) {
            labels.push(format!("{what}:own-resolvable-over-unresolvable-ancestor"));
        }
    }
    (t, labels)
}

/// class `i` derives (public, transitively) from class `j` — plain graph search for the labels
fn pipeline_derives(classes: &[ClassSpec], i: usize, j: usize) -> bool {
    let mut seen = vec![];
    let mut stack = vec![classes[i].name.clone()];
    while let Some(n) = stack.pop() {
        if seen.contains(&n) {
            continue;
        }
        seen.push(n.clone());
        if n == classes[j].name && !(seen.len() == 1) {
            return true;
        }
        if let Some(c) = classes.iter().rev().find(|c| c.name == n) {
            stack.extend(c.supers.iter().filter(|(_, a)| *a == "pub").map(|(s, _)| s.clone()));
        }
    }
    false
}

/// Scoped-name queries for a table: `A::B` for A among classes / a module enum / a builtin / an unknown name and B among the
/// members of A, of ancestors, of DESCENDANTS, sibling and top-level classes, A itself, module enums, builtins, nested enums
/// of other classes, enumerators, unknown names — one to three levels.  `gscoped*` on the module; `cscoped*` / `rscoped*` from
/// every class (tables of at most 12 classes).
fn scoped_queries(t: &TableSpec) -> Vec<Sexp> {
    let mut cs: Vec<String> = vec![];
    for c in &t.classes {
        if !cs.contains(&c.name) {
            cs.push(c.name.clone());
        }
    }
    // the first, the last and the classes in between that declare enums first
    let mut pick: Vec<String> = vec![];
    for c in cs.first().into_iter().chain(cs.last()).chain(cs.iter().filter(|n| t.effective(n).map(|c| !c.enums.is_empty()).unwrap_or(false))).chain(cs.iter()) {
        if !pick.contains(c) && pick.len() < 5 {
            pick.push(c.clone());
        }
    }
    let heads: Vec<String> = pick.iter().cloned().chain(["E0", "int", "Nope", "E"].map(String::from)).collect();
    let tails: Vec<String> = pick.iter().cloned().chain(["E", "F", "G", "V0", "V1", "E0", "int", "QString", "Nope"].map(String::from)).collect();
    let mut g: Vec<String> = heads.clone();
    for a in &heads {
        for b in &tails {
            g.push(format!("{a}::{b}"));
        }
    }
    for a in pick.iter().take(3) {
        for b in ["E".to_owned(), pick[0].clone(), a.clone()] {
            for c in ["E", "V0", "int", pick[0].as_str()] {
                g.push(format!("{a}::{b}::{c}"));
            }
        }
    }
    let mut out = vec![node("gscoped*", g.iter().map(|n| st(n.clone())).collect())];
    if t.classes.len() <= 12 {
        let mut per: Vec<String> = ["E", "F", "V0", "int", "Nope", "E0"].map(String::from).to_vec();
        per.push(pick[0].clone());
        for a in pick.iter().take(3).cloned().chain(["E", "int"].map(String::from)) {
            for b in ["E", "F", "V0", "int", "Nope", pick[0].as_str()] {
                per.push(format!("{a}::{b}"));
            }
        }
        per.push(format!("{}::E::V0", pick[0]));
        per.push(format!("{}::E::E", pick[0]));
        out.push(node("cscoped*", per.iter().map(|n| st(n.clone())).collect()));
        out.push(node("rscoped*", per.iter().map(|n| st(n.clone())).collect()));
    }
    out
}

fn member_queries() -> Vec<Sexp> {
    all_queries().into_iter().skip(3).collect()
}

/// the three cases of a table with member types: exact answers vs the model, member answers judged by the specification
/// (kind=pred), coarse answers vs the specification (skipped by the driver when the coarse answer is not determined)
fn push_typed_cases(cases: &mut Vec<Case>, t: &TableSpec, labels: Vec<String>) {
    let (cs, os) = t.to_sexp();
    let scoped = scoped_queries(t);
    let args = vec![cs.clone(), os.clone(), node("queries", [all_queries(), scoped.clone()].concat())];
    cases.push(Case { kind: "model", labels: labels.clone(), request: node("cg", args.clone()) });
    cases.push(Case { kind: "spec", labels: labels.clone(), request: node("spec-cg", args) });
    cases.push(Case { kind: "pred", labels, request: node("spec-cg", vec![cs, os, node("queries", [member_queries(), scoped].concat()), node("judge", vec![])]) });
}

fn all_queries() -> Vec<Sexp> {
    let names = |tag: &str, ns: &[&str]| node(tag, ns.iter().map(|n| st(*n)).collect());
    vec![
        node("derives*", vec![]),
        node("commonbase*", vec![]),
        node("supers*", vec![]),
        names("prop*", &["p0", "p1", "p2", "p3", "absent"]),
        names("method*", &["m0", "m1", "m2", "a", "zz9", "m", "zzz"]),
        names("variant*", &["V0", "V1", "V2", "V3", "absent"]),
        names("type*", &["E", "F", "G", "absent"]),
    ]
}

/// labels describing the graph (computed on the classes that names denote)
fn describe(t: &TableSpec) -> Vec<String> {
    let mut labels = vec![format!("classes{}", match t.classes.len() {
        0..=3 => "1-3",
        4..=8 => "4-8",
        9..=12 => "9-12",
        _ => "13+",
    })];
    let eff: Vec<&ClassSpec> = t.classes.iter().filter(|c| std::ptr::eq(t.effective(&c.name).unwrap(), *c)).collect();
    let idx = |n: &str| eff.iter().position(|c| c.name == n);
    let mut dangling = false;
    let mut nonclass = false;
    let mut private = false;
    let mut multi = false;
    let n = eff.len();
    let mut adj = vec![vec![]; n];
    for (i, c) in eff.iter().enumerate() {
        let mut k = 0;
        for (s, a) in &c.supers {
            if *a != "pub" {
                private = true;
                continue;
            }
            k += 1;
            match idx(s) {
                Some(j) => adj[i].push(j),
                None if t.others.contains(s) => nonclass = true,
                None => dangling = true,
            }
        }
        multi |= k > 1;
    }
    // reachability by plain iteration (labels only)
    let mut reach = vec![vec![false; n]; n];
    for i in 0..n {
        let mut stack = adj[i].clone();
        while let Some(j) = stack.pop() {
            if !reach[i][j] {
                reach[i][j] = true;
                stack.extend(adj[j].iter().copied());
            }
        }
    }
    let cyclic = (0..n).any(|i| reach[i][i]);
    let selfloop = (0..n).any(|i| adj[i].contains(&i));
    // a diamond: two distinct direct supers with a common ancestor-or-self
    let diamond = (0..n).any(|i| {
        adj[i].iter().any(|&a| {
            adj[i].iter().any(|&b| a != b && (0..n).any(|z| (reach[a][z] || a == z) && (reach[b][z] || b == z)))
        })
    });
    if dangling || nonclass {
        labels.push("dangling".into()); // some public super does not resolve to a class
    } else {
        labels.push("resolved".into());
    }
    for (f, l) in [
        (dangling, "unknown-super"),
        (nonclass, "non-class-super"),
        (private, "private-super"),
        (multi, "multiple-inheritance"),
        (cyclic, "cyclic"),
        (selfloop, "self-loop"),
        (diamond, "diamond"),
        (eff.len() != t.classes.len(), "duplicate-name"),
    ] {
        if f {
            labels.push(l.into());
        }
    }
    labels
}

impl Stream for C17 {
    fn generate(&self, seed: u64, thorough: bool) -> Vec<Case> {
        let mut rng = Rng::fork(seed, "c17", 0);
        let mut cases = vec![];
        let n_tables = if thorough { 30_000 } else { 2_000 };
        for k in 0..n_tables {
            let n = match rng.below(20) {
                0 => 1 + rng.below(2),
                1..=9 => 2 + rng.below(6),
                10..=17 => 6 + rng.below(7),
                18 => 13 + rng.below(8),
                _ => 20 + rng.below(21),
            };
            let sh = Shape {
                n,
                cycles: k % 3 == 1,
                dangling: k % 4 == 2 || (k % 4 == 3 && rng.chance(1, 3)),
                private: rng.chance(1, 3),
                nonclass: k % 8 == 6 || rng.chance(1, 8),
                dups: rng.chance(1, 10),
                dense: rng.chance(1, 3),
                typed: false,
            };
            let t = gen_table(&mut rng, &sh);
            let mut labels = describe(&t);
            let (cs, os) = t.to_sexp();
            // every fourth table also with the scoped-name queries
            let mut queries = all_queries();
            if k % 4 == 0 {
                queries.extend(scoped_queries(&t));
                labels.push("scoped-names".into());
            }
            let args = vec![cs, os, node("queries", queries)];
            cases.push(Case { kind: "model", labels: labels.clone(), request: node("cg", args.clone()) });
            cases.push(Case { kind: "spec", labels, request: node("spec-cg", args) });
        }
        // exhaustive small scope: every graph on k classes whose (public) super lists are the ordered selections
        // of at most two names out of the k class names and one unknown name — all cycles, self-loops, diamonds
        // and dangling references of that size, in every listing order.  quick: k = 2 (100), thorough: k = 3 (4913)
        let k = if thorough { 3 } else { 2 };
        let mut pool: Vec<String> = (0..k).map(|i| format!("C{i}")).collect();
        pool.push("Nope".to_owned());
        let mut options: Vec<Vec<String>> = vec![vec![]];
        for a in &pool {
            options.push(vec![a.clone()]);
            for b in &pool {
                if a != b {
                    options.push(vec![a.clone(), b.clone()]);
                }
            }
        }
        let total = options.len().pow(k as u32);
        for code in 0..total {
            let mut c = code;
            let mut t = TableSpec::default();
            for i in 0..k {
                let sup = &options[c % options.len()];
                c /= options.len();
                t.classes.push(ClassSpec {
                    name: format!("C{i}"),
                    supers: sup.iter().map(|n| (n.clone(), "pub")).collect(),
                    props: vec![PropSpec { name: format!("p{i}"), ty: None }],
                    slots: vec![MethodSpec { name: format!("m{i}"), access: "pub", nargs: i % 3, types: None }],
                    enums: vec![EnumSpec { name: "E".to_owned(), scoped: false, variants: vec![format!("V{i}")] }],
                    ..Default::default()
                });
            }
            let mut labels = describe(&t);
            labels.push("exhaustive-small".into());
            let (cs, os) = t.to_sexp();
            let args = vec![cs, os, node("queries", all_queries())];
            cases.push(Case { kind: "model", labels: labels.clone(), request: node("cg", args.clone()) });
            cases.push(Case { kind: "spec", labels, request: node("spec-cg", args) });
        }
        // the same member names declared at several levels, every combination of {resolvable, unresolvable, absent} per
        // class, on chains, diamonds, several bases, cycles, dangling and private supers (exhaustive per shape)
        let mut k = 0u64;
        for (label, shape) in member_shapes(thorough) {
            for sv in status_vectors(shape.len()) {
                for round in 0..if thorough { 4 } else { 1 } {
                    k += 1;
                    let mut r2 = Rng::fork(seed, "c17-members", k);
                    let (t, mut labels) = member_table(&mut r2, &shape, &sv);
                    labels.push(format!("shape:{label}"));
                    if round == 0 {
                        labels.push("members:exhaustive-statuses".into());
                    }
                    labels.extend(describe(&t).into_iter().skip(1));
                    push_typed_cases(&mut cases, &t, labels);
                }
            }
        }
        // random tables with member types
        for k in 0..if thorough { 6_000 } else { 400 } {
            let mut r2 = Rng::fork(seed, "c17-typed", k as u64);
            let sh = Shape {
                n: 1 + r2.below(9),
                cycles: k % 5 == 1,
                dangling: k % 4 == 2,
                private: r2.chance(1, 4),
                nonclass: true,
                dups: r2.chance(1, 12),
                dense: r2.chance(1, 3),
                typed: true,
            };
            let t = gen_table(&mut r2, &sh);
            let mut labels = describe(&t);
            labels.push("typed-random".into());
            push_typed_cases(&mut cases, &t, labels);
        }
        // the same through the whole pipeline: documents that bind / read / call / connect such members
        cases.extend(pipeline::generate(seed, thorough));
        cases
    }

    fn answer(&self, req: &Sexp) -> Sexp {
        let Some((tag, args)) = req.as_node() else {
            return node("bad-request", vec![]);
        };
        let isolated = std::env::var_os("QV_C17_INPROC").is_none();
        match tag {
            "c17-doc" => {
                if isolated && pipeline::is_cyclic_request(args) {
                    return answer_in_child(req);
                }
                let qt = self.qt.get_or_init(crate::env::load_qt_classes);
                return pipeline::answer_doc(qt, args);
            }
            "c17-cli" => return pipeline::answer_cli(args),
            "cg" | "spec-cg" | "f10-cg" if isolated => return answer_in_child(req),
            _ => {}
        }
        let spec = match tag {
            "cg" => false,
            // kind=pred: the EXACT answers, judged by the Lean specification
            "spec-cg" if args.len() == 4 && args[3].as_node().map(|(t, a)| t == "judge" && a.is_empty()).unwrap_or(false) => false,
            "spec-cg" | "f10-cg" => true,
            _ => return node("bad-request", vec![]),
        };
        if args.len() != 3 && !(tag == "spec-cg" && args.len() == 4 && !spec) {
            return node("bad-request", vec![]);
        }
        let Some(tbl) = TableSpec::parse(&args[0], &args[1]) else {
            return node("bad-request", vec![atom("table")]);
        };
        if let Some(why) = tbl.unsupported() {
            return node("unsupported", vec![atom(why)]);
        }
        let Some(queries) = args[2].as_node().filter(|(t, _)| *t == "queries").and_then(|(_, qs)| expand_queries(&tbl, qs))
        else {
            return node("bad-request", vec![atom("queries")]);
        };
        let type_map = tbl.build_type_map();
        let module = type_map.get_module(ModuleId::Named("m")).expect("module was inserted");
        node("ans", queries.iter().map(|q| run_query(&tbl, &module, q, spec)).collect())
    }
}
