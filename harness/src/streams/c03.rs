//! C03: constants are embedded in the `.ui` with exactly the value the source expression denotes.
//!
//! * `(c03-judge (prop "i") <expr>)`, kind=pred: the expression is bound to a property of the verification class
//!   VBase, translated by the REAL pipeline (generate mode), the real `.ui` is read back with the independent XML
//!   reader and the answer says what became of the binding:
//!     (const number "17") | (const number-float "0.5" <bits>)  [a <number> whose text is not an integer] | (const double "0.5" <bits of the text read as a double>) | (const bool true)
//!     | (const string notr|tr "…") | (const enum "VBase::ModeB") | (const set "A|B")
//!     | (const stringlist notr|tr "…"…) | (const other "<element>") | (dynamic) | (rejected "msg"…)
//!   The Lean side judges it against `Spec.ConstSem.eval` of the same expression.
//! * `(c03-strlit "raw text between the quotes")`, kind=pred: the literal is bound to `VBase.s`; the answer carries the
//!   segmentation of the real CST (fragments / escape sequences), what the real decoder made of it, and what became of
//!   the binding in the real `.ui`; Lean compares the decoder with `Model.Literal.parseString` (exact) and judges the
//!   embedded string against `Spec.Ecma.stringValue` (UTF-16 units).
//! * `(literal "0x1F")`, kind=model: what the real number parser (through `Expression::from_node`) makes of the
//!   literal, compared with `Model.Literal.parseNumberStr`; `(spec-mv "0x1F")`, kind=spec: with `Spec.Ecma.mv`.
use crate::ast::{self, Expr, Program, Stmt};
use crate::env::{self, Mode};
use crate::proggen::{Gen, Ty};
use crate::rng::Rng;
use crate::sexp::{atom, boolean, node, num, st, Sexp};
use crate::streams::ir;
use crate::xml;
use crate::{Case, Stream};
use qmluic::qmlast::{Expression, Statement, UiObjectDefinition, UiProgram};
use qmluic::qmldoc::UiDocument;
use qmluic::typemap::TypeMap;

pub struct C03 {
    tm: TypeMap,
}

impl C03 {
    pub fn new() -> Self {
        C03 { tm: env::load_verif_type_map() }
    }
}

fn bin(op: &'static str, l: Expr, r: Expr) -> Expr {
    Expr::Binary(op, Box::new(l), Box::new(r))
}
fn un(op: &'static str, a: Expr) -> Expr {
    Expr::Unary(op, Box::new(a))
}
fn int(v: u64) -> Expr {
    Expr::Int(v, v.to_string())
}

/// pure constant expressions of the four scalar types, biased to the edges of the 64-bit range
struct Pure<'r> {
    rng: &'r mut Rng,
}

impl<'r> Pure<'r> {
    fn int_leaf(&mut self) -> Expr {
        // the most negative value has no literal: it only arises as an expression; next to it -1, the other operand of the
        // two operations that overflow only there (MIN / -1, MIN % -1, MIN * -1, -MIN, MIN - 1)
        if self.rng.chance(1, 16) {
            return match self.rng.below(3) {
                0 => bin("sub", un("minus", int(9223372036854775807)), int(1)),
                1 => un("minus", int(1)),
                _ => bin("sub", un("minus", int(2147483647)), int(1)),
            };
        }
        let v: u64 = match self.rng.below(10) {
            0 => 0,
            1 => 1,
            2 => *self.rng.pick(&[2, 3, 7, 10, 62, 63, 64, 65]),
            3 => *self.rng.pick(&[2147483647, 2147483648, 4294967295, 4294967296]),
            4 => *self.rng.pick(&[9223372036854775807, 9223372036854775806, 4611686018427387904, 4611686018427387903, 3037000500, 3037000499]),
            5 => *self.rng.pick(&[9007199254740991, 9007199254740992, 9007199254740993, 1000000000000000001]),
            6 => *self.rng.pick(&[9223372036854775808, 18446744073709551615]),
            _ => self.rng.below(1000) as u64,
        };
        let sp = match self.rng.below(8) {
            0 => format!("0x{v:x}"),
            1 => format!("0b{v:b}"),
            2 => format!("0o{v:o}"),
            3 if v > 7 => format!("0{v:o}"),
            4 if v >= 1000 => {
                let d = v.to_string();
                let (h, t) = d.split_at(d.len() - 3);
                format!("{h}_{t}")
            }
            _ => v.to_string(),
        };
        let e = Expr::Int(v, sp);
        // negative values are written with unary minus
        if self.rng.chance(1, 3) {
            un("minus", e)
        } else {
            e
        }
    }
    fn int(&mut self, d: usize) -> Expr {
        if d == 0 || self.rng.chance(1, 4) {
            return self.int_leaf();
        }
        let d = d - 1;
        match self.rng.below(12) {
            0..=5 => {
                let op = *self.rng.pick(&["add", "sub", "mul", "div", "rem", "mul", "add"]);
                let (l, r) = (self.int(d), self.int(d));
                bin(op, l, r)
            }
            6 => {
                let op = *self.rng.pick(&["band", "bxor", "bor"]);
                let (l, r) = (self.int(d), self.int(d));
                bin(op, l, r)
            }
            7 | 8 => {
                // `>>>` is not an operator of the language: it must be refused, never folded as `>>`
                let op = *self.rng.pick(&["shl", "shr", "shl", "shr", "shl", "shr", "ushr"]);
                let l = self.int(d);
                let r = if self.rng.chance(3, 4) { int(self.rng.below(66) as u64) } else { self.int(d) };
                bin(op, l, r)
            }
            9 => {
                let a = self.int(d);
                un(*self.rng.pick(&["minus", "plus", "bitnot"]), a)
            }
            10 => {
                let (c, a, b) = (self.boolean(d), self.int(d), self.int(d));
                Expr::Ternary(Box::new(c), Box::new(a), Box::new(b))
            }
            11 => {
                // casts on constants (docs/language.md: numeric casts amongst int/uint/double, bool to integer)
                let v = match self.rng.below(3) {
                    0 => self.float(d.min(1)),
                    1 => self.boolean(d.min(1)),
                    _ => self.int(d),
                };
                Expr::As(Box::new(v), vec![self.rng.pick(&["int", "int", "uint"]).to_string()])
            }
            _ => self.int_leaf(),
        }
    }
    fn float_leaf(&mut self) -> Expr {
        let sp = *self.rng.pick(&[
            "0.5", "1.0", "2.5", "0.25", "1e3", "2.5e-1", "0.1", "0.2", "0.3", "100.0", "3.0", "0.0", "1e308", "4.9e-324",
            "1.7976931348623157e308", "9007199254740993.0", "1e21", "1e22", "123456789012345680000.0", "0.000001", "1e-7", "5e-324",
        ]);
        Expr::Float(sp.to_owned())
    }
    fn float(&mut self, d: usize) -> Expr {
        if d == 0 || self.rng.chance(1, 3) {
            return self.float_leaf();
        }
        let d = d - 1;
        match self.rng.below(6) {
            0..=3 => {
                let op = *self.rng.pick(&["add", "sub", "mul", "div", "rem"]);
                let (l, r) = (self.float(d), self.float(d));
                bin(op, l, r)
            }
            4 => {
                let a = self.float(d);
                un(*self.rng.pick(&["minus", "plus"]), a)
            }
            5 if self.rng.chance(1, 2) => {
                let a = self.int(d.min(1));
                Expr::As(Box::new(a), vec!["double".to_string()])
            }
            _ => self.float_leaf(),
        }
    }
    fn str_leaf(&mut self) -> Expr {
        let s = *self.rng.pick(&[
            "", "a", "b", "abc", "ab", "x y", "Z", "é", "\u{e000}", "\u{10000}", "\u{ffff}", "\u{1f600}", "q\"q", "back\\slash", "tab\there",
            "nl\nx", "<&>", "]]>", "  lead", "trail  ", "\u{d7ff}", "e\u{301}",
        ]);
        Expr::Str(s.to_owned())
    }
    fn string(&mut self, d: usize) -> Expr {
        if d == 0 || self.rng.chance(1, 3) {
            return self.str_leaf();
        }
        let (l, r) = (self.string(d - 1), self.string(d - 1));
        bin("add", l, r)
    }
    fn boolean(&mut self, d: usize) -> Expr {
        if d == 0 || self.rng.chance(1, 5) {
            return Expr::Bool(self.rng.chance(1, 2));
        }
        let d = d - 1;
        match self.rng.below(10) {
            0..=5 => {
                let op = *self.rng.pick(&["eq", "ne", "lt", "le", "gt", "ge", "seq", "sne"]);
                match self.rng.below(4) {
                    0 => {
                        let (l, r) = (self.int(d), self.int(d));
                        bin(op, l, r)
                    }
                    1 => {
                        let (l, r) = (self.float(d), self.float(d));
                        bin(op, l, r)
                    }
                    2 => {
                        let (l, r) = (self.string(d.min(1)), self.string(d.min(1)));
                        bin(op, l, r)
                    }
                    _ => {
                        let (l, r) = (self.boolean(d), self.boolean(d));
                        bin(op, l, r)
                    }
                }
            }
            6 => {
                let a = self.boolean(d);
                un("not", a)
            }
            7 => {
                let op = *self.rng.pick(&["band", "bxor", "bor"]);
                let (l, r) = (self.boolean(d), self.boolean(d));
                bin(op, l, r)
            }
            8 => {
                let op = *self.rng.pick(&["land", "lor"]);
                let (l, r) = (self.boolean(d), self.boolean(d));
                bin(op, l, r)
            }
            _ => Expr::Bool(self.rng.chance(1, 2)),
        }
    }
}

const LITERALS: &[&str] = &[
    "0", "1", "7", "08", "09", "089", "0777", "00", "007", "0_7", "1_000", "1__0", "1_", "0x1F", "0X1f", "0x1_F", "0x_1", "0xFFFFFFFFFFFFFFFF",
    "0x10000000000000000", "0b101", "0B1_0", "0b2", "0o17", "0O7_7", "0o8", "18446744073709551615", "18446744073709551616",
    "9223372036854775807", "9223372036854775808", "1.5", "1e3", "0.1", "1_0.5", "0x", "0b", "0o", "0e0", "0.0", "1E3", "0xe", "0xE1", "1e", "5e-324",
];

fn random_literal(rng: &mut Rng) -> String {
    let digits: &[u8] = match rng.below(4) {
        0 => b"01",
        1 => b"01234567",
        2 => b"0123456789",
        _ => b"0123456789abcdefABCDEF",
    };
    let prefix = match digits.len() {
        2 => *rng.pick(&["0b", "0B"]),
        8 => *rng.pick(&["0o", "0O", "0"]),
        10 => "",
        _ => *rng.pick(&["0x", "0X"]),
    };
    let maxn = if rng.chance(1, 6) { 24 } else { 9 };
    let n = 1 + rng.below(maxn);
    let mut s = String::from(prefix);
    for i in 0..n {
        if i > 0 && rng.chance(1, 8) {
            s.push('_');
        }
        s.push(*rng.pick(digits) as char);
    }
    if rng.chance(1, 30) {
        s.push('_');
    }
    if rng.chance(1, 30) {
        s.push(*rng.pick(&['8', '9', 'g', '2']));
    }
    s
}

/// raw text of a string literal (between the double quotes): fragments and escape sequences of every form,
/// valid and not
fn random_strlit(rng: &mut Rng) -> String {
    let mut s = String::new();
    let n = 1 + rng.below(5);
    // half of the literals use only the escape forms the decoder accepts, so that whole literals are embedded
    let valid_only = rng.chance(1, 2);
    for _ in 0..n {
        let pick = if valid_only { *rng.pick(&[0usize, 1, 4, 4, 5, 6, 13, 14, 15]) } else { rng.below(14) };
        match pick {
            14 => s.push_str(&format!("\\u{:04x}", *rng.pick(&[0x41u32, 0xe9, 0x20ac, 0xd7ff, 0xe000, 0xfffd]))),
            15 => s.push_str(&format!("\\u{{{:x}}}", *rng.pick(&[0x9u32, 0x41, 0xe9, 0x10000, 0x1f600, 0x10ffff]))),
            0 | 1 => s.push_str(*rng.pick(&["a", "bc", "x y", "Z9", "é", "\u{e000}", "\u{1f600}", "<&>", "'", "7", "f", "_"])),
            2 | 3 => {
                // single-character escapes: every printable ASCII character
                let c = (0x20u8 + rng.below(0x5f) as u8) as char;
                s.push('\\');
                s.push(c);
            }
            4 => s.push_str(*rng.pick(&["\\n", "\\t", "\\r", "\\\\", "\\\"", "\\'", "\\b", "\\f", "\\v", "\\0"])),
            5 => s.push_str(&format!("\\x{:02x}", 0x20 + rng.below(0xe0))),
            6 => s.push_str(&format!("\\x{:02X}", rng.below(0x20))),
            7 => s.push_str(&format!("\\u{:04x}", *rng.pick(&[0x41u32, 0xe9, 0x20ac, 0xd7ff, 0xd800, 0xdbff, 0xdc00, 0xdfff, 0xe000, 0xfffd, 0xfffe, 0xffff]))),
            8 => s.push_str(&format!("\\u{{{:x}}}", *rng.pick(&[0x0u32, 0x9, 0x41, 0xe9, 0xd800, 0xffff, 0x10000, 0x1f600, 0x10ffff, 0x110000, 0xffffffff]))),
            9 => s.push_str(*rng.pick(&["\\u{0041}", "\\u{000041}", "\\u{}", "\\u{g}", "\\u12", "\\x4", "\\xg1", "\\u{41", "\\ud83d\\ude00"])),
            10 => s.push_str(*rng.pick(&["\\1", "\\7", "\\8", "\\9", "\\00", "\\12", "\\012", "\\101", "\\377", "\\400", "\\08", "\\1a"])),
            11 => s.push_str(*rng.pick(&["\\\n", "\\\r\n", "\\\u{2028}", "\\\u{2029}"])), // line continuations
            12 => s.push_str(*rng.pick(&["\\é", "\\\u{1f600}", "\\/", "\\-", "\\%", "\\a", "\\e", "\\ "])),
            _ => s.push_str(&format!("{}", rng.below(100))),
        }
    }
    s
}

fn describe_property(p: &xml::Element) -> Sexp {
    let v = match p.elems().next() {
        Some(v) => v,
        None => return node("const", vec![atom("other"), st("<empty>")]),
    };
    let tr = |e: &xml::Element| if e.attr("notr") == Some("true") { atom("notr") } else { atom("tr") };
    match v.name.as_str() {
        "number" => {
            let t = v.text();
            if t.parse::<i64>().is_ok() {
                node("const", vec![atom("number"), st(t)])
            } else {
                // not an integer text: report what a decimal → binary64 conversion would make of it
                match t.parse::<f64>() {
                    Ok(f) => node("const", vec![atom("number-float"), st(t), num(f.to_bits())]),
                    Err(_) => node("const", vec![atom("number-unreadable"), st(t)]),
                }
            }
        }
        "double" => {
            let t = v.text();
            // the text is read as uic reads it: a correctly rounded decimal → binary64 conversion
            match t.parse::<f64>() {
                Ok(f) => node("const", vec![atom("double"), st(t), num(f.to_bits())]),
                Err(_) => node("const", vec![atom("double-unreadable"), st(t)]),
            }
        }
        "bool" => match v.text().as_str() {
            "true" => node("const", vec![atom("bool"), boolean(true)]),
            "false" => node("const", vec![atom("bool"), boolean(false)]),
            t => node("const", vec![atom("other"), st(format!("bool:{t}"))]),
        },
        "string" => node("const", vec![atom("string"), tr(v), st(v.text())]),
        "cstring" => node("const", vec![atom("cstring"), st(v.text())]),
        "enum" => node("const", vec![atom("enum"), st(v.text())]),
        "set" => node("const", vec![atom("set"), st(v.text())]),
        "stringlist" => {
            let mut a = vec![atom("stringlist"), tr(v)];
            a.extend(v.children_named("string").map(|s| st(s.text())));
            node("const", a)
        }
        n => node("const", vec![atom("other"), st(n)]),
    }
}

impl C03 {
    fn judge_answer(&self, prop: &str, program: &Program) -> Sexp {
        let src = ir::document(prop, program);
        let t = env::translate(&self.tm, &src, "MyType", Mode::Generate);
        if t.syntax_errors > 0 {
            return node("syntax-error", vec![st(src)]);
        }
        let errors: Vec<Sexp> = t.diags.iter().filter(|d| d.is_error).map(|d| st(d.message.clone())).collect();
        if !errors.is_empty() || t.ui.is_none() {
            return node("rejected", errors);
        }
        let ui = t.ui.unwrap();
        let root = match xml::parse(&ui) {
            Ok(r) => r,
            Err(e) => return node("unreadable-ui", vec![st(e)]),
        };
        let all = root.descendants();
        let a = match all.iter().find(|e| e.name == "widget" && e.attr("name") == Some("a")) {
            Some(a) => *a,
            None => return node("no-object", vec![]),
        };
        let r = match a.children_named("property").find(|p| p.attr("name") == Some(prop)) {
            Some(p) => describe_property(p),
            None => node("dynamic", vec![]),
        };
        r
    }

    /// `(c03-strlit "raw")` → `(strlit (segs (frag "…") (esc "…")…) <what the real parser made of it> <what became of the binding>)`
    fn strlit_answer(&self, raw: &str) -> Sexp {
        let mut src = String::from("import qmluic.QtWidgets\nQWidget {\n    windowTitle: \"anchor\"\n");
        src.push_str(&format!("    VBase {{\n        id: a\n        s: \"{raw}\"\n    }}\n}}\n"));
        let doc = UiDocument::parse(src.clone(), "MyType", None);
        if doc.has_syntax_error() {
            return node("syntax-error", vec![st(raw)]);
        }
        // the string node of the binding `s` and its segmentation as the CST presents it
        let mut stack = vec![doc.root_node()];
        let mut found = None;
        while let Some(n) = stack.pop() {
            if n.kind() == "string" && n.byte_range().len() == raw.len() + 2 && &doc.source()[n.byte_range()][1..raw.len() + 1] == raw {
                found = Some(n);
                break;
            }
            let mut c = n.walk();
            for k in n.children(&mut c) {
                stack.push(k);
            }
        }
        let sn = match found {
            Some(n) => n,
            None => return node("syntax-error", vec![st("string node not found")]),
        };
        let mut segs = vec![atom("segs")];
        let mut concat = String::new();
        let mut cur = sn.walk();
        for k in sn.named_children(&mut cur) {
            let t = &doc.source()[k.byte_range()];
            concat.push_str(t);
            match k.kind() {
                "string_fragment" => segs.push(node("frag", vec![st(t)])),
                "escape_sequence" => segs.push(node("esc", vec![st(t)])),
                other => return node("syntax-error", vec![st(format!("unexpected child {other}"))]),
            }
        }
        if concat != raw {
            return node("syntax-error", vec![st("segments do not cover the literal")]);
        }
        // what the real literal decoder (`parse_string`, through `Expression::from_node`) makes of it
        let parsed = (|| -> Result<Sexp, String> {
            let program = UiProgram::from_node(doc.root_node(), doc.source()).map_err(|e| e.to_string())?;
            let root = UiObjectDefinition::from_node(program.root_object_node(), doc.source()).map_err(|e| e.to_string())?;
            let child = *root.child_object_nodes().first().ok_or("no child object")?;
            let obj = UiObjectDefinition::from_node(child, doc.source()).map_err(|e| e.to_string())?;
            let map = obj.build_binding_map(doc.source()).map_err(|e| e.to_string())?;
            let v = map.get("s").ok_or("no binding")?;
            let stn = v.get_node().ok_or("not a scalar binding")?;
            let en = match stn.parse().map_err(|e| e.to_string())? {
                Statement::Expression(n) => n,
                _ => return Err("not an expression statement".into()),
            };
            Ok(match en.parse(doc.source()) {
                Ok(Expression::String(v)) => node("value", vec![st(v)]),
                Ok(_) => node("unavailable", vec![]),
                Err(_) => node("none", vec![]),
            })
        })()
        .unwrap_or_else(|e| node("unavailable", vec![st(e)]));
        let t = env::translate(&self.tm, &src, "MyType", Mode::Generate);
        let errors: Vec<Sexp> = t.diags.iter().filter(|d| d.is_error).map(|d| st(d.message.clone())).collect();
        let outcome = if !errors.is_empty() || t.ui.is_none() {
            node("rejected", errors)
        } else {
            let ui = t.ui.unwrap();
            match xml::parse(&ui) {
                Ok(root) => {
                    let all = root.descendants();
                    match all.iter().find(|e| e.name == "widget" && e.attr("name") == Some("a")) {
                        Some(a) => match a.children_named("property").find(|p| p.attr("name") == Some("s")) {
                            Some(p) => describe_property(p),
                            None => node("dynamic", vec![]),
                        },
                        None => node("no-object", vec![]),
                    }
                }
                Err(e) => node("unreadable-ui", vec![st(e)]),
            }
        };
        node("strlit", vec![Sexp::List(segs), parsed, outcome])
    }

    fn literal_answer(&self, text: &str) -> Sexp {
        let src = format!("import qmluic.QtWidgets\nQWidget {{\n    p: {text}\n}}\n");
        let doc = UiDocument::parse(src.clone(), "MyType", None);
        if doc.has_syntax_error() {
            return node("syntax-error", vec![st(text)]);
        }
        let parsed = (|| -> Result<Sexp, String> {
            let program = UiProgram::from_node(doc.root_node(), doc.source()).map_err(|e| e.to_string())?;
            let obj = UiObjectDefinition::from_node(program.root_object_node(), doc.source()).map_err(|e| e.to_string())?;
            let map = obj.build_binding_map(doc.source()).map_err(|e| e.to_string())?;
            let v = map.get("p").ok_or("no binding")?;
            let sn = v.get_node().ok_or("not a scalar binding")?;
            let en = match sn.parse().map_err(|e| e.to_string())? {
                Statement::Expression(n) => n,
                _ => return Ok(node("syntax-error", vec![st("not an expression statement")])),
            };
            // the text must be lexed as one number token for the comparison to be about the number parser
            if en.byte_range().len() != text.len() {
                return Ok(node("syntax-error", vec![st("not a single token")]));
            }
            Ok(match en.parse(doc.source()) {
                Ok(Expression::Integer(v)) => node("integer", vec![num(v)]),
                Ok(Expression::Float(_)) => node("float", vec![]),
                Ok(_) => node("syntax-error", vec![st("not a number literal")]),
                Err(_) => node("none", vec![]),
            })
        })();
        match parsed {
            Ok(a) => a,
            Err(e) => node("syntax-error", vec![st(e)]),
        }
    }
}

impl Stream for C03 {
    fn generate(&self, seed: u64, thorough: bool) -> Vec<Case> {
        let mut cases = vec![];
        // literals
        for (k, l) in LITERALS.iter().enumerate() {
            let labels = vec!["literal".to_string(), format!("fixed{}", k % 4)];
            cases.push(Case { kind: "model", labels: labels.clone(), request: node("literal", vec![st(*l)]) });
            cases.push(Case { kind: "spec", labels, request: node("spec-mv", vec![st(*l)]) });
        }
        let nl = if thorough { 20_000 } else { 1_500 };
        for k in 0..nl {
            let mut rng = Rng::fork(seed, "c03-lit", k as u64);
            let l = random_literal(&mut rng);
            let labels = vec!["literal".to_string(), if l.contains('_') { "sep".into() } else { "nosep".into() }];
            cases.push(Case { kind: "model", labels: labels.clone(), request: node("literal", vec![st(l.clone())]) });
            cases.push(Case { kind: "spec", labels, request: node("spec-mv", vec![st(l)]) });
        }
        // string literal spellings
        let ns = if thorough { 40_000 } else { 3_000 };
        for k in 0..ns {
            let mut rng = Rng::fork(seed, "c03-str", k as u64);
            let raw = random_strlit(&mut rng);
            let mut labels = vec!["strlit".to_string()];
            for (needle, l) in [("\\x", "hex"), ("\\u{", "ubrace"), ("\\u", "u4"), ("\\\n", "continuation"), ("\\0", "nul-or-octal")] {
                if raw.contains(needle) {
                    labels.push(l.to_string());
                }
            }
            cases.push(Case { kind: "pred", labels, request: node("c03-strlit", vec![st(raw)]) });
        }
        // pure constant expressions
        let n = if thorough { 60_000 } else { 4_000 };
        for k in 0..n {
            let mut rng = Rng::fork(seed, "c03", k as u64);
            let depth = 1 + rng.below(if thorough { 5 } else { 4 });
            let which = rng.below(10);
            let (ty, e) = {
                let mut p = Pure { rng: &mut rng };
                match which {
                    0..=4 => ("int", p.int(depth)),
                    5 | 6 => ("double", p.float(depth)),
                    7 => ("string", p.string(depth.min(3))),
                    _ => ("bool", p.boolean(depth)),
                }
            };
            let prop = match ty {
                "int" => *rng.pick(&["i", "i", "u"]),
                "double" => "d",
                "string" => "s",
                _ => "b",
            };
            let labels = vec!["pure".to_string(), ty.to_string(), format!("depth{depth}")];
            let program = Program::Stmt(Stmt::Expr(e));
            cases.push(Case { kind: "pred", labels, request: node("c03-judge", vec![node("prop", vec![st(prop)]), program.sexp()]) });
        }
        // the general generator in constant-only mode (enumerators, flags, lists, qsTr, casts, calls)
        let n = if thorough { 30_000 } else { 2_000 };
        for k in 0..n {
            let mut rng = Rng::fork(seed, "c03-gen", k as u64);
            let depth = 1 + rng.below(3);
            let ty = *rng.pick(&[Ty::Int, Ty::Uint, Ty::Double, Ty::Bool, Ty::Str, Ty::Mode, Ty::Other, Ty::Flags, Ty::StrList]);
            let mut g = Gen::new(&mut rng, 0);
            g.constant_only = true;
            let e = g.expr(ty, depth);
            let labels = vec!["gen".to_string(), format!("{ty:?}"), format!("depth{depth}")];
            let program = Program::Stmt(Stmt::Expr(e));
            cases.push(Case {
                kind: "pred",
                labels,
                request: node("c03-judge", vec![node("prop", vec![st(ir::prop_of(ty))]), program.sexp()]),
            });
        }
        cases
    }

    fn answer(&self, req: &Sexp) -> Sexp {
        let (tag, args) = req.as_node().expect("request node");
        match tag {
            "literal" | "spec-mv" => self.literal_answer(args[0].as_str().unwrap()),
            "c03-strlit" => self.strlit_answer(args[0].as_str().unwrap()),
            "c03-judge" => {
                let (_, p) = args[0].as_node().unwrap();
                let program = ast::program_of(&args[1]);
                self.judge_answer(p[0].as_str().unwrap(), &program)
            }
            _ => node("bad-request", vec![]),
        }
    }
}
