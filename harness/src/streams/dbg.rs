//! Debug helper: (translate generate|reject|omit "qml") → (result accepted? ("msg"...)); (show mode "qml") prints outputs.
use crate::env::{self, Mode};
use crate::sexp::{boolean, list, node, st, Sexp};
use crate::{Case, Stream};
use qmluic::typemap::TypeMap;

pub struct Dbg {
    tm: TypeMap,
}
impl Dbg {
    pub fn new() -> Self {
        Dbg { tm: env::load_full_type_map() }
    }
}
impl Stream for Dbg {
    fn generate(&self, _seed: u64, _thorough: bool) -> Vec<Case> {
        vec![]
    }
    fn answer(&self, req: &Sexp) -> Sexp {
        let (tag, args) = req.as_node().unwrap();
        let mode = match args[0].as_atom().unwrap() {
            "generate" => Mode::Generate,
            "reject" => Mode::Reject,
            _ => Mode::Omit,
        };
        let src = args[1].as_str().unwrap();
        let t = env::translate(&self.tm, src, "MyType", mode);
        let msgs: Vec<Sexp> = t.diags.iter().map(|d| st(format!("{}..{} {}", d.start, d.end, d.message))).collect();
        if tag == "show" {
            node("result", vec![boolean(t.accepted()), list(msgs), st(t.ui.unwrap_or_default()), st(t.header.unwrap_or_default())])
        } else {
            node("result", vec![boolean(t.accepted()), list(msgs)])
        }
    }
}
