//! C13 — signal callbacks are wired to the right signal and do what the source says.  Requests:
//!   (spec-c13 (enums …) (states S…) (sigargs A…) (handler (sig "fired2") P)…)   [pred]  every handler is bound as
//!        `on<Signal>: P` on object `a` of the fixed document and translated by the REAL pipeline; the real header is
//!        compiled against the runtime mock (cxx/rt) and RUN: objects built, `setup()` called (this makes the real
//!        `QObject::connect`), then for every state the properties are stored, the signal is EMITTED with the arguments
//!        A[k] and the recorded trace (setter calls with values, method calls with arguments, log calls) is printed.
//!        The Lean driver evaluates Spec.Sem (effect trace) on the same handler, state and arguments and judges.
//!   (c13-body (name "onFired2") P)                                                [model] accepted: the exact text of the
//!        real `setup…()` and `on…()` functions; rejected: the error messages — vs Model.Callback / Model.CxxBody.
use crate::ast::{self, Expr, FnBody, Program, Stmt};
use crate::env::{self, Mode};
use crate::proggen::{Gen, Ty};
use crate::rng::Rng;
use crate::sexp::{atom, list, node, st, Sexp};
use crate::streams::c01::{self, Runtime};
use crate::streams::ir;
use crate::{Case, Stream};
use qmluic::typemap::TypeMap;
use std::fmt::Write as _;
use std::path::Path;

pub struct C13 {
    tm: TypeMap,
    /// the type map with the overload classes of harness/metatypes/verif_overloads.json (VOverBase, VOver) in addition
    tm_over: TypeMap,
    rt: Runtime,
}

// ------------------------------------------------------------------------------------------------ overload sets
//
// `on<Signal>` on a name with several overloads.  SPECIFICATION (what the documentation promises — "default arguments
// are supported, genuinely overloaded signals cannot be bound" — made exact): the overload set is the set of methods of
// that name declared in the most derived class that declares the name (C++ name hiding: `&Class::name`); ordered by
// increasing argument count, every overload must be its predecessor plus TRAILING arguments, of the same kind and return
// type (a default-argument family): then the handler is bound to the overload with the most arguments, provided it is a
// signal; every other set is ambiguous and must be refused with "cannot bind to overloaded signal".

const OVERLOADS_JSON: &str = include_str!("../../metatypes/verif_overloads.json");

#[derive(Clone, Debug, PartialEq)]
pub struct Meth {
    kind: &'static str,
    ret: String,
    args: Vec<String>,
}

/// (class, base class, [(method name, Meth)]) of the overload file, read from the JSON text itself
fn overload_classes() -> Vec<(String, Option<String>, Vec<(String, Meth)>)> {
    let data: serde_json::Value = serde_json::from_str(OVERLOADS_JSON).unwrap();
    let mut out = vec![];
    for c in data[0]["classes"].as_array().unwrap() {
        let mut ms = vec![];
        for (key, kind) in [("signals", "signal"), ("slots", "slot"), ("methods", "method")] {
            for m in c[key].as_array().map(|v| v.as_slice()).unwrap_or(&[]) {
                let args = m["arguments"].as_array().map(|a| a.iter().map(|x| x["type"].as_str().unwrap().to_owned()).collect()).unwrap_or_default();
                ms.push((m["name"].as_str().unwrap().to_owned(), Meth { kind, ret: m["returnType"].as_str().unwrap().to_owned(), args }));
            }
        }
        let base = c["superClasses"][0]["name"].as_str().map(|s| s.to_owned());
        out.push((c["className"].as_str().unwrap().to_owned(), base, ms));
    }
    out
}

/// the overload set of `name` seen from `cls`: the most derived class declaring the name decides
fn overload_set(cls: &str, name: &str) -> Vec<Meth> {
    let classes = overload_classes();
    let mut cur = Some(cls.to_owned());
    while let Some(c) = cur {
        match classes.iter().find(|(n, _, _)| *n == c) {
            Some((_, base, ms)) => {
                let found: Vec<Meth> = ms.iter().filter(|(n, _)| n == name).map(|(_, m)| m.clone()).collect();
                if !found.is_empty() {
                    return found;
                }
                cur = base.clone();
            }
            None => return vec![],
        }
    }
    vec![]
}

/// the specification: `Ok(method)` = the default-argument family's longest member, `Err(())` = ambiguous
fn spec_resolve(ms: &[Meth]) -> Result<Meth, ()> {
    let mut sorted: Vec<&Meth> = ms.iter().collect();
    sorted.sort_by_key(|m| m.args.len());
    for w in sorted.windows(2) {
        let (a, b) = (w[0], w[1]);
        if !(a.kind == b.kind && a.ret == b.ret && b.args.len() >= a.args.len() && b.args[..a.args.len()] == a.args[..]) {
            return Err(());
        }
    }
    Ok((*sorted.last().unwrap()).clone())
}

fn expectation(ms: &[Meth]) -> Sexp {
    if ms.is_empty() {
        return node("expect", vec![atom("unknown")]);
    }
    match spec_resolve(ms) {
        Err(()) => node("expect", vec![atom("ambiguous")]),
        Ok(m) if m.kind == "signal" => node("expect", std::iter::once(atom("accepted")).chain(m.args.iter().map(|a| st(a.clone()))).collect()),
        Ok(_) => node("expect", vec![atom("not-signal")]),
    }
}

/// C++ spelling of an argument type inside `QOverload<…>` → metatype name
fn arg_name(cxx: &str) -> String {
    let t = cxx.trim();
    t.strip_prefix("const ").and_then(|x| x.strip_suffix('&')).map(|x| x.trim().to_owned()).unwrap_or_else(|| t.to_owned())
}

pub const SIGNALS: &[(&str, &[Ty], &[&str])] = &[
    ("fired", &[], &[]),
    ("fired2", &[Ty::Int, Ty::Str], &["int", "str"]),
    ("defaulted", &[Ty::Bool], &["bool"]),
    ("moved", &[Ty::PBase], &["pbase"]),
];

fn cap(s: &str) -> String {
    let mut c = s.chars();
    match c.next() {
        Some(f) => f.to_ascii_uppercase().to_string() + c.as_str(),
        None => String::new(),
    }
}

fn gen_value(rng: &mut Rng, kind: &str) -> Sexp {
    match kind {
        "int" => node("int", vec![crate::sexp::num(*rng.pick(&[0i64, 1, -1, 2, 7, -7, 40, 2147483647, -2147483648, 65536]))]),
        "str" => node("str", vec![st(*rng.pick(c01::STRINGS))]),
        "bool" => node("bool", vec![crate::sexp::boolean(rng.chance(1, 2))]),
        "pbase" => node("ptr", vec![match rng.below(4) { 0 => atom("null"), 1 => st("a"), 2 => st("b"), _ => st("dv") }]),
        _ => panic!("kind {kind}"),
    }
}

/// arguments for every signal, for one state
fn gen_sigargs(rng: &mut Rng) -> Sexp {
    node(
        "e",
        SIGNALS.iter().map(|(s, _, kinds)| list(std::iter::once(st(*s)).chain(kinds.iter().map(|k| gen_value(rng, k))).collect())).collect(),
    )
}

fn id(n: &str) -> Expr {
    Expr::Ident(n.to_owned())
}
fn mem(o: Expr, p: &str) -> Expr {
    Expr::Member(Box::new(o), p.to_owned())
}
fn call(f: Expr, args: Vec<Expr>) -> Expr {
    Expr::Call(Box::new(f), args)
}
fn int(v: u64) -> Expr {
    Expr::Int(v, v.to_string())
}
fn assign(l: Expr, r: Expr) -> Stmt {
    Stmt::Expr(Expr::Assign(Box::new(l), Box::new(r)))
}
fn log(args: Vec<Expr>) -> Stmt {
    Stmt::Expr(call(mem(id("console"), "log"), args))
}
fn func(params: &[(&str, &[&str])], body: Vec<Stmt>) -> Program {
    Program::Function {
        named: false,
        params: params.iter().map(|(n, t)| (n.to_string(), Some(t.iter().map(|x| x.to_string()).collect()))).collect(),
        body: FnBody::Stmt(Stmt::Block(body)),
        arrow: false,
    }
}

/// targeted handlers: (signal, program, label)
pub fn targeted(rng: &mut Rng) -> (&'static str, Program, &'static str) {
    match rng.below(10) {
        9 => {
            // a folded comparison of string constants (UTF-16 code unit order) and a run-time one decide the effects
            let pool = crate::streams::c01::ORDER_STRINGS;
            let ops = ["lt", "le", "gt", "ge", "eq", "ne"];
            let cmp = |rng: &mut Rng, l: Expr, r: Expr| Expr::Binary(*rng.pick(&ops), Box::new(l), Box::new(r));
            let c = { let (l, r) = (Expr::Str(rng.pick(pool).to_string()), Expr::Str(rng.pick(pool).to_string())); cmp(rng, l, r) };
            let rt = { let r = Expr::Str(rng.pick(pool).to_string()); cmp(rng, id("s"), r) };
            (
                "fired2",
                func(
                    &[("n", &["int"]), ("s", &["QString"])],
                    vec![
                        Stmt::If(c, Box::new(Stmt::Block(vec![assign(mem(id("a"), "s"), Expr::Str("then".into()))])), Some(Box::new(Stmt::Block(vec![assign(mem(id("a"), "s"), Expr::Str("else".into()))])))),
                        log(vec![rt, id("n")]),
                    ],
                ),
                "const-string-compare",
            )
        }
        0 => {
            // fewer parameters than the signal carries; the parameter is the FIRST argument
            ("fired2", func(&[("n", &["int"])], vec![assign(mem(id("b"), "i"), id("n")), log(vec![id("n")])]), "fewer-params")
        }
        1 => {
            // all parameters, used in effects in source order
            (
                "fired2",
                func(
                    &[("n", &["int"]), ("s", &["QString"])],
                    vec![log(vec![id("s"), id("n")]), assign(mem(id("a"), "s"), id("s")), Stmt::Expr(call(mem(id("b"), "setBoth"), vec![id("n"), id("s")])), assign(mem(id("b"), "j"), id("n"))],
                ),
                "all-params",
            )
        }
        2 => {
            // defaulted signal: the overload with the argument is connected
            match rng.below(2) {
                0 => ("defaulted", func(&[("on", &["bool"])], vec![assign(mem(id("a"), "b"), id("on")), log(vec![id("on")])]), "defaulted-with-param"),
                _ => ("defaulted", Program::Stmt(Stmt::Expr(call(mem(id("a"), "reset"), vec![]))), "defaulted-no-param"),
            }
        }
        3 => {
            // branches with different effect orders
            let c = mem(id("a"), "b");
            let x = vec![assign(mem(id("a"), "i"), int(1)), log(vec![Expr::Str("then".into())]), assign(mem(id("b"), "i"), int(2))];
            let y = vec![log(vec![Expr::Str("else".into())]), assign(mem(id("b"), "i"), int(3)), assign(mem(id("a"), "i"), int(4))];
            ("fired", Program::Stmt(Stmt::Block(vec![Stmt::If(c, Box::new(Stmt::Block(x)), Some(Box::new(Stmt::Block(y)))), log(vec![mem(id("a"), "i"), mem(id("b"), "i")])])), "branch-orders")
        }
        4 => {
            // return in handlers: effects after a taken return must not happen
            let body = vec![
                log(vec![Expr::Str("enter".into())]),
                Stmt::If(mem(id("a"), "c"), Box::new(Stmt::Block(vec![assign(mem(id("a"), "j"), int(5)), Stmt::Return(None)])), None),
                assign(mem(id("a"), "j"), int(6)),
                Stmt::If(mem(id("b"), "c"), Box::new(Stmt::Return(None)), None),
                log(vec![Expr::Str("end".into())]),
            ];
            ("fired", func(&[], body), "return-in-handler")
        }
        5 => {
            // a write is visible to a later read; pointer argument
            (
                "moved",
                func(
                    &[("p", &["VBase"])],
                    vec![
                        assign(mem(id("a"), "next"), id("p")),
                        Stmt::If(Expr::Binary("ne", Box::new(mem(id("a"), "next")), Box::new(Expr::Null)), Box::new(Stmt::Block(vec![assign(mem(mem(id("a"), "next"), "i"), int(9)), log(vec![mem(id("p"), "i")])])), None),
                    ],
                ),
                "write-then-read",
            )
        }
        6 if rng.chance(1, 2) => {
            // a clause of a switch is a scope of its own (repair 0aff63c): the later clause and the code after the switch
            // use the OUTER variable, assignments to it made in a clause persist
            let let_ = |n: &str, v: Expr| Stmt::Lexical(false, vec![crate::ast::Decl { name: n.to_owned(), ty: None, value: Some(v) }]);
            let sw = Stmt::Switch(
                id("n"),
                vec![
                    (Some(int(0)), vec![let_("v", int(2)), assign(mem(id("a"), "i"), id("v"))]),
                    (Some(int(1)), vec![assign(mem(id("b"), "i"), id("v")), Stmt::Expr(Expr::Assign(Box::new(id("v")), Box::new(int(40)))), Stmt::Break(false)]),
                    (None, vec![let_("w", id("v")), log(vec![id("w")])]),
                    (Some(int(7)), vec![log(vec![Expr::Str("seven".into()), id("v")])]),
                ],
            );
            ("fired2", func(&[("n", &["int"])], vec![let_("v", Expr::Binary("add", Box::new(id("n")), Box::new(int(30)))), sw, log(vec![id("v")])]), "switch-clause-scope")
        }
        6 => {
            // switch with fall-through in a handler
            let sw = Stmt::Switch(
                id("n"),
                vec![
                    (Some(int(0)), vec![log(vec![Expr::Str("zero".into())])]),
                    (Some(int(1)), vec![assign(mem(id("a"), "i"), int(1)), Stmt::Break(false)]),
                    (None, vec![log(vec![Expr::Str("other".into())])]),
                    (Some(int(2)), vec![assign(mem(id("b"), "i"), int(2))]),
                ],
            );
            ("fired2", func(&[("n", &["int"])], vec![sw, log(vec![Expr::Str("after".into())])]), "switch-in-handler")
        }
        7 if rng.chance(1, 2) => {
            // qsTr in a handler: the translation context is the document's type name, as in bindings (the runtime mock's
            // translate() returns `<context>source`, so property writes, method arguments and log arguments carry it)
            let greet = call(mem(call(id("qsTr"), vec![Expr::Str("Hello, %1!".into())]), "arg"), vec![id("n")]);
            (
                "fired2",
                func(
                    &[("n", &["int"]), ("s", &["QString"])],
                    vec![assign(mem(id("a"), "s"), greet), log(vec![call(id("qsTr"), vec![Expr::Str("greeted".into())]), id("s")]), Stmt::Expr(call(mem(id("b"), "setBoth"), vec![id("n"), call(id("qsTr"), vec![Expr::Str("both".into())])]))],
                ),
                "tr-context",
            )
        }
        7 => {
            // expression handler (no block): one effect
            ("fired", Program::Stmt(Stmt::Expr(call(mem(id("a"), "bump"), vec![mem(id("b"), "i")]))), "expression-handler")
        }
        _ => {
            // evaluation order: receiver / left-hand object first (JavaScript) vs arguments first (the compiler): F42 / F43
            match rng.below(3) {
                2 => {
                    // the callee is itself a call result: `a.label(1).arg(a.sum3(…))` (label first in JavaScript)
                    let inner = call(mem(call(mem(id("a"), "label"), vec![int(1)]), "arg"), vec![call(mem(id("a"), "sum3"), vec![int(2), int(2), mem(id("b"), "i")])]);
                    ("fired", Program::Stmt(Stmt::Expr(call(mem(id("b"), "setBoth"), vec![int(0), inner]))), "f42-call-order")
                }
                0 => ("fired", Program::Stmt(Stmt::Expr(call(mem(call(mem(id("a"), "pick"), vec![int(1)]), "bump"), vec![call(mem(id("b"), "count"), vec![])]))), "f42-call-order"),
                _ => ("fired", Program::Stmt(Stmt::Expr(Expr::Assign(Box::new(mem(call(mem(id("a"), "pick"), vec![int(1)]), "j")), Box::new(call(mem(id("b"), "count"), vec![]))))), "f43-assign-order"),
            }
        }
    }
}

struct Built {
    name: String,
    header: String,
    ui: String,
    signal: String,
}

enum Status {
    Built(Built),
    Rejected(Vec<String>),
    SyntaxError,
}

impl C13 {
    pub fn new() -> Self {
        C13 {
            tm: env::load_verif_type_map(),
            tm_over: env::load_type_map(&[include_str!("../../metatypes/verif.json"), OVERLOADS_JSON]),
            rt: Runtime::new(),
        }
    }

    /// what the real pipeline does with `<cls> { id: a; on<Name>: console.log("x") }`:
    /// `(accepted "T"…)` (argument types of the connected overload), `(ambiguous)`, `(not-signal)`, `(unknown)`
    fn observe_overload(&self, cls: &str, name: &str) -> Sexp {
        let src = format!("import qmluic.QtWidgets\nQWidget {{\n    {cls} {{\n        id: a\n        {name}: console.log(\"x\")\n    }}\n}}\n");
        let t = env::translate(&self.tm_over, &src, "MyType", Mode::Generate);
        if t.syntax_errors > 0 {
            return node("syntax-error", vec![st(src)]);
        }
        let errors: Vec<String> = t.diags.iter().filter(|d| d.is_error).map(|d| d.message.clone()).collect();
        if !errors.is_empty() || !t.accepted() {
            return if errors.iter().any(|m| m == "cannot bind to overloaded signal") {
                node("ambiguous", vec![])
            } else if errors.iter().any(|m| m == "not a signal") {
                node("not-signal", vec![])
            } else if errors.iter().any(|m| m.starts_with("unknown signal of class")) {
                node("unknown", vec![])
            } else {
                node("rejected", errors.iter().map(|m| st(m.clone())).collect())
            };
        }
        let header = t.header.unwrap_or_default();
        let conns: Vec<&str> = header.match_indices("QObject::connect(").map(|(i, _)| &header[i..]).collect();
        if conns.len() != 1 {
            return node("connections", vec![crate::sexp::num(conns.len() as i64)]);
        }
        match conns[0].find("QOverload<").and_then(|i| conns[0][i + 10..].find(">::of(&").map(|j| &conns[0][i + 10..i + 10 + j])) {
            Some(targs) => node("accepted", targs.split(',').filter(|x| !x.trim().is_empty()).map(|x| st(arg_name(x))).collect()),
            None => node("unreadable-connection", vec![st(conns[0].lines().next().unwrap_or("").to_owned())]),
        }
    }

    fn translate(&self, type_name: &str, binding: &str, signal: &str, program: &Program) -> Status {
        let src = ir::document(binding, program);
        let t = env::translate(&self.tm, &src, type_name, Mode::Generate);
        if t.syntax_errors > 0 {
            return Status::SyntaxError;
        }
        let errors: Vec<String> = t.diags.iter().filter(|d| d.is_error).map(|d| d.message.clone()).collect();
        if !t.accepted() {
            return Status::Rejected(errors);
        }
        match (t.header, t.ui) {
            (Some(header), Some(ui)) if header.contains("QObject::connect(") => Status::Built(Built { name: type_name.to_owned(), header, ui, signal: signal.to_owned() }),
            _ => Status::Rejected(vec!["no connection in the header".into()]),
        }
    }

    fn run_batch(&self, states: &[Sexp], sigargs: &[Sexp], handlers: &[(String, Program)]) -> Sexp {
        let stats: Vec<Status> = handlers.iter().enumerate().map(|(k, (sig, p))| self.translate(&format!("T{k}"), &format!("on{}", cap(sig)), sig, p)).collect();
        let built: Vec<&Built> = stats.iter().filter_map(|s| if let Status::Built(b) = s { Some(b) } else { None }).collect();
        let mut outputs: std::collections::HashMap<String, Vec<Sexp>> = Default::default();
        if !built.is_empty() {
            let dir = match self.rt.batch_dir() {
                Ok(d) => d,
                Err(e) => return node("fail", vec![st(format!("setup: {e}"))]),
            };
            let r = self.compile_run(&dir, states, sigargs, &built);
            let _ = std::fs::remove_dir_all(&dir);
            match r {
                Ok(o) => outputs = o,
                Err(_) => {
                    for b in &built {
                        let dir = self.rt.batch_dir().unwrap();
                        match self.compile_run(&dir, states, sigargs, &[b]) {
                            Ok(o) => outputs.extend(o),
                            Err(e) => {
                                outputs.insert(b.name.clone(), vec![atom("error"), st(e)]);
                            }
                        }
                        let _ = std::fs::remove_dir_all(&dir);
                    }
                }
            }
        }
        let mut rs = vec![];
        for (k, s) in stats.iter().enumerate() {
            match s {
                Status::SyntaxError => rs.push(node("r", vec![atom("syntax-error")])),
                Status::Rejected(m) => rs.push(node("r", std::iter::once(atom("rejected")).chain(m.iter().map(|x| st(x.clone()))).collect())),
                Status::Built(b) => match outputs.remove(&b.name) {
                    Some(v) => rs.push(node("r", v)),
                    None => rs.push(node("r", vec![atom("error"), st(format!("no output for handler {k}"))])),
                },
            }
        }
        node("results", rs)
    }

    fn compile_run(&self, dir: &Path, states: &[Sexp], sigargs: &[Sexp], built: &[&Built]) -> Result<std::collections::HashMap<String, Vec<Sexp>>, String> {
        let mut tu = String::from("#include \"rtclasses.h\"\n");
        tu.push_str(&c01::enum_static_asserts());
        for b in built {
            let lower = b.name.to_ascii_lowercase();
            let (uih, members) = c01::mini_ui_header(&b.name, &b.ui);
            if members.len() != ir::OBJECTS.len() {
                return Err(format!("unexpected .ui members {members:?}"));
            }
            std::fs::write(dir.join(format!("ui_{lower}.h")), uih).map_err(|e| e.to_string())?;
            std::fs::write(dir.join(format!("uisupport_{lower}.h")), &b.header).map_err(|e| e.to_string())?;
            writeln!(tu, "#include \"uisupport_{lower}.h\"").unwrap();
        }
        tu.push_str(&c01::cxx_set_state(states));
        // one emitter per signal: emits with the arguments of state k
        for (sig, _, kinds) in SIGNALS {
            writeln!(tu, "static void emit_{sig}(int k, VBase *a, VBase *b, VOther *o, VDerived *dv)\n{{\n    (void)b; (void)o; (void)dv;\n    switch (k) {{").unwrap();
            for (k, e) in sigargs.iter().enumerate() {
                let (_, entries) = e.as_node().unwrap();
                let vals = entries.iter().map(|x| x.as_list().unwrap()).find(|l| l[0].as_str() == Some(*sig)).unwrap();
                let args: Vec<String> = vals[1..].iter().zip(kinds.iter()).map(|(v, kind)| c01::cxx_value_pub(v, if *kind == "pbase" { "VBase *" } else { "" })).collect();
                writeln!(tu, "    case {k}: a->{sig}({}); break;", args.join(", ")).unwrap();
            }
            tu.push_str("    }\n}\n");
        }
        for b in built {
            let n = &b.name;
            writeln!(tu, "static void run_{n}()\n{{").unwrap();
            writeln!(tu, "    QWidget *root = new QWidget; Ui::{n} *ui = new Ui::{n}; ui->setupUi(root);").unwrap();
            writeln!(tu, "    rt::names.clear(); rt::names[root] = \"root\";").unwrap();
            for (id, _) in ir::OBJECTS {
                writeln!(tu, "    rt::names[ui->{id}] = \"{id}\";").unwrap();
            }
            writeln!(tu, "    UiSupport::{n} *sup = new UiSupport::{n}(root, ui);").unwrap();
            writeln!(tu, "    const char *st = rt::guard([&]() {{ sup->setup(); }});").unwrap();
            writeln!(tu, "    int conns = 0;").unwrap();
            for (id, _) in ir::OBJECTS {
                writeln!(tu, "    conns += rt::connections(ui->{id});").unwrap();
            }
            writeln!(tu, "    std::printf(\"{n} (setup %s %d %d)\", st ? st : \"ok\", conns, rt::connections(ui->a)); std::fflush(stdout);").unwrap();
            writeln!(tu, "    for (int k = 0; k < {}; ++k) {{", states.len()).unwrap();
            writeln!(tu, "        set_state(k, ui->a, ui->b, ui->o, ui->dv);").unwrap();
            writeln!(tu, "        rt::trace.clear(); rt::tracing = true;").unwrap();
            writeln!(tu, "        const char *f = rt::guard([&]() {{ emit_{}(k, ui->a, ui->b, ui->o, ui->dv); }});", b.signal).unwrap();
            writeln!(tu, "        rt::tracing = false;").unwrap();
            writeln!(tu, "        if (f) std::printf(\" (fail %s)\", f); else {{ std::printf(\" (t\"); for (auto &e : rt::trace) std::printf(\" %s\", e.c_str()); std::printf(\")\"); }}").unwrap();
            writeln!(tu, "        std::fflush(stdout);").unwrap();
            writeln!(tu, "    }}\n    std::printf(\"\\n\"); std::fflush(stdout);\n}}").unwrap();
        }
        tu.push_str("int main()\n{\n    rt::install();\n");
        for b in built {
            writeln!(tu, "    rt::in_child([]() {{ run_{}(); }});", b.name).unwrap();
        }
        tu.push_str("    std::printf(\"(done)\\n\");\n    return 0;\n}\n");
        std::fs::write(dir.join("tu.cpp"), tu).map_err(|e| e.to_string())?;
        let text = self.rt.compile_and_run(dir)?;
        let mut out = std::collections::HashMap::new();
        for line in text.lines() {
            if let Some((name, rest)) = line.split_once(' ') {
                if name.starts_with('T') {
                    if let Some(Sexp::List(v)) = Sexp::parse(&format!("({rest})")) {
                        out.insert(name.to_owned(), c01::pad_died(v, states.len()));
                    }
                }
            }
        }
        if !text.contains("(done)") {
            return Err(format!("program did not finish: {}", text.lines().last().unwrap_or("")));
        }
        Ok(out)
    }
}

pub fn handler_sexp(sig: &str, p: &Program) -> Sexp {
    node("handler", vec![node("sig", vec![st(sig)]), p.sexp()])
}

/// `(name, program)` of the acceptance cases: non-signals, ambiguous overloads, incompatible / too many parameters, names
/// that are not `on[A-Z]…`
fn acceptance_cases() -> Vec<(String, Program)> {
    let nop = Program::Stmt(Stmt::Block(vec![]));
    let f = |params: &[(&str, &[&str])]| func(params, vec![log(vec![Expr::Str("x".into())])]);
    let mut v: Vec<(String, Program)> = vec![];
    for name in [
        "onOver", "onReset", "onSetBoth", "onBump", "onCount", "onLabel", "onNope", "onfired", "on", "onclick", "on1", "onFIRED", "onFired", "onFired2",
        "onDefaulted", "onMoved", "onIChanged", "onWindowTitleChanged", "onDestroyed", "onObjectNameChanged", "OnFired", "onÉ", "on_fired", "onfired2",
    ] {
        v.push((name.to_owned(), nop.clone()));
    }
    v.push(("onFired2".into(), f(&[("p", &["QString"])])));
    v.push(("onFired2".into(), f(&[("p", &["int"]), ("q", &["int"])])));
    v.push(("onFired2".into(), f(&[("p", &["int"]), ("q", &["QString"]), ("r", &["int"])])));
    v.push(("onFired2".into(), f(&[("p", &["uint"])])));
    v.push(("onFired2".into(), f(&[("p", &["double"])])));
    v.push(("onFired".into(), f(&[("p", &["int"])])));
    v.push(("onDefaulted".into(), f(&[("p", &["bool"])])));
    v.push(("onDefaulted".into(), f(&[("p", &["int"])])));
    v.push(("onDefaulted".into(), f(&[("p", &["bool"]), ("q", &["bool"])])));
    v.push(("onMoved".into(), f(&[("p", &["VBase"])])));
    v.push(("onMoved".into(), f(&[("p", &["VDerived"])])));
    v.push(("onMoved".into(), f(&[("p", &["VOther"])])));
    v.push(("onMoved".into(), f(&[("p", &["QWidget"])])));
    v.push(("onMoved".into(), f(&[("p", &["QObject"])])));
    v.push(("onOver".into(), f(&[("p", &["int"])])));
    v.push(("onObjectNameChanged".into(), f(&[("p", &["QString"])])));
    v
}

impl Stream for C13 {
    fn generate(&self, seed: u64, thorough: bool) -> Vec<Case> {
        let mut cases = vec![];
        let (batches, per_batch, nstates) = if thorough { (200, 32, 12) } else { (24, 24, 6) };
        for bk in 0..batches {
            let mut rng = Rng::fork(seed, "c13-batch", bk as u64);
            let states: Vec<Sexp> = (0..nstates).map(|_| c01::gen_state(&mut rng)).collect();
            let sigargs: Vec<Sexp> = (0..nstates).map(|_| gen_sigargs(&mut rng)).collect();
            let head = |items: Vec<Sexp>| {
                let mut v = vec![c01::enums_sexp(), node("states", states.clone()), node("sigargs", sigargs.clone())];
                v.extend(items);
                node("spec-c13", v)
            };
            let mut items = vec![];
            let mut labels = vec![];
            for k in 0..per_batch {
                let (sig, p, label) = if k % 3 == 0 {
                    let (sig, p, label) = targeted(&mut rng);
                    (sig, p, label.to_owned())
                } else {
                    let (sig, params, _) = *rng.pick(SIGNALS);
                    let depth = 1 + rng.below(3);
                    let mut g = Gen::new(&mut rng, 0);
                    let p = g.callback(params, depth);
                    (sig, p, format!("gen-{sig}"))
                };
                if label == "f42-call-order" || label == "f43-assign-order" {
                    if bk % 4 == 0 {
                        cases.push(Case { kind: "pred", labels: vec![label], request: head(vec![handler_sexp(sig, &p)]) });
                    }
                    continue;
                }
                if c01::f41_candidate(&p) || c01::f41_method_candidate(&p) {
                    // witnesses of F41 run alone
                    if bk % 4 == 0 {
                        cases.push(Case { kind: "pred", labels: vec!["f41-long-constant".into()], request: head(vec![handler_sexp(sig, &p)]) });
                    }
                    continue;
                }
                labels.push(label);
                items.push(handler_sexp(sig, &p));
            }
            labels.sort();
            labels.dedup();
            cases.push(Case { kind: "pred", labels, request: head(items) });
        }
        // exact text of the connection and handler functions / rejection messages
        for (name, p) in acceptance_cases() {
            cases.push(Case { kind: "model", labels: vec!["acceptance".into()], request: node("c13-body", vec![node("name", vec![st(name)]), p.sexp()]) });
        }
        // overload sets: every name of the overload classes (default-argument chains of 1–3, forks in a leading / trailing
        // argument type, in arity only, signal vs slot / method of the same name, names declared in base and derived class),
        // judged against the specification (oracle) and compared with the model's `uniquify_methods` (model)
        let ocs = overload_classes();
        for (cls, base, _) in &ocs {
            let cls = cls.clone();
            // every name declared in the class or in its base class
            let mut names: Vec<String> = vec![];
            for (n, _, ms) in &ocs {
                if *n == cls || Some(n) == base.as_ref() {
                    for (m, _) in ms {
                        if !names.contains(m) {
                            names.push(m.clone());
                        }
                    }
                }
            }
            names.push("noSuch".into());
            for n in names {
                let set = overload_set(&cls, &n);
                let on = format!("on{}", cap(&n));
                cases.push(Case { kind: "oracle", labels: vec!["overload-set".into(), format!("overload:{}", expectation(&set).as_node().unwrap().1[0].as_atom().unwrap())], request: node("c13-overload", vec![node("cls", vec![st(cls.clone())]), node("name", vec![st(on.clone())]), expectation(&set)]) });
                if !set.is_empty() {
                    let ms: Vec<Sexp> = set.iter().map(|m| node("m", std::iter::once(atom(m.kind)).chain(std::iter::once(st(m.ret.clone()))).chain(m.args.iter().map(|a| st(a.clone()))).collect())).collect();
                    cases.push(Case { kind: "model", labels: vec!["overload-set".into(), "model".into()], request: node("c13-body", vec![atom("overload"), node("cls", vec![st(cls.clone())]), node("name", vec![st(on)]), node("methods", ms)]) });
                }
            }
        }
        // the real Qt classes with genuinely overloaded signals (Qt 5 metatypes) and default-argument families
        for (cls, name, exp) in [
            ("QSpinBox", "onValueChanged", vec![atom("ambiguous")]),
            ("QComboBox", "onActivated", vec![atom("ambiguous")]),
            ("QComboBox", "onHighlighted", vec![atom("ambiguous")]),
            ("QComboBox", "onCurrentIndexChanged", vec![atom("ambiguous")]),
            ("QPushButton", "onClicked", vec![atom("accepted"), st("bool")]),
            ("QPushButton", "onToggled", vec![atom("accepted"), st("bool")]),
            ("QLineEdit", "onTextChanged", vec![atom("accepted"), st("QString")]),
        ] {
            cases.push(Case { kind: "oracle", labels: vec!["overload-set".into(), "qt-class".into()], request: node("c13-overload", vec![node("cls", vec![st(cls)]), node("name", vec![st(name)]), node("expect", exp)]) });
        }
        // declared parameter types that differ from the signal's argument type — also those a static cast would convert —
        // must be refused ("incompatible callback arguments"); and raw spellings of handlers that must be connected once
        {
            let castable: &[(&str, usize, &[&str])] = &[
                ("fired2", 0, &["uint", "double", "bool", "QString"]),
                ("fired2", 1, &["int", "bool", "double"]),
                ("defaulted", 0, &["int", "uint", "double", "QString"]),
                ("moved", 0, &["VOther", "VDerived", "QString", "int", "bool"]),
            ];
            for (sig, pos, tys) in castable {
                for t in tys.iter() {
                    cases.push(Case { kind: "oracle", labels: vec!["param-type-mismatch".into()], request: node("c13-raw", vec![atom("reject"), st(format!("on{}", cap(sig))), st(match (*sig, *pos) {
                        ("fired2", 1) => format!("function(p: int, q: {t}) {{ console.log(\"x\") }}"),
                        _ => format!("function(p: {t}) {{ console.log(\"x\") }}"),
                    })]) });
                }
            }
            for (name, text) in [
                ("onFired", "function() { console.log(\"x\") }"),
                ("onFired", "function(): void { console.log(\"x\") }"),
                ("onFired", "() => { console.log(\"x\") }"),
                ("onFired", "(): void => { console.log(\"x\") }"),
                ("onFired", "() => console.log(\"x\")"),
                ("onFired", "{ console.log(\"x\") }"),
                ("onFired", "console.log(\"x\")"),
                ("onFired2", "function(p: int): void { console.log(p) }"),
                ("onFired2", "function(p: int, q: QString): void { console.log(p, q) }"),
                ("onFired2", "(p: int) => { console.log(p) }"),
                ("onDefaulted", "function(p: bool): void { console.log(p) }"),
                ("onMoved", "function(p: VBase) { console.log(\"x\") }"),
            ] {
                cases.push(Case { kind: "oracle", labels: vec!["handler-spelling".into()], request: node("c13-raw", vec![atom("connect-once"), st(name), st(text)]) });
            }
        }
        // handlers inside nested object / gadget / attached binding maps cannot be connected: each must be refused with a
        // diagnostic, never accepted and dropped (1..3 handlers per map)
        let nm = if thorough { 600 } else { 60 };
        for k in 0..nm {
            let mut rng = Rng::fork(seed, "c13-map", k as u64);
            let map = *rng.pick(&["next", "peer", "derived", "font", "sizePolicy", "QLayout"]);
            let mut names = vec![];
            for _ in 0..(1 + rng.below(3)) {
                let sig = *rng.pick(&["Fired", "Fired2", "IChanged", "Moved", "Defaulted", "NoSuch"]);
                names.push(format!("{map}.on{sig}"));
            }
            names.sort();
            names.dedup();
            let (_, params, _) = SIGNALS[0];
            let mut g = Gen::new(&mut rng, 0);
            let p = g.callback(params, 1);
            let mut a = vec![node("names", names.iter().map(|n| st(n.clone())).collect())];
            a.push(p.sexp());
            cases.push(Case { kind: "oracle", labels: vec!["handler-in-map".into(), format!("map:{map}")], request: node("c13-must-reject", a) });
        }
        let n = if thorough { 6_000 } else { 900 };
        for k in 0..n {
            let mut rng = Rng::fork(seed, "c13-body", k as u64);
            let (sig, p, label) = if k % 4 == 0 {
                let (sig, p, label) = targeted(&mut rng);
                (sig, p, label.to_owned())
            } else {
                let (sig, params, _) = *rng.pick(SIGNALS);
                let depth = 1 + rng.below(3);
                let noise = *rng.pick(&[0u32, 0, 30]);
                let mut g = Gen::new(&mut rng, noise);
                (sig, g.callback(params, depth), format!("gen-{sig}"))
            };
            cases.push(Case { kind: "model", labels: vec![label, "body".into()], request: node("c13-body", vec![node("name", vec![st(format!("on{}", cap(sig)))]), p.sexp()]) });
        }
        cases
    }

    fn answer(&self, req: &Sexp) -> Sexp {
        let (tag, args) = req.as_node().expect("request node");
        match tag {
            "spec-c13" => {
                let mut states = vec![];
                let mut sigargs = vec![];
                let mut handlers = vec![];
                for a in args {
                    if let Some((t, f)) = a.as_node() {
                        match t {
                            "states" => states = f.to_vec(),
                            "sigargs" => sigargs = f.to_vec(),
                            "handler" => {
                                let (_, s) = f[0].as_node().unwrap();
                                handlers.push((s[0].as_str().unwrap().to_owned(), ast::program_of(&f[1])));
                            }
                            _ => {}
                        }
                    }
                }
                self.run_batch(&states, &sigargs, &handlers)
            }
            "c13-overload" => {
                let cls = args[0].as_node().unwrap().1[0].as_str().unwrap().to_owned();
                let name = args[1].as_node().unwrap().1[0].as_str().unwrap().to_owned();
                let (_, exp) = args[2].as_node().unwrap();
                let want = node(exp[0].as_atom().unwrap(), exp[1..].to_vec());
                let got = self.observe_overload(&cls, &name);
                if got == want {
                    node("ok", vec![got])
                } else {
                    node("fail", vec![st(format!("{cls}.{name}: the specification says {}, the translation {}", want.render(), got.render()))])
                }
            }
            "c13-body" if args.first().and_then(|a| a.as_atom()) == Some("overload") => {
                let cls = args[1].as_node().unwrap().1[0].as_str().unwrap().to_owned();
                let name = args[2].as_node().unwrap().1[0].as_str().unwrap().to_owned();
                self.observe_overload(&cls, &name)
            }
            "c13-raw" => {
                let expect = args[0].as_atom().unwrap();
                let name = args[1].as_str().unwrap();
                let text = args[2].as_str().unwrap();
                let src = crate::streams::ir::document_raw(name, text);
                let t = env::translate(&self.tm, &src, "MyType", Mode::Generate);
                if t.syntax_errors > 0 {
                    return node("syntax-error", vec![st(src)]);
                }
                let errors: Vec<String> = t.diags.iter().filter(|d| d.is_error).map(|d| d.message.clone()).collect();
                match expect {
                    "reject" => {
                        if t.accepted() {
                            node("fail", vec![st(format!("handler with a parameter of another type than the signal's argument accepted: {name}: {text}"))])
                        } else if errors.iter().any(|m| m.contains("incompatible callback arguments")) {
                            node("ok", vec![atom("rejected")])
                        } else {
                            node("fail", vec![st(format!("rejected for another reason: {}", errors.join("; ")))])
                        }
                    }
                    _ => {
                        if !t.accepted() {
                            return node("fail", vec![st(format!("handler spelling refused: {name}: {text}: {}", errors.join("; ")))]);
                        }
                        let n = t.header.as_deref().map(|h| h.matches("QObject::connect(").count()).unwrap_or(0);
                        if n == 1 {
                            node("ok", vec![atom("connected-once")])
                        } else {
                            node("fail", vec![st(format!("accepted handler {name}: {text} has {n} connections in the header (expected exactly one)"))])
                        }
                    }
                }
            }
            "c13-must-reject" => {
                let (_, ns) = args[0].as_node().unwrap();
                let names: Vec<String> = ns.iter().map(|n| n.as_str().unwrap().to_owned()).collect();
                let program = ast::program_of(&args[1]);
                // all handlers of the map in one document, on object `a`
                let mut text = String::new();
                for (i, n) in names.iter().enumerate() {
                    if i > 0 {
                        text.push_str("\n        ");
                    }
                    text.push_str(&format!("{n}: {}", program.print(8).trim_end()));
                }
                let first = names[0].clone();
                let rest = text[first.len() + 2..].to_owned();
                let src = crate::streams::ir::document_raw(&first, &rest);
                let t = env::translate(&self.tm, &src, "MyType", Mode::Generate);
                if t.syntax_errors > 0 {
                    return node("syntax-error", vec![st(src)]);
                }
                let errors: Vec<&env::Diag> = t.diags.iter().filter(|d| d.is_error).collect();
                // every handler needs an error diagnostic inside its own text
                for n in &names {
                    let Some(at) = src.find(&format!("{n}:")) else { return node("fail", vec![st("handler text not found")]) };
                    let end = src[at..].find('\n').map(|e| at + e).unwrap_or(src.len());
                    // block bodies span lines: extend to the start of the next handler or the closing brace of the object
                    let next = names.iter().filter_map(|m| src.find(&format!("{m}:"))).filter(|&p| p > at).min().unwrap_or(src.len());
                    let end = end.max(next.min(src.len()));
                    if !errors.iter().any(|d| d.start >= at && d.start < end) {
                        return node(
                            "fail",
                            vec![st(format!("handler {n} inside a binding map has no error diagnostic of its own (accepted = {}, {} error(s) elsewhere)", t.accepted(), errors.len()))],
                        );
                    }
                }
                if t.accepted() {
                    return node("fail", vec![st("document with handlers inside a binding map accepted")]);
                }
                node("ok", vec![atom("rejected"), crate::sexp::num(errors.len())])
            }
            "c13-body" => {
                let (_, n) = args[0].as_node().unwrap();
                let name = n[0].as_str().unwrap();
                let program = ast::program_of(&args[1]);
                let signal = qmluic::qtname::callback_to_signal_name(name).unwrap_or_default();
                match self.translate("MyType", name, &signal, &program) {
                    Status::SyntaxError => node("syntax-error", vec![st(name)]),
                    Status::Rejected(m) => node("rejected", m.into_iter().map(st).collect()),
                    Status::Built(b) => {
                        let fname = format!("A{}", cap(&signal));
                        match (c01::function_text(&b.header, &format!("setup{fname}")), c01::function_text(&b.header, &format!("on{fname}"))) {
                            (Some(s), Some(o)) => node("cb", vec![st(s), st(o), crate::sexp::num(b.header.matches("QObject::connect(").count())]),
                            _ => node("error", vec![st("callback functions not found")]),
                        }
                    }
                }
            }
            _ => node("bad-request", vec![]),
        }
    }
}
