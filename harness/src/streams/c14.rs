//! C14 — the dynamic-binding mode changes only the support code and its diagnostics.
//!
//! Requests:
//!   (c14-modes (src "qml"))                     kind=oracle: the document in generate / reject / omit, in-process
//!   (passes <mode> <obj> (src …) (objs …) (binds …))   kind=model: each mode vs the Lean model
use crate::env::{self, Mode};
use crate::ledger::{self, Doc};
use crate::rng::Rng;
use crate::sexp::{atom, node, num, st, Sexp};
use crate::streams::c04::{gen_clean, gen_opts, has_header_const, has_warning_construct, plant_fault, FAULT_KINDS};
use crate::{Case, Stream};
use qmluic::typemap::TypeMap;

pub struct C14 {
    tm: TypeMap,
}

impl C14 {
    pub fn new() -> Self {
        // the CLI leg: build the binary (a no-op when fresh) before any case is answered
        let _ = env::cli_binary();
        C14 { tm: env::load_type_map_with(env::adversarial_classes()) }
    }
}

impl Stream for C14 {
    fn generate(&self, seed: u64, thorough: bool) -> Vec<Case> {
        let mut cases = vec![];
        let n = if thorough { 20_000 } else { 2_000 };
        for k in 0..n {
            let mut rng = Rng::fork(seed, "c14", k as u64);
            let (mut root, mut records) = gen_clean(&mut rng);
            // a third of the documents are constant-only so that reject mode accepts something
            if k % 3 == 0 {
                strip_dynamic(&mut root, &mut records);
                crate::streams::c04::normalise_separators(&root, &mut records);
            }
            let opts = gen_opts(&mut rng);
            let doc = Doc::build_opts(&root, &records, &[], opts);
            let dynamic = records.iter().any(|r| !matches!(r.fate, crate::propgen::Fate::Const { .. } | crate::propgen::Fate::LayoutPseudo));
            let header_const = has_header_const(&records);
            let mut labels = vec![if dynamic { "dynamic".to_string() } else { "constant-only".to_string() }, "clean".into()];
            if header_const {
                labels.push("header-const".into());
            }
            if has_warning_construct(&root, opts) {
                labels.push("with-warning".into());
            }
            // the generator's own expectation: does some binding have to be set up by the support header?
            let needs_header = if dynamic || header_const { "yes" } else { "no" };
            cases.push(Case { kind: "oracle", labels: labels.clone(), request: node("c14-modes", vec![node("src", vec![st(doc.src.clone())]), node("needs-header", vec![atom(needs_header)]), node("cli", vec![crate::sexp::boolean(k % 8 == 1)])]) });
            for m in Mode::all() {
                let mut l = labels.clone();
                l.push(m.name().into());
                cases.push(Case { kind: "model", labels: l, request: doc.request(m) });
            }
            let kind = (k + rng.below(3) * 7) % FAULT_KINDS;
            if let Some((froot, faults)) = plant_fault(&mut rng, &root, kind) {
                let fdoc = Doc::build_opts(&froot, &records, &faults, opts);
                let mut labels = vec![format!("fault:{}", faults[0].name)];
                if !dynamic {
                    labels.push("constant-only".into());
                }
                cases.push(Case { kind: "oracle", labels: labels.clone(), request: node("c14-modes", vec![node("src", vec![st(fdoc.src.clone())]), node("needs-header", vec![atom("unknown")]), node("cli", vec![crate::sexp::boolean(k % 8 == 5)])]) });
                for m in Mode::all() {
                    let mut l = labels.clone();
                    l.push(m.name().into());
                    cases.push(Case { kind: "model", labels: l, request: fdoc.request(m) });
                }
            }
        }
        cases
    }

    fn answer(&self, req: &Sexp) -> Sexp {
        let (tag, args) = req.as_node().expect("request node");
        match tag {
            "passes" => ledger::real_answer(&self.tm, req),
            "c14-modes" => modes_oracle(&self.tm, args),
            "c14-witness" => witness_request(args[0].as_str().unwrap()),
            _ => node("bad-request", vec![]),
        }
    }
}

/// removes dynamic bindings and handlers (and their ledger records)
pub fn strip_dynamic(root: &mut crate::docgen::Obj, records: &mut Vec<crate::propgen::Record>) {
    use crate::propgen::Fate;
    fn go(o: &mut crate::docgen::Obj, records: &[crate::propgen::Record]) {
        let id = o.id.clone().unwrap_or_default();
        o.bindings.retain(|(l, _)| !records.iter().any(|r| r.object == id && &r.lhs == l && matches!(r.fate, Fate::Dynamic | Fate::Callback { .. })));
        for c in &mut o.children {
            go(c, records);
        }
    }
    go(root, records);
    records.retain(|r| !matches!(r.fate, Fate::Dynamic | Fate::Callback { .. }));
}

fn modes_oracle(tm: &TypeMap, args: &[Sexp]) -> Sexp {
    let t = ledger::decode_tables(args);
    let fail = |m: String| node("fail", vec![st(m)]);
    // acceptance is what `generate_ui_file` decides: the library's own `Diagnostics::has_error()`
    let (g, g_err) = ledger::translate_checked(tm, &t.src, Mode::Generate);
    let (r, r_err) = ledger::translate_checked(tm, &t.src, Mode::Reject);
    let (o, o_err) = ledger::translate_checked(tm, &t.src, Mode::Omit);
    if g.syntax_errors > 0 {
        return fail("syntax error in generated document".into());
    }
    for (m, tr, e) in [("generate", &g, g_err), ("reject", &r, r_err), ("omit", &o, o_err)] {
        if let Some(msg) = ledger::has_error_mismatch(tr, e) {
            return fail(format!("{m} mode: {msg}"));
        }
    }
    let (g_acc, r_acc, o_acc) = (ledger::lib_accepted(&g, g_err), ledger::lib_accepted(&r, r_err), ledger::lib_accepted(&o, o_err));
    let needs_header = args.iter().find_map(|a| a.as_node().filter(|(t, _)| *t == "needs-header").and_then(|(_, xs)| xs[0].as_atom().map(|s| s.to_owned()))).unwrap_or_else(|| "unknown".into());
    // .ui identical whenever produced
    let uis: Vec<&String> = [&g.ui, &r.ui, &o.ui].into_iter().flatten().collect();
    if uis.windows(2).any(|w| w[0] != w[1]) {
        return fail(".ui differs between modes".into());
    }
    if g.ui.is_some() != r.ui.is_some() || g.ui.is_some() != o.ui.is_some() {
        return fail("form produced in some modes only".into());
    }
    // header in generate mode only
    if r.header.is_some() || o.header.is_some() {
        return fail("support header outside generate mode".into());
    }
    if g.built && g.header.is_none() {
        return fail("no support header in generate mode".into());
    }
    // reject accepts  <=>  generate accepts with a header without bindings and callbacks
    let scan = g.header.as_ref().map(|h| ledger::scan_header(h)).unwrap_or_default();
    let empty_header = scan.update_fns.is_empty() && scan.on_fns.is_empty() && scan.callback_connects.is_empty() && scan.update_connects == 0 && scan.eval_fns.is_empty();
    if r_acc != (g_acc && empty_header) {
        return fail(format!("reject accepted = {}, generate accepted = {}, header empty = {empty_header}", r_acc, g_acc));
    }
    // the generator's ledger: a clean document is accepted in generate and omit mode; reject mode refuses it exactly
    // when some binding has to be set up by the header (dynamic, handler, or a constant only the header can set)
    match needs_header.as_str() {
        "yes" | "no" => {
            if !g_acc || !o_acc {
                return fail(format!("clean document: generate accepted = {g_acc}, omit accepted = {o_acc}"));
            }
            if r_acc != (needs_header == "no") {
                return fail(format!("clean document whose ledger says needs-header = {needs_header}: reject accepted = {r_acc}"));
            }
            if empty_header != (needs_header == "no") {
                return fail(format!("clean document whose ledger says needs-header = {needs_header}: header empty = {empty_header}"));
            }
        }
        _ => {}
    }
    // preview accepts exactly what generate accepts (same diagnostics since the repair of F21)
    if o_acc != g_acc {
        return fail(format!("omit accepted = {o_acc}, generate accepted = {g_acc}"));
    }
    // omit errors ⊆ generate errors (multisets of (range, message))
    let key = |d: &env::Diag| (d.start, d.end, d.message.clone());
    let mut gen_errs: Vec<_> = g.diags.iter().filter(|d| d.is_error).map(key).collect();
    for d in o.diags.iter().filter(|d| d.is_error) {
        match gen_errs.iter().position(|x| *x == key(d)) {
            Some(p) => {
                gen_errs.swap_remove(p);
            }
            None => return fail(format!("omit-mode error not reported in generate mode: {}..{} {}", d.start, d.end, d.message)),
        }
    }
    // the CLI leg: the real binary without the flag behaves as in-process Generate, with --no-dynamic-binding as Reject
    let cli = args.iter().find_map(|a| a.as_node().filter(|(t, _)| *t == "cli").and_then(|(_, xs)| xs[0].as_bool())).unwrap_or(false);
    if cli {
        if let Err(e) = cli_leg(&t.src, false, g_acc, g.ui.as_deref(), g.header.as_deref()) {
            return fail(format!("CLI without --no-dynamic-binding vs in-process generate mode: {e}"));
        }
        if let Err(e) = cli_leg(&t.src, true, r_acc, r.ui.as_deref(), None) {
            return fail(format!("CLI with --no-dynamic-binding vs in-process reject mode: {e}"));
        }
    }
    node(
        "ok",
        vec![
            atom("cli"),
            num(cli as u8),
            atom("accepted"),
            atom(format!("{}{}{}", g_acc as u8, r_acc as u8, o_acc as u8)),
            atom("errors"),
            num(g.diags.len()),
            num(r.diags.len()),
            num(o.diags.len()),
            atom("header-functions"),
            num(scan.update_fns.len() + scan.on_fns.len()),
        ],
    )
}

/// One run of the real CLI on `MyType.qml` in a fresh temp dir: exit status 0 exactly when the in-process run accepts; then
/// `mytype.ui` (and, in generate mode, `uisupport_mytype.h`) exist with the in-process bytes; otherwise neither exists; a
/// header never exists with `--no-dynamic-binding`.
fn cli_leg(src: &str, no_dynamic_binding: bool, accepted: bool, ui: Option<&str>, header: Option<&str>) -> Result<(), String> {
    use std::fs;
    use std::process::Command;
    let bin = env::cli_binary();
    let dir = tempfile::Builder::new().prefix("qv-c14-").tempdir_in(std::env::temp_dir()).map_err(|e| e.to_string())?;
    let p = dir.path();
    fs::write(p.join("MyType.qml"), src).map_err(|e| e.to_string())?;
    let mut cmd = Command::new(&bin);
    cmd.current_dir(p).arg("generate-ui").arg("--foreign-types").arg(format!("{}/contrib/metatypes", env::REPO));
    if no_dynamic_binding {
        cmd.arg("--no-dynamic-binding");
    }
    let out = cmd.arg("MyType.qml").env("NO_COLOR", "1").output().map_err(|e| format!("cannot run {}: {e}", bin.display()))?;
    let code = out.status.code();
    let res = (|| {
        if code != Some(if accepted { 0 } else { 1 }) {
            return Err(format!("exit status {code:?}, in-process accepted = {accepted}; stderr: {}", String::from_utf8_lossy(&out.stderr).chars().take(300).collect::<String>()));
        }
        let ui_file = fs::read_to_string(p.join("mytype.ui")).ok();
        let h_file = fs::read_to_string(p.join("uisupport_mytype.h")).ok();
        if accepted {
            if ui_file.as_deref() != ui {
                return Err(format!("mytype.ui {} the in-process .ui", if ui_file.is_some() { "differs from" } else { "is missing; expected" }));
            }
            if no_dynamic_binding {
                if h_file.is_some() {
                    return Err("uisupport_mytype.h written with --no-dynamic-binding".into());
                }
            } else if h_file.as_deref() != header {
                return Err(format!("uisupport_mytype.h {} the in-process header", if h_file.is_some() { "differs from" } else { "is missing; expected" }));
            }
        } else if ui_file.is_some() || h_file.is_some() {
            return Err(format!("not accepted in-process, but the CLI wrote {}{}", if ui_file.is_some() { "mytype.ui " } else { "" }, if h_file.is_some() { "uisupport_mytype.h" } else { "" }));
        }
        Ok(())
    })();
    drop(dir);
    res
}

/// hand-written regression documents (used once, to write corpus/C14)
fn witness_request(name: &str) -> Sexp {
    let (src, needs) = match name {
        // a dynamic member of a nested object map: refused in every mode
        "nested-dynamic" => ("import qmluic.QtWidgets\n\nQWidget {\n    QCheckBox { id: check }\n    QTreeView { id: view; header.visible: check.checked }\n}\n", "unknown"),
        // a constant which only the header can set: generate accepts with a binding, reject must refuse
        "header-const" => ("import qmluic.QtWidgets\n\nQWidget {\n    QAction { id: a; separator: true; text: \"whatever\" }\n}\n", "yes"),
        // constants and a warning only: accepted in all three modes
        "warning-only" => ("import qmluic.QtWidgets 6.2\n\nQWidget {\n    QLabel { id: l; text: \"x\" }\n}\n", "no"),
        // round 4: a handler and a dynamic binding; the CLI leg (`--no-dynamic-binding` = reject, no flag = generate)
        "cli-dynamic" => ("import qmluic.QtWidgets\n\nQWidget {\n    QLineEdit { id: edit }\n    QLabel { id: l; text: edit.text }\n    QPushButton { id: b; onClicked: edit.clear() }\n}\n", "yes"),
        _ => return node("bad-request", vec![]),
    };
    node("c14-modes", vec![node("src", vec![st(src)]), node("needs-header", vec![atom(needs)]), node("cli", vec![crate::sexp::boolean(true)])])
}
