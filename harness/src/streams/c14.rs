//! C14 — the dynamic-binding mode changes only the support code and its diagnostics.
//!
//! Requests:
//!   (c14-modes (src "qml"))                     kind=oracle: the document in generate / reject / omit, in-process
//!   (passes <mode> <obj> (src …) (objs …) (binds …))   kind=model: each mode vs the Lean model
use crate::env::{self, Mode};
use crate::ledger::{self, Doc};
use crate::rng::Rng;
use crate::sexp::{atom, node, num, st, Sexp};
use crate::streams::c04::{gen_clean, gen_opts, has_header_const, has_warning_construct, plant_fault, FAULT_KINDS};
use crate::{Case, Stream};
use qmluic::typemap::TypeMap;

pub struct C14 {
    tm: TypeMap,
}

impl C14 {
    pub fn new() -> Self {
        C14 { tm: env::load_type_map_with(env::adversarial_classes()) }
    }
}

impl Stream for C14 {
    fn generate(&self, seed: u64, thorough: bool) -> Vec<Case> {
        let mut cases = vec![];
        let n = if thorough { 20_000 } else { 2_000 };
        for k in 0..n {
            let mut rng = Rng::fork(seed, "c14", k as u64);
            let (mut root, mut records) = gen_clean(&mut rng);
            // a third of the documents are constant-only so that reject mode accepts something
            if k % 3 == 0 {
                strip_dynamic(&mut root, &mut records);
                crate::streams::c04::normalise_separators(&root, &mut records);
            }
            let opts = gen_opts(&mut rng);
            let doc = Doc::build_opts(&root, &records, &[], opts);
            let dynamic = records.iter().any(|r| !matches!(r.fate, crate::propgen::Fate::Const { .. } | crate::propgen::Fate::LayoutPseudo));
            let header_const = has_header_const(&records);
            let mut labels = vec![if dynamic { "dynamic".to_string() } else { "constant-only".to_string() }, "clean".into()];
            if header_const {
                labels.push("header-const".into());
            }
            if has_warning_construct(&root, opts) {
                labels.push("with-warning".into());
            }
            // the generator's own expectation: does some binding have to be set up by the support header?
            let needs_header = if dynamic || header_const { "yes" } else { "no" };
            cases.push(Case { kind: "oracle", labels: labels.clone(), request: node("c14-modes", vec![node("src", vec![st(doc.src.clone())]), node("needs-header", vec![atom(needs_header)])]) });
            for m in Mode::all() {
                let mut l = labels.clone();
                l.push(m.name().into());
                cases.push(Case { kind: "model", labels: l, request: doc.request(m) });
            }
            let kind = (k + rng.below(3) * 7) % FAULT_KINDS;
            if let Some((froot, faults)) = plant_fault(&mut rng, &root, kind) {
                let fdoc = Doc::build_opts(&froot, &records, &faults, opts);
                let mut labels = vec![format!("fault:{}", faults[0].name)];
                if !dynamic {
                    labels.push("constant-only".into());
                }
                cases.push(Case { kind: "oracle", labels: labels.clone(), request: node("c14-modes", vec![node("src", vec![st(fdoc.src.clone())]), node("needs-header", vec![atom("unknown")])]) });
                for m in Mode::all() {
                    let mut l = labels.clone();
                    l.push(m.name().into());
                    cases.push(Case { kind: "model", labels: l, request: fdoc.request(m) });
                }
            }
        }
        cases
    }

    fn answer(&self, req: &Sexp) -> Sexp {
        let (tag, args) = req.as_node().expect("request node");
        match tag {
            "passes" => ledger::real_answer(&self.tm, req),
            "c14-modes" => modes_oracle(&self.tm, args),
            "c14-witness" => witness_request(args[0].as_str().unwrap()),
            _ => node("bad-request", vec![]),
        }
    }
}

/// removes dynamic bindings and handlers (and their ledger records)
pub fn strip_dynamic(root: &mut crate::docgen::Obj, records: &mut Vec<crate::propgen::Record>) {
    use crate::propgen::Fate;
    fn go(o: &mut crate::docgen::Obj, records: &[crate::propgen::Record]) {
        let id = o.id.clone().unwrap_or_default();
        o.bindings.retain(|(l, _)| !records.iter().any(|r| r.object == id && &r.lhs == l && matches!(r.fate, Fate::Dynamic | Fate::Callback { .. })));
        for c in &mut o.children {
            go(c, records);
        }
    }
    go(root, records);
    records.retain(|r| !matches!(r.fate, Fate::Dynamic | Fate::Callback { .. }));
}

fn modes_oracle(tm: &TypeMap, args: &[Sexp]) -> Sexp {
    let t = ledger::decode_tables(args);
    let fail = |m: String| node("fail", vec![st(m)]);
    // acceptance is what `generate_ui_file` decides: the library's own `Diagnostics::has_error()`
    let (g, g_err) = ledger::translate_checked(tm, &t.src, Mode::Generate);
    let (r, r_err) = ledger::translate_checked(tm, &t.src, Mode::Reject);
    let (o, o_err) = ledger::translate_checked(tm, &t.src, Mode::Omit);
    if g.syntax_errors > 0 {
        return fail("syntax error in generated document".into());
    }
    for (m, tr, e) in [("generate", &g, g_err), ("reject", &r, r_err), ("omit", &o, o_err)] {
        if let Some(msg) = ledger::has_error_mismatch(tr, e) {
            return fail(format!("{m} mode: {msg}"));
        }
    }
    let (g_acc, r_acc, o_acc) = (ledger::lib_accepted(&g, g_err), ledger::lib_accepted(&r, r_err), ledger::lib_accepted(&o, o_err));
    let needs_header = args.iter().find_map(|a| a.as_node().filter(|(t, _)| *t == "needs-header").and_then(|(_, xs)| xs[0].as_atom().map(|s| s.to_owned()))).unwrap_or_else(|| "unknown".into());
    // .ui identical whenever produced
    let uis: Vec<&String> = [&g.ui, &r.ui, &o.ui].into_iter().flatten().collect();
    if uis.windows(2).any(|w| w[0] != w[1]) {
        return fail(".ui differs between modes".into());
    }
    if g.ui.is_some() != r.ui.is_some() || g.ui.is_some() != o.ui.is_some() {
        return fail("form produced in some modes only".into());
    }
    // header in generate mode only
    if r.header.is_some() || o.header.is_some() {
        return fail("support header outside generate mode".into());
    }
    if g.built && g.header.is_none() {
        return fail("no support header in generate mode".into());
    }
    // reject accepts  <=>  generate accepts with a header without bindings and callbacks
    let scan = g.header.as_ref().map(|h| ledger::scan_header(h)).unwrap_or_default();
    let empty_header = scan.update_fns.is_empty() && scan.on_fns.is_empty() && scan.callback_connects.is_empty() && scan.update_connects == 0 && scan.eval_fns.is_empty();
    if r_acc != (g_acc && empty_header) {
        return fail(format!("reject accepted = {}, generate accepted = {}, header empty = {empty_header}", r_acc, g_acc));
    }
    // the generator's ledger: a clean document is accepted in generate and omit mode; reject mode refuses it exactly
    // when some binding has to be set up by the header (dynamic, handler, or a constant only the header can set)
    match needs_header.as_str() {
        "yes" | "no" => {
            if !g_acc || !o_acc {
                return fail(format!("clean document: generate accepted = {g_acc}, omit accepted = {o_acc}"));
            }
            if r_acc != (needs_header == "no") {
                return fail(format!("clean document whose ledger says needs-header = {needs_header}: reject accepted = {r_acc}"));
            }
            if empty_header != (needs_header == "no") {
                return fail(format!("clean document whose ledger says needs-header = {needs_header}: header empty = {empty_header}"));
            }
        }
        _ => {}
    }
    // preview accepts exactly what generate accepts (same diagnostics since the repair of F21)
    if o_acc != g_acc {
        return fail(format!("omit accepted = {o_acc}, generate accepted = {g_acc}"));
    }
    // omit errors ⊆ generate errors (multisets of (range, message))
    let key = |d: &env::Diag| (d.start, d.end, d.message.clone());
    let mut gen_errs: Vec<_> = g.diags.iter().filter(|d| d.is_error).map(key).collect();
    for d in o.diags.iter().filter(|d| d.is_error) {
        match gen_errs.iter().position(|x| *x == key(d)) {
            Some(p) => {
                gen_errs.swap_remove(p);
            }
            None => return fail(format!("omit-mode error not reported in generate mode: {}..{} {}", d.start, d.end, d.message)),
        }
    }
    node(
        "ok",
        vec![
            atom("accepted"),
            atom(format!("{}{}{}", g_acc as u8, r_acc as u8, o_acc as u8)),
            atom("errors"),
            num(g.diags.len()),
            num(r.diags.len()),
            num(o.diags.len()),
            atom("header-functions"),
            num(scan.update_fns.len() + scan.on_fns.len()),
        ],
    )
}

/// hand-written regression documents (used once, to write corpus/C14)
fn witness_request(name: &str) -> Sexp {
    let (src, needs) = match name {
        // a dynamic member of a nested object map: refused in every mode
        "nested-dynamic" => ("import qmluic.QtWidgets\n\nQWidget {\n    QCheckBox { id: check }\n    QTreeView { id: view; header.visible: check.checked }\n}\n", "unknown"),
        // a constant which only the header can set: generate accepts with a binding, reject must refuse
        "header-const" => ("import qmluic.QtWidgets\n\nQWidget {\n    QAction { id: a; separator: true; text: \"whatever\" }\n}\n", "yes"),
        // constants and a warning only: accepted in all three modes
        "warning-only" => ("import qmluic.QtWidgets 6.2\n\nQWidget {\n    QLabel { id: l; text: \"x\" }\n}\n", "no"),
        _ => return node("bad-request", vec![]),
    };
    node("c14-modes", vec![node("src", vec![st(src)]), node("needs-header", vec![atom(needs)])])
}
