//! C04 — every binding is embedded, generated, or diagnosed; errors write nothing.
//!
//! Requests:
//!   (passes generate <obj> (src "qml") (objs …) (binds …))           kind=model: per-binding fate, evaluated-constant
//!                                                                     flags (hook), header inventory, diagnostics
//!   (c04-ledger (src "qml") (objs …) (binds …) (fates (id kind tag "text")…))   kind=oracle: the ledger balances
//!   (c04-fault (src "qml") (objs …) (binds …) (fault id "name" "message" cli))  kind=oracle: error inside the binding,
//!                                                                     not accepted, (cli=true) the real CLI writes nothing
use crate::docgen::{family_of, Family, Obj};
use crate::env::{self, Mode};
use crate::ledger::{self, BKind, Doc, DocOpts, Fault, Konst, LeafSpec};
use crate::propgen::{Fate, Record};
use crate::rng::Rng;
use crate::sexp::{atom, boolean, list, node, num, st, Sexp};
use crate::streams::c08;
use crate::xml;
use crate::{Case, Stream};
use qmluic::typemap::TypeMap;
use std::collections::BTreeSet;

pub struct C04 {
    tm: TypeMap,
}

impl C04 {
    pub fn new() -> Self {
        // build the CLI (a no-op when it is fresh) before any case is answered, so that the build time is never charged to
        // the per-case watchdog
        let _ = env::cli_binary();
        C04 { tm: env::load_type_map_with(env::adversarial_classes()) }
    }
}

/// A clean document: rich bindings on every object, plus item views with header maps, combo models, icons and
/// explicit `actions` lists.  All objects carry ids.
pub fn gen_clean(rng: &mut Rng) -> (Obj, Vec<Record>) {
    let per = 2 + rng.below(6);
    let (mut root, mut ledger) = c08::rich_document(rng, per, false);
    fn enrich(rng: &mut Rng, o: &mut Obj, ledger: &mut Vec<Record>, counter: &mut usize) {
        let id = o.id.clone().unwrap();
        let has = |o: &Obj, l: &str| o.bindings.iter().any(|(ll, _)| ll == l || ll.starts_with(&format!("{l}.")));
        let fam = family_of(&o.class);
        if o.class == "QComboBox" && rng.chance(1, 2) && !has(o, "model") {
            o.bindings.push(("model".into(), "[\"alpha\", \"beta\"]".into()));
            ledger.push(Record { object: id.clone(), lhs: "model".into(), fate: Fate::Const { tag: "items".into(), text: "alpha,beta".into() } });
        }
        if matches!(o.class.as_str(), "QTableView" | "QTreeView") && rng.chance(2, 3) {
            let g = if o.class == "QTableView" { *rng.pick(&["horizontalHeader", "verticalHeader"]) } else { "header" };
            let v = 20 + rng.below(80);
            o.bindings.push((format!("{g}.defaultSectionSize"), v.to_string()));
            ledger.push(Record { object: id.clone(), lhs: format!("{g}.defaultSectionSize"), fate: Fate::Const { tag: "number".into(), text: v.to_string() } });
            if rng.chance(1, 2) {
                o.bindings.push((format!("{g}.stretchLastSection"), "true".into()));
                ledger.push(Record { object: id.clone(), lhs: format!("{g}.stretchLastSection"), fate: Fate::Const { tag: "bool".into(), text: "true".into() } });
            }
        }
        if matches!(fam, Family::Widget) && o.class != "QButtonGroup" && rng.chance(1, 8) && !has(o, "windowIcon") {
            o.bindings.push(("windowIcon.name".into(), "\"document-open\"".into()));
            ledger.push(Record { object: id.clone(), lhs: "windowIcon.name".into(), fate: Fate::Const { tag: "attr-theme".into(), text: "document-open".into() } });
        }
        let sep_child = o.children.iter().any(|c| c.bindings.iter().any(|(l, _)| l == "separator"));
        if matches!(fam, Family::Widget | Family::Menu) && o.class != "QTabWidget" && rng.chance(1, 3) && !has(o, "actions") && !sep_child {
            let acts: Vec<String> = o
                .children
                .iter()
                .filter(|c| c.class == "QAction" && !c.bindings.iter().any(|(l, _)| l == "separator"))
                .map(|c| c.id.clone().unwrap())
                .collect();
            if !acts.is_empty() {
                o.bindings.push(("actions".into(), format!("[{}]", acts.join(", "))));
                ledger.push(Record { object: id.clone(), lhs: "actions".into(), fate: Fate::Const { tag: "actions".into(), text: acts.join(",") } });
            }
        }
        // a few item views so that the header special cases are exercised
        if matches!(fam, Family::Widget) && matches!(o.class.as_str(), "QWidget" | "QGroupBox" | "QFrame") && o.children.iter().all(|c| family_of(&c.class) != Family::Layout) && rng.chance(1, 6) {
            *counter += 1;
            let cls = *rng.pick(&["QTableView", "QTreeView", "QComboBox"]);
            let v = Obj::new(cls).with_id(&format!("view{counter}"));
            o.children.push(v); // enriched by the loop below
        }
        for c in &mut o.children {
            enrich(rng, c, ledger, counter);
        }
    }
    // static separators (`separator: true` as the action's only binding) and, rarely, `separator: false` as the only
    // binding (finding F18: consumed by nobody)
    fn add_separators(rng: &mut Rng, o: &mut Obj, ledger: &mut Vec<Record>) {
        if o.class == "QAction" {
            let v = if rng.chance(1, 6) { Some("true") } else if rng.chance(1, 20) { Some("false") } else { None };
            if let Some(v) = v {
                // the action's only binding
                let id = o.id.clone().unwrap();
                o.bindings.clear();
                ledger.retain(|r| r.object != id);
                o.bindings.push(("separator".into(), v.into()));
                ledger.push(Record { object: id, lhs: "separator".into(), fate: Fate::Const { tag: "separator".into(), text: v.into() } });
            } else if !o.bindings.is_empty() && !o.bindings.iter().any(|(l, _)| l == "separator") && rng.chance(1, 6) {
                // `separator` next to other bindings: not a static separator; although constant it is excluded from the
                // .ui and left unevaluated, so the support header must set it (and reject mode must refuse the document)
                let v = if rng.chance(2, 3) { "true" } else { "false" };
                o.bindings.push(("separator".into(), v.into()));
                ledger.push(Record { object: o.id.clone().unwrap(), lhs: "separator".into(), fate: Fate::Const { tag: "header-const".into(), text: v.into() } });
            }
        }
        for c in &mut o.children {
            add_separators(rng, c, ledger);
        }
    }
    add_separators(rng, &mut root, &mut ledger);
    let mut counter = 0;
    enrich(rng, &mut root, &mut ledger, &mut counter);
    // a return type annotation on a handler function is accepted with a WARNING ("return type is ignored")
    fn annotate(rng: &mut Rng, o: &mut Obj) {
        for (l, r) in &mut o.bindings {
            if l.starts_with("on") && r.starts_with("function(") && rng.chance(1, 4) {
                if let Some(p) = r.find(") {") {
                    r.replace_range(p..p + 3, "): void {");
                }
            }
        }
        for c in &mut o.children {
            annotate(rng, c);
        }
    }
    annotate(rng, &mut root);
    // constant object references: `buddy: <id of another widget>` (a <cstring> in the .ui)
    let widget_ids: Vec<String> = root
        .pre_order()
        .iter()
        .filter(|o| matches!(family_of(&o.class), Family::Widget | Family::Menu) && o.class != "QButtonGroup")
        .filter_map(|o| o.id.clone())
        .collect();
    fn add_buddies(rng: &mut Rng, o: &mut Obj, ids: &[String], ledger: &mut Vec<Record>) {
        if o.class == "QLabel" && !o.bindings.iter().any(|(l, _)| l == "buddy") && rng.chance(1, 4) {
            let me = o.id.clone().unwrap();
            let others: Vec<&String> = ids.iter().filter(|i| **i != me).collect();
            if !others.is_empty() {
                let b = (*rng.pick(&others)).clone();
                o.bindings.push(("buddy".into(), b.clone()));
                ledger.push(Record { object: me, lhs: "buddy".into(), fate: Fate::Const { tag: "cstring".into(), text: b } });
            }
        }
        for c in &mut o.children {
            add_buddies(rng, c, ids, ledger);
        }
    }
    add_buddies(rng, &mut root, &widget_ids, &mut ledger);
    add_layout_attached(rng, &mut root, &mut ledger);
    (root, ledger)
}

/// Attached layout properties with a CHECKABLE place in the .ui: per layout a random set of families, most often exactly
/// one (so that a family is seen on its own): the per-row / per-column families end up in an attribute of the parent
/// `<layout>` (grid: rowstretch, columnstretch, rowminimumheight, columnminimumwidth; boxes: stretch), the item-level ones
/// (row, column, spans) on the `<item>`.  One non-default value per (layout, family), so that no two children conflict.
fn add_layout_attached(rng: &mut Rng, o: &mut Obj, ledger: &mut Vec<Record>) {
    let array_families: &[&str] = match o.class.as_str() {
        "QGridLayout" => &["rowStretch", "columnStretch", "rowMinimumHeight", "columnMinimumWidth"],
        "QVBoxLayout" => &["rowStretch"],
        "QHBoxLayout" => &["columnStretch"],
        _ => &[],
    };
    let item_families: &[&str] = match o.class.as_str() {
        "QGridLayout" | "QFormLayout" => &["column", "rowSpan", "columnSpan"],
        "QVBoxLayout" | "QHBoxLayout" => &["rowSpan", "columnSpan"],
        _ => &[],
    };
    if !o.children.is_empty() && (!array_families.is_empty() || !item_families.is_empty()) && rng.chance(1, 2) {
        let mut chosen: Vec<&str> = vec![];
        let all: Vec<&str> = array_families.iter().chain(item_families.iter()).copied().collect();
        if rng.chance(3, 5) {
            // exactly one family, an array family when the layout has one
            let pool: &[&str] = if !array_families.is_empty() && rng.chance(3, 4) { array_families } else { &all };
            chosen.push(*rng.pick(pool));
        } else {
            for f in &all {
                if rng.chance(1, 2) {
                    chosen.push(*f);
                }
            }
        }
        for fam in chosen {
            let value: i64 = match fam {
                "rowStretch" | "columnStretch" => *rng.pick(&[2, 3, 5]),               // default 1
                "rowMinimumHeight" | "columnMinimumWidth" => *rng.pick(&[10, 20, 30]), // default 0
                "column" => {
                    if o.class == "QFormLayout" {
                        1
                    } else {
                        *rng.pick(&[0, 1, 2])
                    }
                }
                _ => *rng.pick(&[2, 3]),
            };
            let tag = match fam {
                "rowStretch" | "columnStretch" | "rowMinimumHeight" | "columnMinimumWidth" => "layout-array",
                "column" => "item-column",
                "rowSpan" => "item-rowspan",
                _ => "item-colspan",
            };
            let lhs = format!("QLayout.{fam}");
            let n = o.children.len();
            let mut set_any = false;
            for (i, c) in o.children.iter_mut().enumerate() {
                let pick = rng.chance(1, 2) || (!set_any && i + 1 == n);
                if pick && c.id.is_some() && !c.bindings.iter().any(|(l, _)| *l == lhs) {
                    c.bindings.push((lhs.clone(), value.to_string()));
                    ledger.push(Record { object: c.id.clone().unwrap(), lhs: lhs.clone(), fate: Fate::Const { tag: tag.into(), text: value.to_string() } });
                    set_any = true;
                }
            }
        }
    }
    // explicit rows written by propgen become checkable too
    if matches!(o.class.as_str(), "QGridLayout" | "QFormLayout") {
        for c in &o.children {
            if let (Some(id), Some((_, v))) = (&c.id, c.bindings.iter().find(|(l, _)| l == "QLayout.row")) {
                for r in ledger.iter_mut().filter(|r| &r.object == id && r.lhs == "QLayout.row") {
                    r.fate = Fate::Const { tag: "item-row".into(), text: v.clone() };
                }
            }
        }
    }
    for c in &mut o.children {
        add_layout_attached(rng, c, ledger);
    }
}

/// After bindings were removed: a `separator` binding that became the action's only binding is a static separator (or the
/// F18 construct), one that has company must be set by the header.
pub fn normalise_separators(root: &Obj, records: &mut [Record]) {
    for o in root.pre_order() {
        if let (Some(id), Some((_, v))) = (&o.id, o.bindings.iter().find(|(l, _)| l == "separator")) {
            let tag = if o.bindings.len() == 1 { "separator" } else { "header-const" };
            for r in records.iter_mut().filter(|r| &r.object == id && r.lhs == "separator") {
                r.fate = Fate::Const { tag: tag.into(), text: v.clone() };
            }
        }
    }
}

/// document-level options: a quarter of the documents import with a version (WARNING "import version is ignored")
pub fn gen_opts(rng: &mut Rng) -> DocOpts {
    DocOpts { import_version: rng.chance(1, 4), path: None }
}

/// does the printed document make the translator emit a warning?
pub fn has_warning_construct(root: &Obj, opts: DocOpts) -> bool {
    opts.import_version || root.pre_order().iter().any(|o| o.bindings.iter().any(|(l, r)| l.starts_with("on") && r.contains("): void {")))
}

/// does the document hold a constant binding which only the support header can set (`separator` next to other bindings)?
pub fn has_header_const(records: &[Record]) -> bool {
    records.iter().any(|r| matches!(&r.fate, Fate::Const { tag, .. } if tag == "header-const"))
}

/// does the document contain an action whose only binding is `separator: false` (finding F18)?
pub fn has_separator_false_only(root: &Obj) -> bool {
    root.pre_order().iter().any(|o| o.bindings.len() == 1 && o.bindings[0].0 == "separator" && o.bindings[0].1 == "false")
}

/// Property types read from the metatypes (Qt 5 JSON + the translator's own tweaks), used to pick — by TYPE, not by name —
/// the properties whose value the .ui pass cannot serialise from a constant.
pub struct PropTable {
    /// class -> (own properties (name, type), super classes, attached class)
    classes: std::collections::HashMap<String, (Vec<(String, String)>, Vec<String>, Option<String>)>,
    /// (class, own property) that has both a READ and a WRITE function
    read_write: std::collections::HashSet<(String, String)>,
}

#[derive(Clone, Copy, Debug, PartialEq)]
pub enum ValueKind {
    /// a class / gadget without a scalar form in the .ui pass (QFont, QSizePolicy, QRect, QLocale, QIcon …)
    Class,
    Variant,
    /// pointer to an object class
    Pointer,
}

impl PropTable {
    fn load() -> PropTable {
        let mut classes = env::load_qt_classes();
        classes.extend(env::adversarial_classes());
        qmluic::metatype_tweak::apply_all(&mut classes);
        let mut m = std::collections::HashMap::new();
        let mut read_write = std::collections::HashSet::new();
        for c in classes {
            for p in c.properties.iter().filter(|p| p.read.is_some() && p.write.is_some()) {
                read_write.insert((c.qualified_class_name.clone(), p.name.clone()));
            }
            let props = c.properties.iter().map(|p| (p.name.clone(), p.r#type.clone())).collect();
            let supers = c.super_classes.iter().map(|s| s.name.clone()).collect();
            let attached = c.class_infos.iter().find(|i| i.name == "QML.Attached").map(|i| i.value.clone());
            m.insert(c.qualified_class_name.clone(), (props, supers, attached));
        }
        PropTable { classes: m, read_write }
    }

    /// all properties of a class incl. the inherited ones
    pub fn properties_of(&self, class: &str) -> Vec<(String, String)> {
        let mut out = vec![];
        let mut todo = vec![class.to_owned()];
        let mut seen = BTreeSet::new();
        while let Some(c) = todo.pop() {
            if !seen.insert(c.clone()) {
                continue;
            }
            if let Some((props, supers, _)) = self.classes.get(&c) {
                out.extend(props.iter().cloned());
                todo.extend(supers.iter().cloned());
            }
        }
        out
    }

    /// properties (incl. inherited) with READ and WRITE whose type is one of the scalar types: (name, type)
    pub fn scalar_read_write(&self, class: &str) -> Vec<(String, String)> {
        const SCALARS: [&str; 4] = ["QString", "int", "bool", "double"];
        let mut out = vec![];
        let mut todo = vec![class.to_owned()];
        let mut seen = BTreeSet::new();
        while let Some(c) = todo.pop() {
            if !seen.insert(c.clone()) {
                continue;
            }
            if let Some((props, supers, _)) = self.classes.get(&c) {
                out.extend(props.iter().filter(|(n, t)| SCALARS.contains(&t.as_str()) && self.read_write.contains(&(c.clone(), n.clone()))).cloned());
                todo.extend(supers.iter().cloned());
            }
        }
        out.sort();
        out.dedup();
        out
    }

    /// grouped properties whose gadget class has scalar read/write members: (group, member, member type)
    pub fn gadget_members_read_write(&self, class: &str) -> Vec<(String, String, String)> {
        let mut out = vec![];
        for (g, gt) in self.candidates(class, ValueKind::Class) {
            for (m, mt) in self.scalar_read_write(&gt) {
                out.push((g.clone(), m, mt));
            }
        }
        out
    }

    /// the class holding the attached properties of `class` (`QLayout` -> `QLayoutAttached`), searched up the super classes
    pub fn attached_class_of(&self, class: &str) -> Option<String> {
        let mut todo = vec![class.to_owned()];
        let mut seen = BTreeSet::new();
        while let Some(c) = todo.pop() {
            if !seen.insert(c.clone()) {
                continue;
            }
            if let Some((_, supers, att)) = self.classes.get(&c) {
                if att.is_some() {
                    return att.clone();
                }
                todo.extend(supers.iter().cloned());
            }
        }
        None
    }

    /// how the type of a property reads: a class the constant pass has no scalar form for, QVariant, or an object pointer
    pub fn value_kind(&self, ty: &str) -> Option<ValueKind> {
        // classes the constant pass does accept a scalar for: colour strings, cursor shapes, key sequences, pixmap paths
        const SCALAR_FORM: [&str; 5] = ["QBrush", "QColor", "QCursor", "QKeySequence", "QPixmap"];
        if ty == "QVariant" {
            Some(ValueKind::Variant)
        } else if let Some(t) = ty.strip_suffix('*') {
            if self.classes.contains_key(t.trim()) {
                Some(ValueKind::Pointer)
            } else {
                None
            }
        } else if self.classes.contains_key(ty) && !SCALAR_FORM.contains(&ty) {
            Some(ValueKind::Class)
        } else {
            None
        }
    }

    /// properties of `class` of the given kind
    pub fn candidates(&self, class: &str, kind: ValueKind) -> Vec<(String, String)> {
        let mut v: Vec<(String, String)> = self.properties_of(class).into_iter().filter(|(_, t)| self.value_kind(t) == Some(kind)).collect();
        v.sort();
        v.dedup();
        v
    }
}

pub fn prop_table() -> &'static PropTable {
    use std::sync::OnceLock;
    static T: OnceLock<PropTable> = OnceLock::new();
    T.get_or_init(PropTable::load)
}

pub const FAULT_KINDS: usize = 37;

struct Target<'a> {
    idx: usize,
    o: &'a Obj,
    parent: Option<&'a Obj>,
}

fn targets(root: &Obj) -> Vec<Target<'_>> {
    let mut v = vec![];
    fn go<'a>(o: &'a Obj, parent: Option<&'a Obj>, v: &mut Vec<Target<'a>>) {
        v.push(Target { idx: v.len(), o, parent });
        for c in &o.children {
            go(c, Some(o), v);
        }
    }
    go(root, None, &mut v);
    v
}

/// Plants fault `kind` at a random applicable object; `None` if the document has no applicable object.
/// The first fault of the result is the primary one; kinds that plant several bindings return one `Fault` per binding.
pub fn plant_fault(rng: &mut Rng, root: &Obj, kind: usize) -> Option<(Obj, Vec<Fault>)> {
    let ts = targets(root);
    let has = |o: &Obj, l: &str| o.bindings.iter().any(|(ll, _)| ll == l || ll.starts_with(&format!("{l}.")));
    let is_sep = |o: &Obj| o.bindings.iter().any(|(l, _)| l == "separator");
    let widgetish = |o: &Obj| matches!(family_of(&o.class), Family::Widget | Family::Menu) && o.class != "QButtonGroup";
    let is_view = |o: &Obj| matches!(o.class.as_str(), "QTableView" | "QTreeView");
    // properties of the object (resp. attached properties offered by its parent) picked by the TYPE the metatypes give them
    let typed_candidates = |o: &Obj, k: ValueKind| -> Vec<(String, String)> {
        // names handled by special consumers are not part of this class of faults
        const SPECIAL: [&str; 6] = ["actions", "model", "horizontalHeader", "verticalHeader", "header", "separator"];
        prop_table().candidates(&o.class, k).into_iter().filter(|(n, _)| !SPECIAL.contains(&n.as_str()) && !has(o, n)).collect()
    };
    // read/write scalar properties resp. gadget members, by type, that are not bound yet
    let dyn_scalars = |o: &Obj| -> Vec<(String, String)> { prop_table().scalar_read_write(&o.class).into_iter().filter(|(n, _)| !has(o, n) && n != "objectName").collect() };
    let dyn_members = |o: &Obj| -> Vec<(String, String, String)> {
        prop_table()
            .gadget_members_read_write(&o.class)
            .into_iter()
            .filter(|(g, m, _)| !o.bindings.iter().any(|(l, _)| l == g || *l == format!("{g}.{m}")))
            .collect()
    };
    // a dynamic expression whose type does not fit `ty`
    let misfit = |rng: &mut Rng, ty: &str| -> String {
        if ty == "QString" {
            (*rng.pick(&["srcSpin.value", "srcCheck.checked", "srcSpin.value + 1"])).to_owned()
        } else {
            (*rng.pick(&["srcEdit.text", "srcEdit.text + \"x\"", "srcCombo.currentText"])).to_owned()
        }
    };
    let attached_candidates = |p: &Obj, o: &Obj| -> Vec<(String, String, String)> {
        // only where the parent consumes the attached map (tab pages): elsewhere the binding is a left-over (another kind)
        if p.class != "QTabWidget" || !widgetish(o) {
            return vec![];
        }
        match prop_table().attached_class_of(&p.class) {
            Some(ac) => prop_table().candidates(&ac, ValueKind::Class).into_iter().filter(|(n, _)| !has(o, &format!("{}.{n}", p.class))).map(|(n, t)| (p.class.clone(), n, t)).collect(),
            None => vec![],
        }
    };
    let base = LeafSpec::default();
    let all = (true, true, true);
    // (name, lhs, rhs, spec, message, reported, flags(map, att, unresolved, unknown type), applicable)
    type Pred<'p> = Box<dyn Fn(&Target) -> bool + 'p>;
    let (name, lhs, rhs, spec, message, reported, flags, pred): (&'static str, String, String, LeafSpec, &'static str, (bool, bool, bool), (bool, bool, bool, bool), Pred) = match kind {
        0 => ("unknown-property", "noSuchProperty".into(), "1".into(), LeafSpec { enters: false, ..base }, "unknown property of class", all, (false, false, false, false), Box::new(|t| !is_sep(t.o) || true)),
        1 => ("ill-typed-constant", "enabled".into(), "\"yes\"".into(), LeafSpec { konst: Konst::Fail, ret_ok: false, ..base }, "expression type mismatch", all, (false, false, false, false), Box::new(|t| widgetish(t.o) && !has(t.o, "enabled"))),
        2 => ("ill-typed-expression", "toolTip".into(), "srcSpin.value + \"a\"".into(), LeafSpec { enters: false, ..base }, "incompatible types", all, (false, false, false, false), Box::new(|t| widgetish(t.o) && !has(t.o, "toolTip"))),
        3 => ("dynamic-type-mismatch", "toolTip".into(), "srcSpin.value".into(), LeafSpec { konst: Konst::Dyn, ret_ok: false, ..base }, "expression type mismatch", all, (false, false, false, false), Box::new(|t| widgetish(t.o) && !has(t.o, "toolTip"))),
        4 => ("unknown-signal", "onNoSuchSignal".into(), "srcEdit.clear()".into(), LeafSpec { enters: false, konst: Konst::Dyn, ..base }, "unknown signal of class", all, (false, false, false, false), Box::new(|_| true)),
        5 => ("too-many-parameters", "onClicked".into(), "function(a: bool, b: int) {}".into(), LeafSpec { enters: false, konst: Konst::Dyn, ..base }, "too many callback arguments", all, (false, false, false, false), Box::new(|t| matches!(t.o.class.as_str(), "QPushButton" | "QToolButton" | "QCheckBox" | "QRadioButton") && !has(t.o, "onClicked"))),
        6 => ("read-only-property", "fullScreen".into(), "true".into(), LeafSpec { writable: false, ..base }, "not a writable property", all, (false, false, false, false), Box::new(|t| widgetish(t.o))),
        7 => ("non-notifying-source", "enabled".into(), "srcCheck.isActiveWindow".into(), LeafSpec { build_diag: true, konst: Konst::Dyn, ..base }, "unobservable property", all, (false, false, false, false), Box::new(|t| widgetish(t.o) && !has(t.o, "enabled"))),
        8 => ("group-member-unknown", "font.noSuchMember".into(), "1".into(), LeafSpec { enters: false, ..base }, "unknown property of class 'QFont'", all, (false, false, false, false), Box::new(|t| widgetish(t.o))),
        9 => ("group-member-ill-typed", "font.italic".into(), "42".into(), LeafSpec { konst: Konst::Fail, ret_ok: false, ..base }, "expression type mismatch", all, (false, false, false, false), Box::new(|t| widgetish(t.o))),
        10 => ("attached-on-non-layout-parent", "QLayout.row".into(), "1".into(), LeafSpec { readable: false, writable: false, ..base }, "unused or unsupported dynamic binding to attached property", all, (false, false, false, false), Box::new(|t| t.parent.map(|p| widgetish(p) && p.class != "QTabWidget").unwrap_or(false) && !has(t.o, "QLayout"))),
        11 => ("unknown-attached-type", "NoSuchType.foo".into(), "1".into(), base.clone(), "unknown attaching type", all, (false, false, true, false), Box::new(|_| true)),
        12 => ("dynamic-attached", "QLayout.alignment".into(), "srcCheck.checked ? Qt.AlignLeft : Qt.AlignRight".into(), LeafSpec { konst: Konst::Dyn, readable: false, writable: false, ..base }, "unused or unsupported dynamic binding to attached property", all, (false, false, false, false), Box::new(|t| t.parent.map(|p| family_of(&p.class) == Family::Layout).unwrap_or(false) && !has(t.o, "QLayout.alignment"))),
        13 => ("dynamic-on-spacer", "orientation".into(), "srcCheck.checked ? Qt.Horizontal : Qt.Vertical".into(), LeafSpec { konst: Konst::Dyn, readable: false, writable: false, ..base }, "not a readable property", all, (false, false, false, false), Box::new(|t| t.o.class == "QSpacerItem" && !has(t.o, "orientation"))),
        14 => ("duplicated-binding", String::new(), String::new(), base.clone(), "duplicated binding", all, (true, false, false, false), Box::new(|t| !is_sep(t.o) && t.o.bindings.iter().any(|(l, _)| !l.contains('.') && !l.starts_with("on")))),
        15 => ("unknown-object-type", String::new(), String::new(), base.clone(), "unknown object type", all, (false, false, false, true), Box::new(|t| t.parent.is_some() && family_of(&t.o.class) != Family::Action && !t.o.pre_order().iter().any(|x| x.id.as_deref().map(|i| i.starts_with("src")).unwrap_or(false)))),
        16 => ("dynamic-rect-member", "geometry.x".into(), "srcSpin.value".into(), LeafSpec { konst: Konst::Dyn, readable: false, writable: false, ..base }, "not a readable property", all, (false, false, false, false), Box::new(|t| widgetish(t.o) && !has(t.o, "geometry"))),
        17 => ("stretch-without-policy", "sizePolicy.horizontalStretch".into(), "1".into(), base.clone(), "cannot specify stretch", all, (false, false, false, false), Box::new(|t| widgetish(t.o) && !has(t.o, "sizePolicy"))),
        18 => ("negative-layout-index", "QLayout.row".into(), "-1".into(), LeafSpec { range_ok: false, readable: false, writable: false, ..base }, "negative row is not allowed", all, (false, false, false, false), Box::new(|t| t.parent.map(|p| p.class == "QGridLayout").unwrap_or(false) && !has(t.o, "QLayout.row"))),
        19 => ("duplicated-attached-binding", String::new(), String::new(), base.clone(), "duplicated binding", all, (false, true, false, false), Box::new(|t| t.parent.map(|p| family_of(&p.class) == Family::Layout).unwrap_or(false) && t.o.bindings.iter().any(|(l, _)| l.starts_with("QLayout.")))),
        20 => ("faulty-binding-on-separator", "text".into(), "42".into(), LeafSpec { konst: Konst::Fail, ret_ok: false, ..base }, "expression type mismatch", all, (false, false, false, false), Box::new(|t| t.o.bindings.len() == 1 && t.o.bindings[0].0 == "separator" && t.o.bindings[0].1 == "true")),
        21 => ("dynamic-header-member", "HEADER.visible".into(), "srcCheck.checked".into(), LeafSpec { konst: Konst::Dyn, ..base }, "nested dynamic binding is not supported", all, (false, false, false, false), Box::new(|t| is_view(t.o) && !t.o.bindings.iter().any(|(l, _)| l.ends_with(".visible")))),
        22 => ("handler-in-object-map", "HEADER.onSectionClicked".into(), "function(i: int) {}".into(), LeafSpec { enters: false, konst: Konst::Dyn, ..base }, "attached/nested/gadget callback is not supported", all, (false, false, false, false), Box::new(|t| is_view(t.o))),
        23 => ("handler-in-gadget-map", "font.onFoo".into(), "srcEdit.clear()".into(), LeafSpec { enters: false, konst: Konst::Dyn, ..base }, "unknown signal of class 'QFont'", all, (false, false, false, false), Box::new(|t| widgetish(t.o))),
        24 => ("handler-in-attached-map", "QLayout.onFoo".into(), "srcEdit.clear()".into(), LeafSpec { enters: false, konst: Konst::Dyn, readable: false, writable: false, ..base }, "unknown signal of class 'QLayoutAttached'", all, (false, false, false, false), Box::new(|t| t.parent.map(|p| family_of(&p.class) == Family::Layout).unwrap_or(false))),
        25 => ("constant-on-class-typed-property", "TYPED:class".into(), String::new(), LeafSpec { konst: Konst::Fail, ret_ok: false, ..base }, "unsupported constant expression type", all, (false, false, false, false), Box::new(|t| !typed_candidates(t.o, ValueKind::Class).is_empty())),
        26 => ("constant-on-variant-property", "TYPED:variant".into(), String::new(), LeafSpec { konst: Konst::Fail, ret_ok: false, ..base }, "unsupported constant expression type: QVariant", all, (false, false, false, false), Box::new(|t| !typed_candidates(t.o, ValueKind::Variant).is_empty())),
        27 => ("non-object-on-pointer-property", "TYPED:pointer".into(), String::new(), LeafSpec { konst: Konst::Fail, ret_ok: false, ..base }, "expression type mismatch", all, (false, false, false, false), Box::new(|t| !typed_candidates(t.o, ValueKind::Pointer).is_empty())),
        28 => ("constant-on-class-typed-attached-property", "TYPED:attached".into(), String::new(), LeafSpec { konst: Konst::Fail, ret_ok: false, readable: false, writable: false, ..base }, "unsupported constant expression type", all, (false, false, false, false), Box::new(|t| t.parent.map(|p| !attached_candidates(p, t.o).is_empty()).unwrap_or(false))),
        29 => ("ill-typed-actions", "actions".into(), "SPECIAL:actions".into(), LeafSpec { konst: Konst::Fail, ret_ok: false, readable: false, writable: false, ..base }, "expression type mismatch", all, (false, false, false, false), Box::new(|t| widgetish(t.o) && t.o.class != "QTabWidget" && !has(t.o, "actions") && !t.o.children.iter().any(|c| is_sep(c)))),
        30 => ("ill-typed-model", "model".into(), "SPECIAL:scalar".into(), LeafSpec { konst: Konst::Fail, ret_ok: false, readable: false, writable: false, ..base }, "expression type mismatch", all, (false, false, false, false), Box::new(|t| matches!(t.o.class.as_str(), "QComboBox" | "QListWidget" | "QTableView" | "QTreeView") && !has(t.o, "model"))),
        31 => ("scalar-on-header-property", "HEADERPROP".into(), "SPECIAL:scalar".into(), LeafSpec { konst: Konst::Fail, ret_ok: false, readable: false, writable: false, ..base }, "not a properties map", all, (false, false, false, false), Box::new(|t| is_view(t.o) && !t.o.bindings.iter().any(|(l, _)| l.contains("eader")))),
        32 => ("ill-typed-separator", "separator".into(), "SPECIAL:nonbool".into(), LeafSpec { konst: Konst::Fail, ret_ok: false, ..base }, "expression type mismatch", all, (false, false, false, false), Box::new(|t| family_of(&t.o.class) == Family::Action && !has(t.o, "separator") && !t.parent.map(|p| has(p, "actions")).unwrap_or(false))),
        33 => ("dynamic-non-object-on-pointer-property", "TYPED:pointer".into(), "SPECIAL:dynscalar".into(), LeafSpec { konst: Konst::Dyn, ret_ok: false, ..base }, "expression type mismatch", all, (false, false, false, false), Box::new(|t| !typed_candidates(t.o, ValueKind::Pointer).is_empty())),
        34 => ("ill-typed-dynamic-gadget-member", "DYNMEMBER".into(), String::new(), LeafSpec { konst: Konst::Dyn, ret_ok: false, ..base }, "expression type mismatch", all, (false, false, false, false), Box::new(|t| widgetish(t.o) && !dyn_members(t.o).is_empty())),
        35 => ("ill-typed-dynamic-scalar", "DYNSCALAR".into(), String::new(), LeafSpec { konst: Konst::Dyn, ret_ok: false, ..base }, "expression type mismatch", all, (false, false, false, false), Box::new(|t| family_of(&t.o.class) != Family::Spacer && !dyn_scalars(t.o).is_empty())),
        _ => ("unknown-property-on-action-or-spacer", "noSuchProperty".into(), "1".into(), LeafSpec { enters: false, ..base }, "unknown property of class", all, (false, false, false, false), Box::new(|t| matches!(family_of(&t.o.class), Family::Action | Family::Spacer))),
    };
    // never touch the dynamic-expression sources (other bindings read them) and keep static separators static
    let cands: Vec<&Target> = ts
        .iter()
        .filter(|t| pred(t))
        .filter(|t| t.o.id.as_deref().map(|i| !i.starts_with("src")).unwrap_or(true))
        .filter(|t| !is_sep(t.o) || !spec.enters || kind == 20)
        .collect();
    if cands.is_empty() {
        return None;
    }
    let t = *rng.pick(&cands);
    let idx = t.idx;
    let (mut lhs, mut rhs) = (lhs, rhs);
    if flags.0 {
        let plain: Vec<&(String, String)> = t.o.bindings.iter().filter(|(l, _)| !l.contains('.') && !l.starts_with("on")).collect();
        let (l, r) = (*rng.pick(&plain)).clone();
        lhs = l;
        rhs = r;
    }
    if flags.1 {
        // prefer the positional attached bindings (row / column): losing them is what moves the siblings
        let mut att: Vec<&(String, String)> = t.o.bindings.iter().filter(|(l, _)| l == "QLayout.row" || l == "QLayout.column").collect();
        if att.is_empty() {
            att = t.o.bindings.iter().filter(|(l, _)| l.starts_with("QLayout.")).collect();
        }
        let (l, r) = (*rng.pick(&att)).clone();
        lhs = l;
        rhs = r;
    }
    // several handlers in one map: every one of them must be diagnosed
    let mut extra: Vec<(String, String)> = vec![];
    if (22..=24).contains(&kind) {
        let more: &[(&str, &str)] = match kind {
            22 => &[("HEADER.onSectionDoubleClicked", "srcEdit.clear()"), ("HEADER.onGeometriesChanged", "{ srcEdit.clear() }")],
            23 => &[("font.onBar", "function() {}"), ("font.onBaz", "srcEdit.selectAll()")],
            _ => &[("QLayout.onBar", "function() {}"), ("QLayout.onBaz", "srcEdit.selectAll()")],
        };
        for (l, r) in more.iter().take(rng.below(3)) {
            extra.push(((*l).to_owned(), (*r).to_owned()));
        }
    }
    // ill-typed variants of the dynamic values that are refused wherever they stand (nested object map, attached map)
    if (kind == 21 || kind == 12) && rng.chance(1, 2) {
        rhs = "srcEdit.text".to_owned();
    }
    if lhs == "DYNSCALAR" {
        let c = dyn_scalars(t.o);
        let (n, ty) = rng.pick(&c).clone();
        rhs = misfit(rng, &ty);
        lhs = n;
    } else if lhs == "DYNMEMBER" {
        let c = dyn_members(t.o);
        let (g, m, ty) = rng.pick(&c).clone();
        rhs = misfit(rng, &ty);
        lhs = format!("{g}.{m}");
    } else if lhs == "HEADERPROP" {
        lhs = if t.o.class == "QTreeView" { "header".to_owned() } else { (*rng.pick(&["horizontalHeader", "verticalHeader"])).to_owned() };
    }
    let special = rhs.strip_prefix("SPECIAL:").map(|x| x.to_owned());
    if let Some(k) = lhs.strip_prefix("TYPED:") {
        let value = (*rng.pick(&["1", "\"x\"", "true", "0.5"])).to_owned();
        let (l, ty) = match k {
            "attached" => {
                let c = attached_candidates(t.parent.unwrap(), t.o);
                let (pc, n, ty) = rng.pick(&c).clone();
                (format!("{pc}.{n}"), ty)
            }
            _ => {
                let kind = match k {
                    "class" => ValueKind::Class,
                    "variant" => ValueKind::Variant,
                    _ => ValueKind::Pointer,
                };
                let c = typed_candidates(t.o, kind);
                rng.pick(&c).clone()
            }
        };
        let _ = ty;
        lhs = l;
        // a pointer property bound to a scalar: any non-object constant
        rhs = value;
    }
    if let Some(k) = special {
        rhs = match k.as_str() {
            // not a list of actions: a single object, a string, a number, a list of the wrong objects
            "actions" => {
                let mut c: Vec<String> = vec!["\"open\"".into(), "1".into(), "srcEdit".into(), "[srcEdit]".into()];
                c.extend(t.o.children.iter().filter(|x| x.class == "QAction").filter_map(|x| x.id.clone()));
                rng.pick(&c).clone()
            }
            "scalar" => (*rng.pick(&["1", "\"x\"", "true", "srcEdit"])).to_owned(),
            "nonbool" => (*rng.pick(&["1", "\"x\"", "0.5"])).to_owned(),
            _ => (*rng.pick(&["srcEdit.text", "srcSpin.value", "srcSpin.value + 1"])).to_owned(),
        };
    }
    if lhs.starts_with("HEADER.") {
        let h = if t.o.class == "QTreeView" { "header" } else { *rng.pick(&["horizontalHeader", "verticalHeader"]) };
        lhs = lhs.replace("HEADER", h);
        for e in &mut extra {
            e.0 = e.0.replace("HEADER", h);
        }
    }
    let mut new_root = root.clone();
    fn nth<'a>(o: &'a mut Obj, n: &mut usize) -> Option<&'a mut Obj> {
        if *n == 0 {
            return Some(o);
        }
        *n -= 1;
        for c in &mut o.children {
            if let Some(x) = nth(c, n) {
                return Some(x);
            }
        }
        None
    }
    let mut n = idx;
    let target = nth(&mut new_root, &mut n).unwrap();
    if flags.3 {
        target.class = "NopeType".into();
    } else {
        target.bindings.push((lhs.clone(), rhs.clone()));
        for e in &extra {
            target.bindings.push(e.clone());
        }
    }
    let mk = |lhs: String, rhs: String| Fault { name, obj: idx, lhs, rhs, spec: spec.clone(), map_fault: flags.0, att_fault: flags.1, att_unresolved: flags.2, unknown_type: flags.3, message, reported };
    let mut faults = vec![mk(lhs, rhs)];
    for (l, r) in extra {
        faults.push(mk(l, r));
    }
    Some((new_root, faults))
}

pub fn tables_of(doc: &Doc) -> Vec<Sexp> {
    // reuse the encoding of the model request
    let r = doc.request(Mode::Generate);
    let (_, args) = r.as_node().unwrap();
    args[2..].to_vec()
}

fn fates_sexp(doc: &Doc) -> Sexp {
    node(
        "fates",
        doc.bindings
            .iter()
            .filter_map(|b| {
                b.fate.as_ref().map(|f| match f {
                    Fate::Const { tag, text } => list(vec![num(b.id), atom("const"), st(tag.clone()), st(text.clone())]),
                    Fate::Dynamic => list(vec![num(b.id), atom("dynamic"), st(""), st("")]),
                    Fate::Callback { signal } => list(vec![num(b.id), atom("callback"), st(signal.clone()), st("")]),
                    Fate::LayoutPseudo => list(vec![num(b.id), atom("pseudo"), st(""), st("")]),
                })
            })
            .collect(),
    )
}

pub fn fault_sexp(doc: &Doc, f: &Fault, cli: bool) -> Sexp {
    // subject range: the planted binding, or the type name of the retagged object
    let (s, e) = if f.unknown_type {
        doc.objs[f.obj].type_range
    } else {
        doc.bindings.iter().rev().find(|b| b.obj == f.obj && b.lhs == f.lhs && b.rhs == f.rhs).map(|b| b.range).unwrap()
    };
    node("fault", vec![st(f.name), num(s), num(e), st(f.message), boolean(f.reported.0), boolean(f.reported.1), boolean(f.reported.2), boolean(cli)])
}

/// ranges of the additional planted bindings: `(also (start end "message")…)`
pub fn also_sexp(doc: &Doc, faults: &[Fault]) -> Sexp {
    node(
        "also",
        faults
            .iter()
            .skip(1)
            .map(|f| {
                let (s, e) = doc.bindings.iter().rev().find(|b| b.obj == f.obj && b.lhs == f.lhs && b.rhs == f.rhs).map(|b| b.range).unwrap();
                list(vec![num(s), num(e), st(f.message)])
            })
            .collect(),
    )
}

impl Stream for C04 {
    fn generate(&self, seed: u64, thorough: bool) -> Vec<Case> {
        let mut cases = vec![];
        let n = if thorough { 30_000 } else { 3_000 };
        for k in 0..n {
            let mut rng = Rng::fork(seed, "c04", k as u64);
            let (root, records) = gen_clean(&mut rng);
            let opts = gen_opts(&mut rng);
            let doc = Doc::build_opts(&root, &records, &[], opts);
            let mut labels = vec![format!("objects{}", doc.objs.len() / 10 * 10), format!("bindings{}", doc.bindings.len() / 20 * 20), "clean".to_string()];
            if has_separator_false_only(&root) {
                labels.push("separator-false-only".into());
            }
            let warns = has_warning_construct(&root, opts);
            if warns {
                labels.push("with-warning".into());
            }
            if has_header_const(&records) {
                labels.push("header-const".into());
            }
            // the real CLI on a sample of clean documents (exit 0, outputs = in-process outputs), warnings preferred
            let cli_clean = if warns { k % 12 == 3 } else { k % 60 == 3 };
            let mut args = tables_of(&doc);
            args.push(fates_sexp(&doc));
            args.push(node("cli", vec![boolean(cli_clean)]));
            let mut l1 = labels.clone();
            if cli_clean {
                l1.push("cli".into());
            }
            cases.push(Case { kind: "oracle", labels: l1, request: node("c04-ledger", args) });
            cases.push(Case { kind: "model", labels, request: doc.request(Mode::Generate) });
            // the same document with one fault
            let kind = (k + rng.below(3) * 7) % FAULT_KINDS;
            if let Some((froot, faults)) = plant_fault(&mut rng, &root, kind) {
                let fault = &faults[0];
                let fdoc = Doc::build_opts(&froot, &records, &faults, opts);
                let mut labels = vec![format!("fault:{}", fault.name), format!("at:{}", fdoc.objs[fault.obj].class)];
                if warns {
                    labels.push("with-warning".into());
                }
                if faults.len() > 1 {
                    labels.push(format!("planted{}", faults.len()));
                }
                let cli = if warns { k % 6 == 0 } else { k % 18 == 0 };
                let mut args = tables_of(&fdoc);
                args.push(fault_sexp(&fdoc, fault, cli));
                args.push(also_sexp(&fdoc, &faults));
                let mut l2 = labels.clone();
                if cli {
                    l2.push("cli".into());
                }
                cases.push(Case { kind: "oracle", labels: l2, request: node("c04-fault", args) });
                cases.push(Case { kind: "model", labels, request: fdoc.request(Mode::Generate) });
            }
        }
        cases
    }

    fn answer(&self, req: &Sexp) -> Sexp {
        let (tag, args) = req.as_node().expect("request node");
        match tag {
            "passes" => ledger::real_answer(&self.tm, req),
            "c04-ledger" => ledger_oracle(&self.tm, args),
            "c04-fault" => fault_oracle(&self.tm, args),
            "c04-witness" => witness_request(args[0].as_str().unwrap()),
            _ => node("bad-request", vec![]),
        }
    }
}

fn fail(msg: String) -> Sexp {
    node("fail", vec![st(msg)])
}

/// Does the value found in the .ui match what the ledger says?
fn value_matches(tag: &str, text: &str, found: &(String, String)) -> bool {
    let (ftag, ftext) = (found.0.as_str(), found.1.as_str());
    match tag {
        "any" => true,
        "string-any" => ftext == text,
        "string" => ftag == "string" && ftext == text,
        "string-notr" => ftag == "string-notr" && ftext == text,
        "separator" => ftext == "true",
        "actions" => {
            // explicit list: the addaction names in order (static separators never listed by the generator)
            ftext == text
        }
        "items" => ftext == text,
        "item-alignment" => ftag == "item-alignment" && ftext == text,
        // the value stands at some index of the attribute of the parent <layout> (the index is C12's subject)
        "layout-array" => ftag == "layout-array" && ftext.split(',').any(|x| x == text),
        "attr-hsizetype" | "attr-vsizetype" | "attr-theme" => ftag == tag && ftext == text,
        "number" => ftext == text || ftext.parse::<f64>().ok() == text.parse::<f64>().ok(),
        "enum" | "set" => ftext == text || ftext.ends_with(text.rsplit("::").next().unwrap_or(text)),
        _ => ftag == tag && ftext == text,
    }
}

fn decode_doc(args: &[Sexp]) -> (ledger::Tables, Doc) {
    let t = ledger::decode_tables(args);
    let doc = Doc {
        src: t.src.clone(),
        objs: t
            .objs
            .iter()
            .map(|o| ledger::ObjInfo {
                oid: o.0,
                class: o.7.clone(),
                name: if o.1.is_empty() { None } else { Some(o.1.clone()) },
                parent: if o.6 >= 0 { Some(o.6 as usize) } else { None },
                range: (o.2, o.3),
                type_range: (o.4, o.5),
                resolves: true,
                map_fault: false,
                att_fault: false,
            })
            .collect(),
        bindings: t
            .binds
            .iter()
            .map(|b| ledger::Binding { id: b.0, obj: b.1, lhs: b.2.clone(), rhs: String::new(), kind: ledger::split_kind_pub(&b.2), spec: LeafSpec::default(), fate: None, planted: false, range: (b.3, b.4) })
            .collect(),
        path: None,
    };
    (t, doc)
}

fn ledger_oracle(tm: &TypeMap, args: &[Sexp]) -> Sexp {
    let (_t, doc) = decode_doc(args);
    let fates = args.iter().find_map(|a| a.as_node().filter(|(t, _)| *t == "fates").map(|(_, xs)| xs.to_vec())).unwrap_or_default();
    let (tr, flags, lib_has_error) = ledger::translate_with_flags_checked(tm, &doc.src, Mode::Generate);
    if let Some(m) = ledger::has_error_mismatch(&tr, lib_has_error) {
        return fail(m);
    }
    if !ledger::lib_accepted(&tr, lib_has_error) {
        return fail(format!("clean document not accepted: {:?}", tr.diags.iter().map(|d| d.message.clone()).collect::<Vec<_>>()));
    }
    let n_warnings = tr.diags.iter().filter(|d| !d.is_error).count();
    let ui = match xml::parse(tr.ui.as_ref().unwrap()) {
        Ok(u) => u,
        Err(e) => return fail(format!("ui not well-formed: {e}")),
    };
    let scan = ledger::scan_header(tr.header.as_ref().unwrap());
    let mut expected_props: std::collections::BTreeMap<String, BTreeSet<String>> = Default::default();
    let mut expected_updates: BTreeSet<String> = BTreeSet::new();
    let mut expected_ons: BTreeSet<String> = BTreeSet::new();
    let (mut n_const, mut n_dyn, mut n_cb, mut n_rep, mut n_pseudo, mut n_hdr) = (0, 0, 0, 0, 0, 0);
    // bindings found in neither output although the document was accepted without a diagnostic (reported last, so that
    // any other imbalance of the same document is reported first)
    let mut neither: Vec<String> = vec![];
    // groups with a dynamic member
    let dynamic_groups: BTreeSet<(usize, String)> = fates
        .iter()
        .filter_map(|f| {
            let l = f.as_list().unwrap();
            let b = doc.bindings.iter().find(|b| b.id == l[0].as_usize().unwrap())?;
            match (&b.kind, l[1].as_atom().unwrap()) {
                (BKind::Member { group, .. }, "dynamic") => Some((b.obj, group.clone())),
                _ => None,
            }
        })
        .collect();
    for f in &fates {
        let l = f.as_list().unwrap();
        let id = l[0].as_usize().unwrap();
        let b = doc.bindings.iter().find(|b| b.id == id).unwrap();
        let oname = doc.objs[b.obj].name.clone().unwrap_or_default();
        let found = ledger::locate(&ui, &doc, b);
        let names = ledger::header_names(&doc, b);
        let ec = ledger::flag_key(&doc, b).and_then(|k| flags.get(&k).copied());
        let what = format!("{}.{}", oname, b.lhs);
        match l[1].as_atom().unwrap() {
            "const" => {
                n_const += 1;
                let (tag, text) = (l[2].as_str().unwrap(), l[3].as_str().unwrap());
                if tag == "header-const" {
                    // constant, but excluded from the .ui and never evaluated: the support header must set it
                    let Some((top, _)) = &names else {
                        return fail(format!("header-only constant {what} has no header name"));
                    };
                    if !scan.update_fns.contains(top) {
                        return fail(format!("header-only constant {what}: no update{top}() in the header"));
                    }
                    if found.is_some() {
                        return fail(format!("header-only constant {what} also shows in the .ui"));
                    }
                    if ec != Some(false) {
                        return fail(format!("header-only constant {what}: evaluated-constant flag is {ec:?}"));
                    }
                    expected_updates.insert(top.clone());
                    n_hdr += 1;
                    continue;
                }
                if tag == "separator" && text == "false" {
                    // cannot be a value of the .ui (`separator` is no Q_PROPERTY): it takes effect iff the header sets it
                    match &names {
                        Some((top, _)) if scan.update_fns.contains(top) => {
                            expected_updates.insert(top.clone());
                        }
                        _ => neither.push(what.clone()),
                    }
                    continue;
                }
                let Some(found) = found else {
                    return fail(format!("constant binding {what} not found in the .ui"));
                };
                if !value_matches(tag, text, &found) {
                    return fail(format!("constant binding {what}: ledger says <{tag}>{text}, .ui has <{}>{}", found.0, found.1));
                }
                if ec != Some(true) {
                    return fail(format!("constant binding {what}: evaluated-constant flag is {ec:?}"));
                }
                // not in the header, except as a constant member of a group with a dynamic member
                if let Some((top, member)) = &names {
                    match (&b.kind, member) {
                        (BKind::Member { group, .. }, Some(m)) => {
                            let dynamic_sibling = dynamic_groups.contains(&(b.obj, group.clone()));
                            if scan.eval_fns.contains(m) != dynamic_sibling {
                                return fail(format!("constant member {what}: repeated in header = {}, group has a dynamic member = {dynamic_sibling}", scan.eval_fns.contains(m)));
                            }
                            if dynamic_sibling {
                                n_rep += 1;
                                expected_updates.insert(top.clone());
                            }
                        }
                        _ => {
                            if scan.update_fns.contains(top) {
                                return fail(format!("constant binding {what} also has update code"));
                            }
                        }
                    }
                }
                let e = expected_props.entry(oname.clone()).or_default();
                match &b.kind {
                    BKind::Plain => {
                        e.insert(if b.lhs == "default_" { "default".into() } else { b.lhs.clone() });
                    }
                    BKind::Member { group, member } => {
                        e.insert(group.clone());
                        e.insert(format!("{member}Margin"));
                        e.insert(format!("{group}{}", ledger::capitalize(member)));
                    }
                    BKind::Attached { name, .. } => {
                        e.insert(name.clone());
                    }
                    BKind::AttachedMember { group, .. } => {
                        e.insert(group.clone());
                    }
                    _ => {}
                }
            }
            "pseudo" => {
                n_pseudo += 1;
                if ec != Some(true) {
                    return fail(format!("layout pseudo binding {what}: evaluated-constant flag is {ec:?}"));
                }
            }
            "dynamic" => {
                n_dyn += 1;
                if ec != Some(false) {
                    return fail(format!("dynamic binding {what}: evaluated-constant flag is {ec:?}"));
                }
                let Some((top, member)) = names else {
                    return fail(format!("dynamic binding {what} has no header name"));
                };
                if !scan.update_fns.contains(&top) {
                    return fail(format!("dynamic binding {what}: no update{top}() in the header"));
                }
                if let Some(m) = member {
                    if !scan.eval_fns.contains(&m) {
                        return fail(format!("dynamic member {what}: no eval{m}() in the header"));
                    }
                    // the group itself is embedded (with its constant members), the dynamic member is not
                    if found.is_some() {
                        return fail(format!("dynamic member {what} also has a value in the .ui"));
                    }
                    expected_props.entry(oname.clone()).or_default().insert(match &b.kind {
                        BKind::Member { group, .. } => group.clone(),
                        _ => unreachable!(),
                    });
                } else if found.is_some() {
                    return fail(format!("dynamic binding {what} also has a value in the .ui"));
                }
                expected_updates.insert(top);
            }
            "callback" => {
                n_cb += 1;
                let (top, _) = names.unwrap();
                let sig = l[2].as_str().unwrap();
                let connects: Vec<_> = scan.callback_connects.iter().filter(|c| c.2 == top).collect();
                if connects.len() != 1 {
                    return fail(format!("handler {what}: {} connects to on{top}", connects.len()));
                }
                let c = connects[0];
                if !(c.0 == format!("this->ui_->{oname}") || (b.obj == 0 && c.0 == "this->root_")) {
                    return fail(format!("handler {what}: connected on {}", c.0));
                }
                if !c.1.contains(&format!("::{sig}")) {
                    return fail(format!("handler {what}: connected to {}", c.1));
                }
                if !scan.on_fns.contains(&top) {
                    return fail(format!("handler {what}: no on{top}() function"));
                }
                expected_ons.insert(top);
            }
            _ => {}
        }
    }
    // conversely: nothing in the outputs without a ledger record
    for (obj, props) in ledger::ui_inventory(&ui) {
        let exp = expected_props.get(&obj).cloned().unwrap_or_default();
        for p in props {
            if !exp.contains(&p) {
                return fail(format!(".ui has property {obj}.{p} without a ledger record"));
            }
        }
    }
    if let Some(x) = scan.update_fns.iter().find(|u| !expected_updates.contains(*u)) {
        return fail(format!("header has update{x}() without a ledger record"));
    }
    if let Some(x) = scan.on_fns.iter().find(|u| !expected_ons.contains(*u)) {
        return fail(format!("header has on{x}() without a ledger record"));
    }
    if scan.callback_connects.len() != expected_ons.len() {
        return fail(format!("{} callback connects for {} handlers", scan.callback_connects.len(), expected_ons.len()));
    }
    if let Some(first) = neither.first() {
        return fail(format!(
            "binding in neither .ui nor header and no diagnostic: {first} (QAction whose only binding is 'separator: false'); {} such binding(s)",
            neither.len()
        ));
    }
    // a sample through the real CLI: a clean document (possibly with warnings) exits 0 and its outputs are the in-process ones
    let cli = args.iter().find_map(|a| a.as_node().filter(|(t, _)| *t == "cli").and_then(|(_, xs)| xs[0].as_bool())).unwrap_or(false);
    let mut cli_runs = 0;
    if cli {
        if let Err(e) = cli_clean_check(&doc.src, tr.ui.as_ref().unwrap(), tr.header.as_ref().unwrap(), n_warnings) {
            return fail(format!("clean document with {n_warnings} warning(s): CLI: {e}"));
        }
        cli_runs = 1;
    }
    node(
        "ok",
        vec![atom("const"), num(n_const), atom("dynamic"), num(n_dyn), atom("callbacks"), num(n_cb), atom("repeated"), num(n_rep), atom("pseudo"), num(n_pseudo), atom("header-const"), num(n_hdr), atom("warnings"), num(n_warnings), atom("cli"), num(cli_runs)],
    )
}

pub struct FaultInfo {
    pub name: String,
    pub range: (usize, usize),
    pub message: String,
    pub reported: (bool, bool, bool),
    pub cli: bool,
}

pub fn decode_fault(args: &[Sexp]) -> FaultInfo {
    let f = args.iter().find_map(|a| a.as_node().filter(|(t, _)| *t == "fault").map(|(_, xs)| xs.to_vec())).unwrap();
    FaultInfo {
        name: f[0].as_str().unwrap().to_owned(),
        range: (f[1].as_usize().unwrap(), f[2].as_usize().unwrap()),
        message: f[3].as_str().unwrap().to_owned(),
        reported: (f[4].as_bool().unwrap(), f[5].as_bool().unwrap(), f[6].as_bool().unwrap()),
        cli: f[7].as_bool().unwrap(),
    }
}

fn fault_oracle(tm: &TypeMap, args: &[Sexp]) -> Sexp {
    let t = ledger::decode_tables(args);
    let f = decode_fault(args);
    let also: Vec<(usize, usize, String)> = args
        .iter()
        .find_map(|a| a.as_node().filter(|(t, _)| *t == "also").map(|(_, xs)| xs.to_vec()))
        .unwrap_or_default()
        .iter()
        .map(|x| {
            let l = x.as_list().unwrap();
            (l[0].as_usize().unwrap(), l[1].as_usize().unwrap(), l[2].as_str().unwrap().to_owned())
        })
        .collect();
    let (tr, lib_has_error) = ledger::translate_checked(tm, &t.src, Mode::Generate);
    if tr.syntax_errors > 0 {
        return fail("syntax error in generated document".into());
    }
    let n_warnings = tr.diags.iter().filter(|d| !d.is_error).count();
    // every planted binding must be diagnosed inside its own text
    let mut n_inside = 0;
    let mut planted = vec![(f.range.0, f.range.1, f.message.clone())];
    planted.extend(also);
    // failures of a known class are reported last
    let mut anchored_elsewhere: Option<String> = None;
    for (k, (s, e, message)) in planted.iter().enumerate() {
        let inside: Vec<&env::Diag> = tr.diags.iter().filter(|d| d.is_error && *s <= d.start && d.end <= *e).collect();
        if inside.is_empty() {
            // is the expected error anchored at another member of the same group of the same object?
            let me = t.binds.iter().find(|b| b.3 == *s && b.4 == *e);
            let sibling = me.and_then(|me| {
                t.binds.iter().filter(|b| b.0 != me.0 && b.1 == me.1 && b.5 == me.5 && b.2.contains('.')).find(|b| tr.diags.iter().any(|d| d.is_error && d.message.contains(message) && b.3 <= d.start && d.end <= b.4))
            });
            if let (Some(me), Some(sib)) = (me, sibling) {
                anchored_elsewhere = Some(format!("fault {}: the error '{message}' for '{}' is anchored inside another member of the same group ('{}'), not inside the faulty binding", f.name, me.2, sib.2));
                continue;
            }
            return fail(format!("fault {} (planted binding {k}): no error diagnostic inside {:?}; diagnostics: {:?}", f.name, (s, e), tr.diags.iter().map(|d| format!("{}..{} {}", d.start, d.end, d.message)).collect::<Vec<_>>()));
        }
        if !inside.iter().any(|d| d.message.contains(message)) {
            return fail(format!("fault {} (planted binding {k}): expected message '{message}', got {:?}", f.name, inside.iter().map(|d| d.message.clone()).collect::<Vec<_>>()));
        }
        n_inside += inside.len();
    }
    if let Some(m) = ledger::has_error_mismatch(&tr, lib_has_error) {
        return fail(format!("fault {}: {m}", f.name));
    }
    if ledger::lib_accepted(&tr, lib_has_error) {
        return fail(format!("fault {}: document accepted", f.name));
    }
    // the set of diagnostics does not depend on the iteration order of the maps: a second run reports the same
    let key = |t: &env::Translation| {
        let mut v: Vec<(bool, usize, usize, String)> = t.diags.iter().map(|d| (d.is_error, d.start, d.end, d.message.clone())).collect();
        v.sort();
        v
    };
    let (tr2, _) = ledger::translate_checked(tm, &t.src, Mode::Generate);
    if key(&tr) != key(&tr2) {
        return fail(format!("fault {}: two runs report different diagnostics", f.name));
    }
    let mut cli_runs = 0;
    if f.cli {
        if let Err(e) = cli_check(&t.src) {
            return fail(format!("fault {} (document with {n_warnings} warning(s)): CLI: {e}", f.name));
        }
        cli_runs = 1;
    }
    if let Some(m) = anchored_elsewhere {
        return fail(m);
    }
    node("ok", vec![atom("errors-inside"), num(n_inside), atom("planted"), num(planted.len()), atom("warnings"), num(n_warnings), atom("cli"), num(cli_runs)])
}

/// Runs the real CLI on a clean document `MyType.qml` (with a stale `mytype.ui`): exit status 0, both outputs written and
/// byte-identical to the in-process outputs, warnings (if any) printed.
fn cli_clean_check(src: &str, ui: &str, header: &str, n_warnings: usize) -> Result<(), String> {
    use std::fs;
    use std::process::Command;
    let bin = env::cli_binary();
    let dir = tempfile::Builder::new().prefix("qv-c04-").tempdir_in(std::env::temp_dir()).map_err(|e| e.to_string())?;
    let p = dir.path();
    fs::write(p.join("MyType.qml"), src).map_err(|e| e.to_string())?;
    fs::write(p.join("mytype.ui"), "STALE UI\n").map_err(|e| e.to_string())?;
    let out = Command::new(&bin)
        .current_dir(p)
        .arg("generate-ui")
        .arg("--foreign-types")
        .arg(format!("{}/contrib/metatypes", env::REPO))
        .arg("MyType.qml")
        .env("NO_COLOR", "1")
        .output()
        .map_err(|e| format!("cannot run {}: {e}", bin.display()))?;
    let stderr = String::from_utf8_lossy(&out.stderr).into_owned();
    let res = (|| {
        if out.status.code() != Some(0) {
            return Err(format!("exit status {:?}, stderr: {}", out.status.code(), stderr.chars().take(400).collect::<String>()));
        }
        if fs::read_to_string(p.join("mytype.ui")).map_err(|e| format!("mytype.ui: {e}"))? != ui {
            return Err("mytype.ui differs from the in-process .ui".into());
        }
        if fs::read_to_string(p.join("uisupport_mytype.h")).map_err(|e| format!("uisupport_mytype.h: {e}"))? != header {
            return Err("uisupport_mytype.h differs from the in-process header".into());
        }
        if stderr.matches("warning: ").count() != n_warnings {
            return Err(format!("{} warning(s) printed, {n_warnings} recorded in-process", stderr.matches("warning: ").count()));
        }
        if stderr.contains("error: ") {
            return Err("an error was printed for a clean document".into());
        }
        Ok(())
    })();
    drop(dir);
    res
}

/// Runs the real CLI on [Good.qml, Faulty.qml] with pre-existing outputs of the faulty source: exit status 1, the
/// faulty source's outputs neither created nor modified (content + mtime), the valid source's outputs written.
fn cli_check(faulty_src: &str) -> Result<(), String> {
    use std::fs;
    use std::process::Command;
    let bin = env::cli_binary();
    let dir = tempfile::Builder::new().prefix("qv-c04-").tempdir_in(std::env::temp_dir()).map_err(|e| e.to_string())?;
    let p = dir.path();
    let good = "import qmluic.QtWidgets\n\nQWidget {\n    QLabel { id: hello; text: \"hello\" }\n}\n";
    fs::write(p.join("Good.qml"), good).map_err(|e| e.to_string())?;
    // a valid source with a WARNING only (versioned import): still written
    fs::write(p.join("Other.qml"), good.replace("import qmluic.QtWidgets\n", "import qmluic.QtWidgets 6.2\n")).map_err(|e| e.to_string())?;
    fs::write(p.join("Faulty.qml"), faulty_src).map_err(|e| e.to_string())?;
    // pre-existing outputs of the faulty source (one of the two, so that both "not created" and "not modified" are seen)
    fs::write(p.join("faulty.ui"), "STALE UI\n").map_err(|e| e.to_string())?;
    let stale_mtime = fs::metadata(p.join("faulty.ui")).and_then(|m| m.modified()).map_err(|e| e.to_string())?;
    std::thread::sleep(std::time::Duration::from_millis(15));
    let out = Command::new(&bin)
        .current_dir(p)
        .arg("generate-ui")
        .arg("--foreign-types")
        .arg(format!("{}/contrib/metatypes", env::REPO))
        .args(["Good.qml", "Faulty.qml", "Other.qml"])
        .env("NO_COLOR", "1")
        .output()
        .map_err(|e| format!("cannot run {}: {e}", bin.display()))?;
    let code = out.status.code();
    let res = (|| {
        if code != Some(1) {
            return Err(format!("exit status {code:?}, stderr: {}", String::from_utf8_lossy(&out.stderr).chars().take(400).collect::<String>()));
        }
        if fs::read_to_string(p.join("faulty.ui")).map_err(|e| e.to_string())? != "STALE UI\n" {
            return Err("pre-existing faulty.ui was modified".into());
        }
        if fs::metadata(p.join("faulty.ui")).and_then(|m| m.modified()).map_err(|e| e.to_string())? != stale_mtime {
            return Err("mtime of pre-existing faulty.ui changed".into());
        }
        if p.join("uisupport_faulty.h").exists() {
            return Err("uisupport_faulty.h was created".into());
        }
        for g in ["good.ui", "uisupport_good.h", "other.ui", "uisupport_other.h"] {
            if !p.join(g).exists() {
                return Err(format!("{g} of a valid source in the same run is missing"));
            }
        }
        let names: BTreeSet<String> = fs::read_dir(p).map_err(|e| e.to_string())?.filter_map(|e| e.ok()).map(|e| e.file_name().to_string_lossy().into_owned()).collect();
        let expect: BTreeSet<String> = ["Good.qml", "Other.qml", "Faulty.qml", "faulty.ui", "good.ui", "uisupport_good.h", "other.ui", "uisupport_other.h"].iter().map(|s| s.to_string()).collect();
        if names != expect {
            return Err(format!("directory listing {names:?}"));
        }
        Ok(())
    })();
    drop(dir);
    res
}

/// Builds the model requests of the hand-written witnesses kept in corpus/ (used once, to write the corpus files).
fn witness_request(name: &str) -> Sexp {
    let root = |children: Vec<Obj>| {
        let mut r = Obj::new("QWidget").with_id("root");
        r.children = children;
        r
    };
    match name {
        // C04: the only binding of an action evaluates to `false`: consumed by nobody, no diagnostic
        "separator-false" => Doc::build(&root(vec![Obj::new("QAction").with_id("a").bind("separator", "false")]), &[], &[]).request(Mode::Generate),
        // C20: an entering faulty binding next to `separator: true` turns the static separator into an action
        "separator-plus-fault" => {
            let f = Fault { name: "ill-typed-constant", obj: 1, lhs: "text".into(), rhs: "42".into(), spec: LeafSpec { konst: Konst::Fail, ret_ok: false, ..LeafSpec::default() }, map_fault: false, att_fault: false, att_unresolved: false, unknown_type: false, message: "expression type mismatch", reported: (true, true, true) };
            Doc::build(&root(vec![Obj::new("QAction").with_id("a").bind("separator", "true").bind("text", "42")]), &[], &[f]).request(Mode::Omit)
        }
        "separator-false-ledger" => {
            let r = root(vec![Obj::new("QAction").with_id("a").bind("separator", "false")]);
            let recs = vec![Record { object: "a".into(), lhs: "separator".into(), fate: Fate::Const { tag: "separator".into(), text: "false".into() } }];
            let doc = Doc::build(&r, &recs, &[]);
            let mut args = tables_of(&doc);
            args.push(fates_sexp(&doc));
            node("c04-ledger", args)
        }
        // F44: the error for a dynamic member of a nested object map is anchored at the first member of the group
        "nested-dynamic-anchor" | "warning-plus-error" | "nested-handlers" | "header-const" => {
            let mk = |lhs: &str, rhs: &str, spec: LeafSpec, message: &'static str| Fault { name: "witness", obj: 2, lhs: lhs.into(), rhs: rhs.into(), spec, map_fault: false, att_fault: false, att_unresolved: false, unknown_type: false, message, reported: (true, true, true) };
            let view = Obj::new("QTableView").with_id("t").bind("horizontalHeader.defaultSectionSize", "50");
            let check = Obj::new("QCheckBox").with_id("srcCheck");
            match name {
                "nested-dynamic-anchor" => {
                    let mut f = mk("horizontalHeader.visible", "srcCheck.checked", LeafSpec { konst: Konst::Dyn, ..LeafSpec::default() }, "nested dynamic binding is not supported");
                    f.name = "dynamic-header-member";
                    let r = root(vec![check, view.bind("horizontalHeader.visible", "srcCheck.checked")]);
                    let doc = Doc::build(&r, &[], std::slice::from_ref(&f));
                    let mut args = tables_of(&doc);
                    args.push(fault_sexp(&doc, &f, false));
                    node("c04-fault", args)
                }
                // class (a): a WARNING (versioned import, return type annotation) next to an error; through the real CLI
                "warning-plus-error" => {
                    let mut f = mk("noSuchProperty", "1", LeafSpec { enters: false, ..LeafSpec::default() }, "unknown property of class");
                    f.name = "unknown-property";
                    let b = Obj::new("QPushButton").with_id("b").bind("onClicked", "function(c: bool): void { srcCheck.checked = c }").bind("noSuchProperty", "1");
                    let r = root(vec![check, b]);
                    let doc = Doc::build_opts(&r, &[], std::slice::from_ref(&f), DocOpts { import_version: true, path: None });
                    let mut args = tables_of(&doc);
                    args.push(fault_sexp(&doc, &f, true));
                    node("c04-fault", args)
                }
                // class (d): several handlers inside one nested object map: every one is diagnosed
                "nested-handlers" => {
                    let spec = LeafSpec { enters: false, konst: Konst::Dyn, ..LeafSpec::default() };
                    let hs = [("horizontalHeader.onSectionClicked", "function(i: int) {}"), ("horizontalHeader.onSectionDoubleClicked", "srcCheck.toggle()"), ("horizontalHeader.onGeometriesChanged", "{ srcCheck.toggle() }")];
                    let mut v = view;
                    let mut fs = vec![];
                    for (l, r) in hs {
                        v = v.bind(l, r);
                        let mut f = mk(l, r, spec.clone(), "attached/nested/gadget callback is not supported");
                        f.name = "handler-in-object-map";
                        fs.push(f);
                    }
                    let r = root(vec![check, v]);
                    let doc = Doc::build(&r, &[], &fs);
                    let mut args = tables_of(&doc);
                    args.push(fault_sexp(&doc, &fs[0], false));
                    args.push(also_sexp(&doc, &fs));
                    node("c04-fault", args)
                }
                // class (c): a constant only the header can set; the ledger balances
                _ => {
                    let a = Obj::new("QAction").with_id("a").bind("text", "\"whatever\"").bind("separator", "true");
                    let r = root(vec![a]);
                    let recs = vec![
                        Record { object: "a".into(), lhs: "text".into(), fate: Fate::Const { tag: "string-notr".into(), text: "whatever".into() } },
                        Record { object: "a".into(), lhs: "separator".into(), fate: Fate::Const { tag: "header-const".into(), text: "true".into() } },
                    ];
                    let doc = Doc::build(&r, &recs, &[]);
                    let mut args = tables_of(&doc);
                    args.push(fates_sexp(&doc));
                    args.push(node("cli", vec![boolean(true)]));
                    node("c04-ledger", args)
                }
            }
        }
        // constants bound to properties whose type has no constant form in the .ui pass: each is diagnosed inside its own text
        "typed-constants" => {
            let spec = LeafSpec { konst: Konst::Fail, ret_ok: false, ..LeafSpec::default() };
            let mk = |obj: usize, lhs: &str, rhs: &str, message: &'static str| Fault { name: "constant-on-class-typed-property", obj, lhs: lhs.into(), rhs: rhs.into(), spec: spec.clone(), map_fault: false, att_fault: false, att_unresolved: false, unknown_type: false, message, reported: (true, true, true) };
            let on_label = [("font", "\"Monospace\""), ("sizePolicy", "1"), ("geometry", "1"), ("locale", "\"C\"")];
            let mut l = Obj::new("QLabel").with_id("l").bind("text", "\"Hello\"");
            let mut fs = vec![];
            for (a, b) in on_label {
                l = l.bind(a, b);
                fs.push(mk(1, a, b, "unsupported constant expression type"));
            }
            let combo = Obj::new("QComboBox").with_id("c").bind("currentData", "2");
            fs.push(mk(2, "currentData", "2", "unsupported constant expression type: QVariant"));
            let page = Obj::new("QWidget").with_id("p").bind("QTabWidget.title", "\"t\"").bind("QTabWidget.icon", "\"x\"");
            let mut att = mk(4, "QTabWidget.icon", "\"x\"", "unsupported constant expression type: QIcon");
            att.spec.readable = false;
            att.spec.writable = false;
            fs.push(att);
            let l2 = Obj::new("QLabel").with_id("l2").bind("buddy", "1");
            fs.push(mk(5, "buddy", "1", "expression type mismatch"));
            let r = root(vec![l, combo, Obj::new("QTabWidget").with_id("tabs").child(page), l2]);
            let doc = Doc::build(&r, &[], &fs);
            let mut args = tables_of(&doc);
            args.push(fault_sexp(&doc, &fs[0], true));
            args.push(also_sexp(&doc, &fs));
            node("c04-fault", args)
        }
        // round 3: an ill-typed DYNAMIC member of a gadget map and ill-typed values on the properties of the special consumers
        "round3" => {
            let dynbad = LeafSpec { konst: Konst::Dyn, ret_ok: false, ..LeafSpec::default() };
            let cbad = LeafSpec { konst: Konst::Fail, ret_ok: false, readable: false, writable: false, ..LeafSpec::default() };
            let mk = |obj: usize, lhs: &str, rhs: &str, spec: &LeafSpec, message: &'static str| Fault { name: "ill-typed-dynamic-gadget-member", obj, lhs: lhs.into(), rhs: rhs.into(), spec: spec.clone(), map_fault: false, att_fault: false, att_unresolved: false, unknown_type: false, message, reported: (true, true, true) };
            let edit = Obj::new("QLineEdit").with_id("srcEdit");
            let label = Obj::new("QLabel").with_id("l").bind("font.family", "\"Monospace\"").bind("font.pointSize", "srcEdit.text");
            let panel = Obj::new("QWidget").with_id("w").bind("actions", "open").child(Obj::new("QAction").with_id("open").bind("text", "\"Open\""));
            let combo = Obj::new("QComboBox").with_id("c").bind("model", "1");
            let view = Obj::new("QTreeView").with_id("v").bind("header", "\"x\"");
            let act = Obj::new("QAction").with_id("a").bind("separator", "1");
            let l2 = Obj::new("QLabel").with_id("l2").bind("buddy", "srcEdit.text");
            let fs = vec![
                mk(2, "font.pointSize", "srcEdit.text", &dynbad, "expression type mismatch"),
                mk(3, "actions", "open", &cbad, "expression type mismatch"),
                mk(5, "model", "1", &cbad, "expression type mismatch"),
                mk(6, "header", "\"x\"", &cbad, "not a properties map"),
                mk(7, "separator", "1", &LeafSpec { konst: Konst::Fail, ret_ok: false, ..LeafSpec::default() }, "expression type mismatch"),
                mk(8, "buddy", "srcEdit.text", &dynbad, "expression type mismatch"),
            ];
            let r = root(vec![edit, label, panel, combo, view, act, l2]);
            let doc = Doc::build(&r, &[], &fs);
            let mut args = tables_of(&doc);
            args.push(fault_sexp(&doc, &fs[0], true));
            args.push(also_sexp(&doc, &fs));
            node("c04-fault", args)
        }
        // round 4: only ONE per-row / per-column family is set in a grid; each value is visible in the <layout> attribute
        "row-stretch-only" => {
            let mk = |id: &str, fam: &str, v: &str| Obj::new("QLabel").with_id(id).bind(&format!("QLayout.{fam}"), v);
            let grid = |id: &str, fam: &str, v: &str| Obj::new("QWidget").with_id(&format!("w{id}")).child(Obj::new("QGridLayout").with_id(id).bind("columns", "2").child(mk(&format!("{id}a"), fam, v)).child(Obj::new("QLabel").with_id(&format!("{id}b"))).child(mk(&format!("{id}c"), fam, v)));
            let fams = [("g1", "rowStretch", "3"), ("g2", "columnStretch", "2"), ("g3", "rowMinimumHeight", "20"), ("g4", "columnMinimumWidth", "30")];
            let mut kids = vec![];
            let mut recs = vec![];
            for (id, fam, v) in fams {
                kids.push(grid(id, fam, v));
                for suffix in ["a", "c"] {
                    recs.push(Record { object: format!("{id}{suffix}"), lhs: format!("QLayout.{fam}"), fate: Fate::Const { tag: "layout-array".into(), text: v.into() } });
                }
                recs.push(Record { object: id.into(), lhs: "columns".into(), fate: Fate::LayoutPseudo });
            }
            let vb = Obj::new("QWidget").with_id("wv").child(Obj::new("QVBoxLayout").with_id("vb").child(Obj::new("QLabel").with_id("va")).child(mk("vc", "rowStretch", "5")));
            recs.push(Record { object: "vc".into(), lhs: "QLayout.rowStretch".into(), fate: Fate::Const { tag: "layout-array".into(), text: "5".into() } });
            kids.push(vb);
            let doc = Doc::build(&root(kids), &recs, &[]);
            let mut args = tables_of(&doc);
            args.push(fates_sexp(&doc));
            args.push(node("cli", vec![boolean(false)]));
            node("c04-ledger", args)
        }
        "separator-alone" => Doc::build(&root(vec![Obj::new("QAction").with_id("a").bind("separator", "true")]), &[], &[]).request(Mode::Omit),
        _ => node("bad-request", vec![]),
    }
}
