//! C08 — determinism.  Request: (determinism "qml text") → oracle: the document is translated repeatedly (every hash
//! map gets fresh random keys each time: std's RandomState increments its keys per instance and draws them per thread)
//! in all three modes; .ui bytes, header bytes and the multiset of diagnostics must be identical.
use crate::docgen::{Obj, TreeGen, TreeOpts};
use crate::env::{self, Mode};
use crate::propgen::{self, PropOpts};
use crate::rng::Rng;
use crate::sexp::{atom, node, num, st, Sexp};
use crate::{Case, Stream};
use qmluic::typemap::TypeMap;

pub struct C08 {
    tm: TypeMap,
    /// a second type map built independently from the same inputs: its hash maps iterate in another order, so anything that
    /// leaks the iteration order of a TYPE MAP container (not only of a per-document one) shows between the two
    tm2: TypeMap,
}

impl C08 {
    pub fn new() -> Self {
        C08 { tm: env::load_type_map_with(env::adversarial_classes()), tm2: env::load_type_map_with(env::adversarial_classes()) }
    }
}

pub fn ensure_ids(o: &mut Obj, counter: &mut usize) {
    if o.id.is_none() {
        *counter += 1;
        o.id = Some(format!("x{counter}"));
    }
    for c in &mut o.children {
        ensure_ids(c, counter);
    }
}

/// A document with many bindings per object (so that a missing sort shows), possibly with planted errors.
pub fn rich_document(rng: &mut Rng, per_object: usize, with_errors: bool) -> (Obj, Vec<propgen::Record>) {
    let opts = TreeOpts {
        max_depth: 2 + rng.below(3),
        max_children: 2 + rng.below(4),
        id_chance: (1, 1),
        tab_widgets: true,
        ..TreeOpts::default()
    };
    let mut root = TreeGen::new(rng, opts).gen_root();
    let mut counter = 0;
    ensure_ids(&mut root, &mut counter);
    let d = propgen::decorate(rng, root, &PropOpts { max_per_object: per_object, ..PropOpts::default() });
    let mut root = d.root;
    if with_errors {
        // several diagnostics in one document: their *set* must be reproducible
        let bad = [
            ("noSuchProperty", "1"),
            ("windowTitle", "42"),
            ("enabled", "\"yes\""),
            ("toolTip", "srcSpin.value"),
            ("onNoSuchSignal", "srcEdit.clear()"),
            ("minimumWidth", "1 / 0"),
        ];
        let n = 1 + rng.below(4);
        let mut objs: Vec<*mut Obj> = vec![];
        fn collect(o: &mut Obj, v: &mut Vec<*mut Obj>) {
            v.push(o as *mut Obj);
            for c in &mut o.children {
                collect(c, v);
            }
        }
        collect(&mut root, &mut objs);
        for _ in 0..n {
            let (l, r) = *rng.pick(&bad);
            let target = *rng.pick(&objs);
            // SAFETY: pointers into `root`, which is alive and not otherwise borrowed here
            let o = unsafe { &mut *target };
            if !o.bindings.iter().any(|(ll, _)| ll == l) && !o.bindings.iter().any(|(ll, _)| ll == "separator") {
                o.bindings.push((l.to_owned(), r.to_owned()));
            }
        }
    }
    (root, d.ledger)
}

/// Two to three directories define components of the SAME names on different base classes (a widget, a layout, an
/// action, another component); each directory has forms using them.  The real CLI translates all forms in one
/// invocation, in several argument orders, and each form alone: every output file must have the same bytes (or be
/// absent) in all runs.
fn cross_document_order(seed: u64, k: u64) -> Sexp {
    use std::collections::BTreeMap;
    let mut rng = Rng::fork(seed, "c08-order", k);
    let bin = env::cli_binary();
    let dir = match tempfile::Builder::new().prefix("qv-c08-").tempdir() {
        Ok(d) => d,
        Err(e) => return node("fail", vec![st(format!("tempdir: {e}"))]),
    };
    let bases = ["QGroupBox", "QFrame", "QVBoxLayout", "QHBoxLayout", "QAction", "QLabel", "QPushButton", "QWidget"];
    let names = ["Box", "Panel", "Item"];
    let ndirs = 2 + rng.below(2);
    let mut forms: Vec<String> = vec![];
    let mut defined: Vec<Vec<(&str, &str)>> = vec![];
    for d in 0..ndirs {
        let dn = format!("d{d}");
        std::fs::create_dir_all(dir.path().join(&dn)).unwrap();
        let mut used = vec![];
        // every directory defines a random subset of the names (so that an imported directory can define a name the
        // importing one lacks, and two imported ones can define the same name)
        for n in names.iter() {
            if used.is_empty() && *n == names[names.len() - 1] || rng.chance(2, 3) {
                let base = *rng.pick(&bases);
                std::fs::write(dir.path().join(&dn).join(format!("{n}.qml")), format!("import qmluic.QtWidgets\n\n{base} {{\n}}\n")).unwrap();
                used.push((*n, base));
            }
        }
        defined.push(used);
    }
    for d in 0..ndirs {
        let dn = format!("d{d}");
        let used = defined[d].clone();
        for f in 0..(1 + rng.below(2)) {
            let mut imported_only: Vec<&str> = vec![];
            // a versioned import is a warning; explicit imports of the OTHER directories (which define the same names on
            // other bases) in either order: which definition a name resolves to must not vary
            let mut t = String::from(if rng.chance(1, 4) { "import qmluic.QtWidgets 6.2\n" } else { "import qmluic.QtWidgets\n" });
            if rng.chance(1, 2) {
                let mut others: Vec<usize> = (0..ndirs).filter(|o| *o != d).collect();
                rng.shuffle(&mut others);
                for o in others {
                    t.push_str(&format!("import \"../d{o}\"\n"));
                    for (n, _) in &defined[o] {
                        if !used.iter().any(|(u, _)| u == n) && !imported_only.contains(n) {
                            imported_only.push(n);
                        }
                    }
                }
            }
            t.push_str("\nQDialog {\n");
            // diagnostics of a document must not depend on what was translated before it in the same process: a handler
            // with a return type annotation (warning), an unknown property (error)
            if rng.chance(1, 2) {
                t.push_str("    QPushButton { onClicked: function(checked: bool): void { } }\n");
            }
            if rng.chance(1, 5) {
                t.push_str("    QLabel { txet: \"typo\" }\n");
            }
            for (n, base) in &used {
                // a child below the component where its base allows one
                let child = if base.ends_with("Layout") || *base == "QGroupBox" || *base == "QFrame" || *base == "QWidget" { " QLabel { text: \"x\" } " } else { "" };
                t.push_str(&format!("    {n} {{{child}}}\n"));
            }
            for n in &imported_only {
                t.push_str(&format!("    {n} {{ }}\n"));
            }
            t.push_str("}\n");
            let rel = format!("{dn}/Form{f}.qml");
            std::fs::write(dir.path().join(&rel), t).unwrap();
            forms.push(rel);
        }
    }
    let run = |order: &[String]| -> BTreeMap<String, Vec<u8>> {
        // the outputs, plus one entry `diagnostics:<source>` per source: what the CLI printed between "processing <source>"
        // and the next such line
        // fresh copy of the outputs: remove what an earlier run wrote
        for d in 0..ndirs {
            if let Ok(rd) = std::fs::read_dir(dir.path().join(format!("d{d}"))) {
                for e in rd.flatten() {
                    let p = e.path();
                    if p.extension().map(|x| x == "ui" || x == "h").unwrap_or(false) {
                        let _ = std::fs::remove_file(p);
                    }
                }
            }
        }
        let out = std::process::Command::new(&bin)
            .current_dir(dir.path())
            .env("NO_COLOR", "1")
            .arg("generate-ui")
            .arg("--foreign-types")
            .arg(format!("{}/contrib/metatypes", env::REPO))
            .args(order)
            .stdin(std::process::Stdio::null())
            .stdout(std::process::Stdio::null())
            .output();
        let mut m = BTreeMap::new();
        if let Ok(out) = out {
            let mut cur: Option<String> = None;
            for line in String::from_utf8_lossy(&out.stderr).lines() {
                if let Some(src) = line.trim().strip_prefix("processing ") {
                    cur = Some(format!("diagnostics:{}", src.trim()));
                    m.insert(cur.clone().unwrap(), Vec::new());
                } else if let Some(k) = &cur {
                    let e: &mut Vec<u8> = m.get_mut(k).unwrap();
                    e.extend_from_slice(line.as_bytes());
                    e.push(b'\n');
                }
            }
        }
        for d in 0..ndirs {
            if let Ok(rd) = std::fs::read_dir(dir.path().join(format!("d{d}"))) {
                for e in rd.flatten() {
                    let p = e.path();
                    if p.extension().map(|x| x == "ui" || x == "h").unwrap_or(false) {
                        m.insert(format!("d{d}/{}", p.file_name().unwrap().to_string_lossy()), std::fs::read(&p).unwrap_or_default());
                    }
                }
            }
        }
        m
    };
    // reference: each form alone
    let mut reference: BTreeMap<String, Vec<u8>> = BTreeMap::new();
    for f in &forms {
        let m = run(std::slice::from_ref(f));
        let stem = f.trim_end_matches(".qml").to_lowercase();
        for (k, v) in m {
            if k == format!("diagnostics:{f}") {
                reference.insert(k, v);
                continue;
            }
            if k.trim_end_matches(".ui") == stem || k.ends_with(&format!("uisupport_{}.h", stem.rsplit('/').next().unwrap())) && k.starts_with(&stem[..2]) {
                reference.insert(k, v);
            }
        }
    }
    let mut orders = vec![forms.clone()];
    let mut rev = forms.clone();
    rev.reverse();
    orders.push(rev);
    for _ in 0..2 {
        let mut o = forms.clone();
        rng.shuffle(&mut o);
        orders.push(o);
    }
    for o in &orders {
        let m = run(o);
        if m != reference {
            let differing: Vec<String> = reference
                .keys()
                .chain(m.keys())
                .filter(|k| reference.get(*k) != m.get(*k))
                .cloned()
                .collect::<std::collections::BTreeSet<_>>()
                .into_iter()
                .collect();
            return node(
                "fail",
                vec![st(format!("outputs of one invocation with sources [{}] differ from translating each source alone: {}", o.join(" "), differing.join(" ")))],
            );
        }
    }
    node("ok", vec![atom("forms"), num(forms.len()), atom("orders"), num(orders.len()), atom("outputs"), num(reference.len())])
}

const ROLES: &[&str] = &[
    "window", "windowText", "base", "alternateBase", "toolTipBase", "toolTipText", "text", "button", "buttonText", "brightText",
    "light", "midlight", "dark", "mid", "shadow", "highlight", "highlightedText", "link", "linkVisited",
];
const COLORS: &[&str] = &["\"black\"", "\"#48c\"", "\"gray\"", "\"#80ff0000\"", "\"white\"", "\"darkslategrey\"", "\"#123456\"", "\"transparent\""];

fn subset<'a>(rng: &mut Rng, xs: &[&'a str], min: usize, max: usize) -> Vec<&'a str> {
    let mut v: Vec<&str> = xs.to_vec();
    rng.shuffle(&mut v);
    let n = (min + rng.below(max - min + 1)).min(v.len());
    v.truncate(n);
    v
}

/// Documents in which SEVERAL entries of one unordered container interact: the constructs where a dependence on the
/// iteration order of a HashMap would show (defaults merged into groups, one diagnostic per entry, several members of a
/// group, several handlers in a map, several attached properties, many anonymous objects of one class).
pub fn multiplicity_document(rng: &mut Rng) -> (String, &'static str) {
    let mut s = String::from("import qmluic.QtWidgets\n\nQWidget {\n    id: root\n    QCheckBox { id: c1 }\n    QCheckBox { id: c2 }\n    QSpinBox { id: sp }\n    QLineEdit { id: ed }\n");
    let which = rng.below(10);
    let label = match which {
        0 => {
            // palette: default roles on the palette itself, colour groups overriding some of them and setting others
            s.push_str("    QLabel {\n        id: pal\n");
            for r in subset(rng, ROLES, 1, 6) {
                s.push_str(&format!("        palette.{r}: {}\n", rng.pick(COLORS)));
            }
            for g in subset(rng, &["active", "inactive", "disabled"], 1, 3) {
                for r in subset(rng, ROLES, 1, 5) {
                    s.push_str(&format!("        palette.{g}.{r}: {}\n", rng.pick(COLORS)));
                }
            }
            s.push_str("    }\n");
            "palette"
        }
        1 => {
            // several handlers inside nested object / gadget / attached maps (each is an error of its own)
            s.push_str("    QTableView {\n        id: tv\n");
            for (m, sigs) in [("horizontalHeader", &["SectionClicked", "SectionDoubleClicked", "SectionPressed", "SectionEntered", "GeometriesChanged"][..]), ("verticalHeader", &["SectionClicked", "SectionResized", "SectionMoved"][..])] {
                if rng.chance(2, 3) {
                    for sig in subset(rng, sigs, 2, sigs.len()) {
                        s.push_str(&format!("        {m}.on{sig}: {{}}\n"));
                    }
                    if rng.chance(1, 2) {
                        s.push_str(&format!("        {m}.visible: c1.checked\n        {m}.highlightSections: c2.checked\n"));
                    }
                }
            }
            s.push_str("    }\n    QVBoxLayout {\n        QLabel { QLayout.onFoo: {}; QLayout.onBar: {}; QLayout.alignment: Qt.AlignLeft }\n        QLabel { font.onChanged: {}; font.onBold: {}; font.bold: true }\n    }\n");
            "handlers-in-maps"
        }
        2 => {
            // many faulty bindings in one object: one diagnostic each
            s.push_str("    QLabel {\n        id: many\n");
            for k in 0..(3 + rng.below(6)) {
                match rng.below(5) {
                    0 => s.push_str(&format!("        nosuch{k}: {k}\n")),
                    1 => s.push_str(&format!("        {}: {k}\n", rng.pick(&["text", "toolTip", "statusTip", "whatsThis", "accessibleName", "styleSheet", "windowTitle"]))),
                    2 => s.push_str(&format!("        {}: \"x{k}\"\n", rng.pick(&["wordWrap", "enabled", "indent", "margin", "minimumWidth", "maximumHeight", "openExternalLinks"]))),
                    3 => s.push_str(&format!("        font.nosuch{k}: 1\n")),
                    _ => s.push_str(&format!("        on{}: {{}}\n", rng.pick(&["NoSuchSignal", "Foo", "BarChanged"]))),
                }
            }
            s.push_str("    }\n");
            "many-faults"
        }
        3 => {
            // several dynamic and constant members of gadget maps, several dynamic bindings with shared sources
            s.push_str("    QLabel {\n        id: dyn\n");
            let members = [("font.bold", "c1.checked"), ("font.italic", "c2.checked"), ("font.underline", "c1.checked && c2.checked"), ("font.pointSize", "sp.value"), ("font.family", "ed.text"), ("font.kerning", "!c1.checked"), ("sizePolicy.horizontalStretch", "sp.value"), ("sizePolicy.verticalStretch", "2")];
            for (m, v) in subset_pairs(rng, &members, 2, 8) {
                s.push_str(&format!("        {m}: {v}\n"));
            }
            for (p, v) in subset_pairs(rng, &[("text", "ed.text"), ("toolTip", "ed.text + ed.text"), ("enabled", "c1.checked"), ("visible", "c2.checked || c1.checked"), ("indent", "sp.value"), ("wordWrap", "c1.checked"), ("windowTitle", "qsTr(\"%1\").arg(sp.value)")], 2, 6) {
                s.push_str(&format!("        {p}: {v}\n"));
            }
            s.push_str("    }\n");
            "gadget-members"
        }
        4 => {
            // grid layout children with several attached properties, some out of range or conflicting
            s.push_str("    QGridLayout {\n        id: grid\n");
            for k in 0..(3 + rng.below(5)) {
                s.push_str("        QLabel {");
                for a in subset(rng, &["row", "column", "rowSpan", "columnSpan", "alignment", "rowStretch", "columnStretch", "rowMinimumHeight", "columnMinimumWidth"], 2, 6) {
                    let v = match a {
                        "alignment" => "Qt.AlignRight | Qt.AlignBottom".to_owned(),
                        _ => format!("{}", if rng.chance(1, 8) { 70000 } else { rng.below(4) as i64 + k as i64 % 2 }),
                    };
                    s.push_str(&format!(" QLayout.{a}: {v};"));
                }
                s.push_str(" }\n");
            }
            s.push_str("    }\n");
            "attached"
        }
        8 => {
            // the SAME attached property / several of them on one object, spelled through different attaching types (the
            // declaring class QLayout and classes derived from it, also ones that are not the parent's class): whatever the
            // tool makes of it — one value, an error — must not depend on the order in which a map hands the spellings out
            let parent = *rng.pick(&["QVBoxLayout", "QHBoxLayout", "QGridLayout", "QFormLayout"]);
            s.push_str(&format!("    {parent} {{\n        id: lay\n"));
            for _ in 0..(2 + rng.below(3)) {
                s.push_str("        QPushButton {");
                for _ in 0..(2 + rng.below(3)) {
                    let t = *rng.pick(&["QLayout", "QLayout", "QVBoxLayout", "QHBoxLayout", "QBoxLayout", "QGridLayout", "QFormLayout"]);
                    let a = *rng.pick(&["alignment", "rowStretch", "columnStretch", "row", "column"]);
                    let v = if a == "alignment" { "Qt.AlignRight".to_owned() } else { format!("{}", rng.below(3)) };
                    s.push_str(&format!(" {t}.{a}: {v};"));
                }
                s.push_str(" }\n");
            }
            s.push_str("    }\n");
            "attached-spellings"
        }
        9 => {
            // classes the type map knows but the translator has no serialisation for, in every role (layout, child, root of a
            // subtree, action-like): their diagnostics name a class — the text must be the same in every run and process
            for _ in 0..(1 + rng.below(3)) {
                match rng.below(5) {
                    0 => s.push_str("    QWidget { QStackedLayout { QLabel { } } }\n"),
                    1 => s.push_str("    QWidget { QGraphicsLinearLayout { } }\n"),
                    2 => s.push_str("    QButtonGroup { id: bg }\n"),
                    3 => s.push_str("    QGraphicsWidget { }\n"),
                    _ => s.push_str("    QWidget { QBoxLayout { QLabel { } } }\n"),
                }
            }
            "unsupported-classes"
        }
        5 => {
            // many anonymous objects of few classes, custom-looking ids, actions and menus: name generation and addaction order
            s.push_str("    QMenuBar {\n        QMenu {\n");
            for k in 0..(3 + rng.below(6)) {
                match rng.below(4) {
                    0 => s.push_str("            QAction { }\n"),
                    1 => s.push_str("            QAction { separator: true }\n"),
                    2 => s.push_str(&format!("            QAction {{ id: action{k}; text: \"a{k}\" }}\n")),
                    _ => s.push_str("            QMenu { QAction { } }\n"),
                }
            }
            s.push_str("        }\n    }\n");
            for _ in 0..(2 + rng.below(5)) {
                s.push_str(&format!("    {} {{ }}\n", rng.pick(&["QLabel", "QPushButton", "QLabel", "QWidget", "QLineEdit"])));
            }
            "anonymous-objects"
        }
        6 => {
            // every system header the support code can need, in one document: <algorithm> (Math.max/min), <cmath> (double %),
            // <QtDebug> (console.*) — the include set is an unordered container too
            s.push_str("    QDoubleSpinBox { id: ds }\n    QLabel {\n        id: inc\n");
            let uses = [("indent", "Math.max(sp.value, 1)"), ("margin", "Math.min(sp.value, 9)"), ("toolTip", "\"%1\".arg(ds.value % 2.5)"), ("statusTip", "\"%1\".arg(ds.value % 0.5 + 1.0)")];
            for (p, v) in subset_pairs(rng, &uses, 2, 4) {
                s.push_str(&format!("        {p}: {v}\n"));
            }
            s.push_str("    }\n    QPushButton {\n        id: pb\n");
            if rng.chance(2, 3) {
                s.push_str(&format!("        onClicked: console.{}(\"clicked\", sp.value)\n", rng.pick(&["log", "debug", "info", "warn", "error"])));
            }
            s.push_str("    }\n");
            "system-includes"
        }
        _ => {
            // several item-model / string-list / brush / icon style values next to each other
            s.push_str("    QComboBox {\n        id: combo\n        model: [\"a\", \"b\", qsTr(\"c\")]\n        currentIndex: sp.value\n    }\n    QListWidget { id: lw }\n    QLabel {\n        id: misc\n");
            for r in subset(rng, ROLES, 2, 5) {
                s.push_str(&format!("        palette.{r}: {}\n", rng.pick(COLORS)));
            }
            s.push_str("        geometry.x: 1\n        geometry.y: 2\n        geometry.width: 30\n        geometry.height: 40\n        minimumSize.width: 5\n        minimumSize.height: 6\n        cursor: Qt.WaitCursor\n    }\n");
            "misc-values"
        }
    };
    s.push_str("}\n");
    (s, label)
}

fn subset_pairs<'a>(rng: &mut Rng, xs: &[(&'a str, &'a str)], min: usize, max: usize) -> Vec<(&'a str, &'a str)> {
    let mut v: Vec<(&str, &str)> = xs.to_vec();
    rng.shuffle(&mut v);
    let n = (min + rng.below(max - min + 1)).min(v.len());
    v.truncate(n);
    v
}

impl Stream for C08 {
    fn generate(&self, seed: u64, thorough: bool) -> Vec<Case> {
        let mut cases = vec![];
        let n = if thorough { 6_000 } else { 400 };
        for k in 0..n {
            let mut rng = Rng::fork(seed, "c08", k as u64);
            let with_errors = k % 4 == 3;
            let per = 6 + rng.below(8);
            let (root, ledger) = rich_document(&mut rng, per, with_errors);
            let labels = vec![
                format!("objects{}", root.count() / 5 * 5),
                format!("bindings{}", ledger.len() / 10 * 10),
                if with_errors { "with-errors".into() } else { "clean".to_string() },
            ];
            cases.push(Case { kind: "oracle", labels, request: node("determinism", vec![st(root.to_qml())]) });
        }
        // documents translated in ONE process in different orders: same-named components that differ per directory, so that
        // anything remembered from an earlier document (caches keyed by names) would leak into a later one
        let o = if thorough { 300 } else { 24 };
        for k in 0..o {
            cases.push(Case { kind: "oracle", labels: vec!["cross-document-order".into()], request: node("c08-order", vec![num(seed as usize % 1_000_000), num(k)]) });
        }
        let m = if thorough { 6_000 } else { 500 };
        for k in 0..m {
            let mut rng = Rng::fork(seed, "c08-mult", k as u64);
            let (text, label) = multiplicity_document(&mut rng);
            cases.push(Case { kind: "oracle", labels: vec!["multiplicity".into(), format!("mult:{label}")], request: node("determinism", vec![st(text)]) });
        }
        cases
    }

    fn answer(&self, req: &Sexp) -> Sexp {
        let (tag, args) = req.as_node().expect("request node");
        if tag == "c08-order" {
            return cross_document_order(args[0].as_usize().unwrap() as u64, args[1].as_usize().unwrap() as u64);
        }
        let src = args[0].as_str().unwrap();
        let runs = 8;
        let mut total_diags = 0;
        let mut sizes = (0usize, 0usize);
        for mode in Mode::all() {
            let mut first: Option<(Option<String>, Option<String>, Vec<(bool, usize, usize, String)>)> = None;
            for r in 0..runs {
                let t = env::translate(if r % 2 == 0 { &self.tm } else { &self.tm2 }, src, "MyType", mode);
                let mut d: Vec<(bool, usize, usize, String)> =
                    t.diags.iter().map(|d| (d.is_error, d.start, d.end, d.message.clone())).collect();
                d.sort();
                let cur = (t.ui.clone(), t.header.clone(), d);
                match &first {
                    None => {
                        total_diags += cur.2.len();
                        sizes = (cur.0.as_ref().map(|s| s.len()).unwrap_or(0), cur.1.as_ref().map(|s| s.len()).unwrap_or(0));
                        first = Some(cur)
                    }
                    Some(f) => {
                        if f.0 != cur.0 {
                            return node("fail", vec![st(format!(".ui differs between run 0 and run {r} in mode {}", mode.name()))]);
                        }
                        if f.1 != cur.1 {
                            return node("fail", vec![st(format!("support header differs between run 0 and run {r} in mode {}", mode.name()))]);
                        }
                        if f.2 != cur.2 {
                            return node("fail", vec![st(format!("diagnostics differ between run 0 and run {r} in mode {}", mode.name()))]);
                        }
                    }
                }
            }
        }
        node("ok", vec![atom("runs"), num(runs * 3), atom("diags"), num(total_diags), atom("bytes"), num(sizes.0), num(sizes.1)])
    }
}
