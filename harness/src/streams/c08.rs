//! C08 — determinism.  Request: (determinism "qml text") → oracle: the document is translated repeatedly (every hash
//! map gets fresh random keys each time: std's RandomState increments its keys per instance and draws them per thread)
//! in all three modes; .ui bytes, header bytes and the multiset of diagnostics must be identical.
use crate::docgen::{Obj, TreeGen, TreeOpts};
use crate::env::{self, Mode};
use crate::propgen::{self, PropOpts};
use crate::rng::Rng;
use crate::sexp::{atom, node, num, st, Sexp};
use crate::{Case, Stream};
use qmluic::typemap::TypeMap;

pub struct C08 {
    tm: TypeMap,
}

impl C08 {
    pub fn new() -> Self {
        C08 { tm: env::load_type_map_with(env::adversarial_classes()) }
    }
}

pub fn ensure_ids(o: &mut Obj, counter: &mut usize) {
    if o.id.is_none() {
        *counter += 1;
        o.id = Some(format!("x{counter}"));
    }
    for c in &mut o.children {
        ensure_ids(c, counter);
    }
}

/// A document with many bindings per object (so that a missing sort shows), possibly with planted errors.
pub fn rich_document(rng: &mut Rng, per_object: usize, with_errors: bool) -> (Obj, Vec<propgen::Record>) {
    let opts = TreeOpts {
        max_depth: 2 + rng.below(3),
        max_children: 2 + rng.below(4),
        id_chance: (1, 1),
        tab_widgets: true,
        ..TreeOpts::default()
    };
    let mut root = TreeGen::new(rng, opts).gen_root();
    let mut counter = 0;
    ensure_ids(&mut root, &mut counter);
    let d = propgen::decorate(rng, root, &PropOpts { max_per_object: per_object, ..PropOpts::default() });
    let mut root = d.root;
    if with_errors {
        // several diagnostics in one document: their *set* must be reproducible
        let bad = [
            ("noSuchProperty", "1"),
            ("windowTitle", "42"),
            ("enabled", "\"yes\""),
            ("toolTip", "srcSpin.value"),
            ("onNoSuchSignal", "srcEdit.clear()"),
            ("minimumWidth", "1 / 0"),
        ];
        let n = 1 + rng.below(4);
        let mut objs: Vec<*mut Obj> = vec![];
        fn collect(o: &mut Obj, v: &mut Vec<*mut Obj>) {
            v.push(o as *mut Obj);
            for c in &mut o.children {
                collect(c, v);
            }
        }
        collect(&mut root, &mut objs);
        for _ in 0..n {
            let (l, r) = *rng.pick(&bad);
            let target = *rng.pick(&objs);
            // SAFETY: pointers into `root`, which is alive and not otherwise borrowed here
            let o = unsafe { &mut *target };
            if !o.bindings.iter().any(|(ll, _)| ll == l) && !o.bindings.iter().any(|(ll, _)| ll == "separator") {
                o.bindings.push((l.to_owned(), r.to_owned()));
            }
        }
    }
    (root, d.ledger)
}

impl Stream for C08 {
    fn generate(&self, seed: u64, thorough: bool) -> Vec<Case> {
        let mut cases = vec![];
        let n = if thorough { 6_000 } else { 400 };
        for k in 0..n {
            let mut rng = Rng::fork(seed, "c08", k as u64);
            let with_errors = k % 4 == 3;
            let per = 6 + rng.below(8);
            let (root, ledger) = rich_document(&mut rng, per, with_errors);
            let labels = vec![
                format!("objects{}", root.count() / 5 * 5),
                format!("bindings{}", ledger.len() / 10 * 10),
                if with_errors { "with-errors".into() } else { "clean".to_string() },
            ];
            cases.push(Case { kind: "oracle", labels, request: node("determinism", vec![st(root.to_qml())]) });
        }
        cases
    }

    fn answer(&self, req: &Sexp) -> Sexp {
        let (_, args) = req.as_node().expect("request node");
        let src = args[0].as_str().unwrap();
        let runs = 8;
        let mut total_diags = 0;
        let mut sizes = (0usize, 0usize);
        for mode in Mode::all() {
            let mut first: Option<(Option<String>, Option<String>, Vec<(bool, usize, usize, String)>)> = None;
            for r in 0..runs {
                let t = env::translate(&self.tm, src, "MyType", mode);
                let mut d: Vec<(bool, usize, usize, String)> =
                    t.diags.iter().map(|d| (d.is_error, d.start, d.end, d.message.clone())).collect();
                d.sort();
                let cur = (t.ui.clone(), t.header.clone(), d);
                match &first {
                    None => {
                        total_diags += cur.2.len();
                        sizes = (cur.0.as_ref().map(|s| s.len()).unwrap_or(0), cur.1.as_ref().map(|s| s.len()).unwrap_or(0));
                        first = Some(cur)
                    }
                    Some(f) => {
                        if f.0 != cur.0 {
                            return node("fail", vec![st(format!(".ui differs between run 0 and run {r} in mode {}", mode.name()))]);
                        }
                        if f.1 != cur.1 {
                            return node("fail", vec![st(format!("support header differs between run 0 and run {r} in mode {}", mode.name()))]);
                        }
                        if f.2 != cur.2 {
                            return node("fail", vec![st(format!("diagnostics differ between run 0 and run {r} in mode {}", mode.name()))]);
                        }
                    }
                }
            }
        }
        node("ok", vec![atom("runs"), num(runs * 3), atom("diags"), num(total_diags), atom("bytes"), num(sizes.0), num(sizes.1)])
    }
}
