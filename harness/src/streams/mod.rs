use crate::Stream;

pub mod c01;
pub mod c02;
pub mod c05;
pub mod c13;
pub mod c03;
pub mod c04;
pub mod c07;
pub mod c08;
pub mod dbg;
pub mod ir;
pub mod c09;
pub mod c10;
pub mod c11;
pub mod c12;
pub mod c14;
pub mod c15;
pub mod c16;
pub mod c17;
pub mod c18;
pub mod c19;
pub mod c20;

pub fn lookup(name: &str) -> Option<Box<dyn Stream>> {
    match name {
        "c19" => Some(Box::new(c19::C19::new())),
        "c01" => Some(Box::new(c01::C01::new())),
        "c05" => Some(Box::new(c05::C05::new())),
        "c13" => Some(Box::new(c13::C13::new())),
        "c02" => Some(Box::new(c02::C02::new())),
        "c03" => Some(Box::new(c03::C03::new())),
        "c04" => Some(Box::new(c04::C04::new())),
        "c07" => Some(Box::new(c07::C07::new())),
        "c14" => Some(Box::new(c14::C14::new())),
        "c20" => Some(Box::new(c20::C20::new())),
        "c18" => Some(Box::new(c18::C18::new())),
        "c17" => Some(Box::new(c17::C17::new())),
        "c16" => Some(Box::new(c16::C16::new())),
        "c15" => Some(Box::new(c15::C15::new())),
        "c12" => Some(Box::new(c12::C12::new())),
        "c10" => Some(Box::new(c10::C10::new())),
        "c09" => Some(Box::new(c09::C09::new())),
        "c08" => Some(Box::new(c08::C08::new())),
        "dbg" => Some(Box::new(dbg::Dbg::new())),
        "ir" => Some(Box::new(ir::Ir::new())),
        "c11" => Some(Box::new(c11::C11::new())),
        _ => None,
    }
}
