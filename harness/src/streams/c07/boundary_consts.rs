//! C07 — boundary CONSTANTS under every operator, cast and conversion (family `bc`).
//!
//! The constant folder (tir::ceval) computes with i64 / f64 what C++ would compute with int / uint / double; every operator
//! and conversion has its own edge (MIN / -1, MIN % -1, -MIN, |MIN|, shifts by ≥ 64 or < 0, casts of NaN / ±inf / 2^63, literals
//! that do not fit, subscripts out of range).  The family puts boundary operands — written as decimal / hex / octal / binary
//! literals and as folded expressions (i64::MIN can only be written as one) — under
//!
//!   binary arithmetic, bitwise, comparison operators (int × int, double × double), shifts with boundary shift counts, logical
//!   operators, ternaries, unary operators, the casts of docs/language.md (`as int` / `as uint` / `as double` / `as void`, bool
//!   and enum to integer) and the ones it does not have (`as bool`, `as QString`), mixed int / double operands, Math.max / min
//!   (and abs / floor / ceil / round, which the subset lacks), `.arg(…)`, list subscripts, switch labels, `let` chains,
//!
//! bound to properties of type int, uint, double, bool, QString, enum and flags, in a binding (CONSTANT: folded) and with one
//! operand replaced by a property read (`sb.value`, `usb.value`, `dsb.value`, `cb.checked`: DYNAMIC — the folder is bypassed,
//! the expression goes to the C++ path) and in callback statements.  Demanded: totality in all three modes (+ a CLI slice).
use crate::rng::Rng;

pub struct BcDoc {
    pub labels: Vec<String>,
    pub text: String,
}

/// (label, spelling usable as an operand)
const INTS: &[(&str, &str)] = &[
    ("min", "(-9223372036854775807 - 1)"),
    ("min+1", "-9223372036854775807"),
    ("-2^31-1", "-2147483649"),
    ("-2^31", "-2147483648"),
    ("-1", "-1"),
    ("0", "0"),
    ("1", "1"),
    ("2^31-1", "2147483647"),
    ("2^31", "2147483648"),
    ("2^32", "4294967296"),
    ("2^53+1", "9007199254740993"),
    ("max", "9223372036854775807"),
    ("lit-2^63", "9223372036854775808"),
    ("hex-2^63", "0x8000000000000000"),
    ("oct-max", "0o777777777777777777777"),
    ("folded-max", "(9223372036854775806 + 1)"),
    // the rest only stands where there is ONE operand
    ("-2", "-2"),
    ("2", "2"),
    ("31", "31"),
    ("32", "32"),
    ("63", "63"),
    ("64", "64"),
    ("65", "65"),
    ("2^32-1", "4294967295"),
    ("2^53", "9007199254740992"),
    ("max-1", "9223372036854775806"),
    ("lit-2^64-1", "18446744073709551615"),
    ("lit-2^64", "18446744073709551616"),
    ("hex-max", "0x7fffffffffffffff"),
    ("hex-2^31", "0x80000000"),
    ("hex-u32", "0xFFFFFFFF"),
    ("hex-u64", "0xffffffffffffffff"),
    ("oct-legacy", "0777"),
    ("bin-2^31-1", "0b1111111111111111111111111111111"),
    ("bin-2^63", "0b1000000000000000000000000000000000000000000000000000000000000000"),
    ("separators", "9_223_372_036_854_775_807"),
    ("folded-2^62", "(1 << 62)"),
    ("folded-shl63", "(-1 << 63)"),
    ("folded-mul", "(3037000500 * 3037000499)"),
    ("neg-zero", "-0"),
    ("neg-hex-2^63", "-0x8000000000000000"),
];
const N_CORE: usize = 16;

const HOT_B: &[(&str, &str)] = &[("min", "(-9223372036854775807 - 1)"), ("-1", "-1"), ("0", "0"), ("1", "1"), ("32", "32"), ("64", "64"), ("2^32", "4294967296"), ("max", "9223372036854775807")];

const SHIFT_COUNTS: &[(&str, &str)] = &[
    ("-1", "-1"),
    ("0", "0"),
    ("1", "1"),
    ("31", "31"),
    ("32", "32"),
    ("33", "33"),
    ("63", "63"),
    ("64", "64"),
    ("65", "65"),
    ("2^32", "4294967296"),
    ("max", "9223372036854775807"),
    ("min", "(-9223372036854775807 - 1)"),
];

const DOUBLES: &[(&str, &str)] = &[
    ("1e308", "1e308"),
    ("-1e308", "-1e308"),
    ("1e309", "1e309"),
    ("-0.0", "-0.0"),
    ("0.0", "0.0"),
    ("nan", "(0.0 / 0.0)"),
    ("inf", "(1.0 / 0.0)"),
    ("-inf", "(-1.0 / 0.0)"),
    ("2^63.0", "9223372036854775808.0"),
    ("-2^63.0", "-9223372036854775808.0"),
    ("2^64.0", "18446744073709551616.0"),
    ("2^32+.5", "4294967296.5"),
    ("2^31-.5", "2147483647.5"),
    ("-2^31-.5", "-2147483648.5"),
    ("0.5", "0.5"),
    ("denormal", "5e-324"),
    ("1e-400", "1e-400"),
    ("2^53.0", "9007199254740992.0"),
    (".5", ".5"),
    ("5.", "5."),
];
const HOT_D: &[(&str, &str)] = &[("1e308", "1e308"), ("-0.0", "-0.0"), ("nan", "(0.0 / 0.0)"), ("inf", "(1.0 / 0.0)"), ("2^63.0", "9223372036854775808.0"), ("0.5", "0.5"), ("-1e308", "-1e308")];

const INT_OPS: &[(&str, &str)] =
    &[("add", "+"), ("sub", "-"), ("mul", "*"), ("div", "/"), ("rem", "%"), ("and", "&"), ("or", "|"), ("xor", "^"), ("eq", "=="), ("ne", "!="), ("lt", "<"), ("le", "<="), ("gt", ">"), ("ge", ">=")];
const SHIFT_OPS: &[(&str, &str)] = &[("shl", "<<"), ("shr", ">>"), ("ushr", ">>>")];
const DOUBLE_OPS: &[(&str, &str)] = &[("add", "+"), ("mul", "*"), ("div", "/"), ("rem", "%"), ("eq", "=="), ("le", "<=")];

fn is_cmp(op: &str) -> bool {
    matches!(op, "==" | "!=" | "<" | "<=" | ">" | ">=")
}

/// Where an expression of a given type is bound: (target label, member text with the hole `{E}`).
const TARGETS: &[(&str, &str)] = &[
    ("int", "minimumWidth: {E}"),
    ("uint", "QUIntSpinBox { value: {E} }"),
    ("double", "windowOpacity: {E}"),
    ("bool", "enabled: {E}"),
    ("string", "windowTitle: {E}"),
    ("enum", "focusPolicy: {E}"),
    ("flags", "QLabel { alignment: {E} }"),
    ("callback-int", "onWindowTitleChanged: { sb.value = {E} }"),
    ("callback-double", "onWindowTitleChanged: { dsb.value = {E} }"),
];

fn wrap(member: &str) -> String {
    format!(
        "import qmluic.QtWidgets\nQWidget {{\n    id: root\n    QSpinBox {{ id: sb }}\n    QUIntSpinBox {{ id: usb }}\n    QDoubleSpinBox {{ id: dsb }}\n    QCheckBox {{ id: cb }}\n    QLineEdit {{ id: edit }}\n    {member}\n}}\n"
    )
}

fn bind(target: &str, expr: &str) -> String {
    let t = TARGETS.iter().find(|t| t.0 == target).expect("target");
    wrap(&t.1.replace("{E}", expr))
}

/// `a < (b)` is a syntax error of the tree-sitter-qmljs grammar (`<` + `(` starts type arguments): compare the other way round
fn binary(a: &str, op: &str, b: &str) -> String {
    if op == "<" && b.starts_with('(') {
        format!("{b} > {a}")
    } else {
        format!("{a} {op} {b}")
    }
}

pub fn documents() -> Vec<BcDoc> {
    let mut out: Vec<BcDoc> = vec![];
    let mut push = |construct: &str, op: &str, operands: &[&str], kind: &str, target: &str, expr: String| {
        let mut labels = vec!["bc".to_owned(), format!("bc:{construct}"), format!("bc:{kind}"), format!("bc:target:{target}")];
        if !op.is_empty() {
            labels.push(format!("bc:op:{op}"));
        }
        for o in operands {
            labels.push(format!("bc:operand:{o}"));
        }
        out.push(BcDoc { labels, text: bind(target, &expr) });
    };
    let core = &INTS[..N_CORE];

    // binary integer operators: core × hot (both orders are in: hot ⊂ core)
    for (on, op) in INT_OPS.iter().copied() {
        for (an, a) in core.iter().copied() {
            for (bn, b) in HOT_B.iter().copied() {
                push("binary", on, &[an, bn], "constant", if is_cmp(op) { "bool" } else { "int" }, binary(a, op, b));
            }
        }
    }
    // shifts: every operand × boundary shift counts
    for (on, op) in SHIFT_OPS.iter().copied() {
        for (an, a) in core.iter().copied() {
            for (bn, b) in SHIFT_COUNTS.iter().copied() {
                push("shift", on, &[an, bn], "constant", "int", format!("{a} {op} {b}"));
            }
        }
    }
    // logical operators and ternaries
    for (an, a) in core.iter().copied() {
        for (bn, b) in HOT_B[..4].iter().copied() {
            push("logical", "and", &[an, bn], "constant", "bool", format!("{a} != 0 && {b} > 0"));
            push("logical", "or-not", &[an, bn], "constant", "bool", format!("{a} == {b} || !({a} <= {b})"));
        }
        push("logical", "and-int", &[an], "constant", "bool", format!("{a} && {a}"));
        for (bn, b) in HOT_B.iter().copied() {
            push("ternary", "max", &[an, bn], "constant", "int", format!("{a} > {b} ? {a} : {b}"));
            push("ternary", "dynamic-condition", &[an, bn], "dynamic", "int", format!("cb.checked ? {a} : {b}"));
        }
    }
    // unary operators
    for (an, a) in INTS.iter().copied() {
        for (on, e) in [("neg", format!("-{a}")), ("not", format!("~{a}")), ("plus", format!("+{a}")), ("neg-neg", format!("-(-{a})")), ("not-not", format!("~(~{a})")), ("neg-not", format!("-(~{a})"))] {
            push("unary", on, &[an], "constant", "int", e);
        }
        push("unary", "lnot", &[an], "constant", "bool", format!("!{a}"));
    }
    for (dn, d) in DOUBLES.iter().copied() {
        for (on, e) in [("neg", format!("-{d}")), ("plus", format!("+{d}")), ("lnot", format!("!{d}"))] {
            push("unary", on, &[dn], "constant", "double", e);
        }
    }
    // casts (docs/language.md: numeric casts amongst int / uint / double, enum and bool to integer, `as void`) and the ones the
    // subset does not have
    for (an, a) in INTS.iter().copied() {
        for (on, target, e) in [
            ("as-int", "int", format!("{a} as int")),
            ("as-uint", "uint", format!("{a} as uint")),
            ("as-double", "double", format!("{a} as double")),
            ("as-uint-as-int", "int", format!("({a} as uint) as int")),
            ("as-double-as-int", "int", format!("({a} as double) as int")),
            ("as-double-as-uint", "uint", format!("({a} as double) as uint")),
            ("as-int-as-uint", "uint", format!("({a} as int) as uint")),
            ("as-bool", "bool", format!("{a} as bool")),
            ("as-QString", "string", format!("{a} as QString")),
            ("as-void", "int", format!("{a} as void")),
            ("neg-as-uint", "uint", format!("-({a} as uint)")),
            ("as-uint-shr", "uint", format!("({a} as uint) >> 1")),
            ("as-uint-div", "uint", format!("({a} as uint) / 2")),
            ("as-uint-mul", "uint", format!("({a} as uint) * 2")),
            ("bool-as-int", "int", format!("({a} > 0) as int")),
        ] {
            push("cast", on, &[an], "constant", target, e);
        }
    }
    for (dn, d) in DOUBLES.iter().copied() {
        for (on, target, e) in [
            ("as-int", "int", format!("{d} as int")),
            ("as-uint", "uint", format!("{d} as uint")),
            ("as-double", "double", format!("{d} as double")),
            ("as-int-as-double", "double", format!("({d} as int) as double")),
            ("as-uint-as-int", "int", format!("({d} as uint) as int")),
            ("as-bool", "bool", format!("{d} as bool")),
        ] {
            push("cast", on, &[dn], "constant", target, e);
        }
    }
    for (on, target, e) in [
        ("true-as-int", "int", "true as int"),
        ("false-as-uint", "uint", "false as uint"),
        ("true-as-double", "double", "true as double"),
        ("enum-as-int", "int", "Qt.AlignLeft as int"),
        ("flags-as-int", "int", "(Qt.AlignLeft | Qt.AlignTop) as int"),
        ("enum-as-uint", "uint", "Qt.StrongFocus as uint"),
        ("enum-as-double", "double", "Qt.StrongFocus as double"),
        ("int-as-enum", "enum", "1 as Qt.FocusPolicy"),
        ("max-as-enum", "enum", "9223372036854775807 as Qt.FocusPolicy"),
    ] {
        push("cast", on, &[], "constant", target, e.to_owned());
    }
    // double × double, and the result cast to an integer
    for (on, op) in DOUBLE_OPS.iter().copied() {
        for (dn, d) in DOUBLES.iter().copied() {
            for (en, e) in HOT_D.iter().copied() {
                push("binary-double", on, &[dn, en], "constant", if is_cmp(op) { "bool" } else { "double" }, binary(d, op, e));
            }
        }
    }
    for (on, op) in DOUBLE_OPS[..3].iter().copied() {
        for (dn, d) in DOUBLES.iter().copied() {
            for (en, e) in HOT_D.iter().copied() {
                push("binary-double-as-int", on, &[dn, en], "constant", "int", format!("({d} {op} {e}) as int"));
            }
        }
    }
    // int and double mixed
    for (an, a) in core[..12].iter().copied() {
        for (dn, d) in HOT_D.iter().copied() {
            push("mixed", "add", &[an, dn], "constant", "double", format!("{a} + {d}"));
            push("mixed", "cast-mul", &[an, dn], "constant", "double", format!("({a} as double) * {d}"));
            push("mixed", "cast-le", &[an, dn], "constant", "bool", format!("({a} as double) <= {d}"));
        }
    }
    // Math.max / min (and what the subset lacks)
    for (an, a) in core.iter().copied() {
        for (bn, b) in HOT_B.iter().copied() {
            push("math", "max", &[an, bn], "constant", "int", format!("Math.max({a}, {b})"));
            push("math", "min", &[an, bn], "constant", "int", format!("Math.min({a}, {b})"));
        }
    }
    for (dn, d) in DOUBLES.iter().copied() {
        for (en, e) in HOT_D.iter().copied() {
            push("math", "max-double", &[dn, en], "constant", "double", format!("Math.max({d}, {e})"));
            push("math", "min-double", &[dn, en], "constant", "double", format!("Math.min({d}, {e})"));
        }
        for f in ["floor", "ceil", "round", "abs"] {
            push("math", f, &[dn], "constant", "double", format!("Math.{f}({d})"));
        }
    }
    for (an, a) in INTS.iter().copied() {
        push("math", "abs", &[an], "constant", "int", format!("Math.abs({a})"));
        push("math", "max-one", &[an], "constant", "int", format!("Math.max({a})"));
        push("math", "max-mixed", &[an], "constant", "double", format!("Math.max({a}, 0.5)"));
    }
    // `.arg(…)`
    for (an, a) in INTS.iter().copied() {
        push("arg", "int", &[an], "constant", "string", format!("\"%1\".arg({a})"));
        push("arg", "tr-two", &[an], "constant", "string", format!("qsTr(\"%1 %2\").arg({a}).arg(-{a})"));
        push("arg", "uint", &[an], "constant", "string", format!("\"%1\".arg({a} as uint)"));
    }
    for (dn, d) in DOUBLES.iter().copied() {
        push("arg", "double", &[dn], "constant", "string", format!("\"%1\".arg({d})"));
    }
    // list subscripts (no bounds check in the language: the folder must not index out of range)
    for (an, a) in INTS.iter().copied() {
        push("subscript", "strings", &[an], "constant", "string", format!("[\"a\", \"b\"][{a}]"));
        push("subscript", "ints", &[an], "constant", "int", format!("[1, 2, 3][{a}]"));
        push("subscript", "as-uint", &[an], "constant", "string", format!("[\"a\"][{a} as uint]"));
        push("subscript", "element", &[an], "constant", "int", format!("[{a}, 0][0]"));
        push("subscript", "both", &[an], "constant", "int", format!("[{a}][{a}]"));
        push("subscript", "dynamic-list", &[an], "dynamic", "string", format!("[edit.text, \"b\"][{a}]"));
    }
    // switch labels, `let` chains
    for (an, a) in core.iter().copied() {
        for (bn, b) in HOT_B.iter().copied() {
            push("switch", "labels", &[an, bn], "constant", "int", format!("{{ switch ({a}) {{ case {b}: return 1; case {a}: return 2; default: return 3 }} }}"));
        }
        for (on, op) in [("add", "+"), ("mul", "*"), ("div", "/"), ("rem", "%"), ("shl", "<<")] {
            for (bn, b) in [HOT_B[0], HOT_B[1], HOT_B[2], HOT_B[7]] {
                push("let", on, &[an, bn], "constant", "int", format!("{{ let v = {a}; const w: int = v {op} {b}; return w }}"));
            }
        }
    }
    for (an, a) in INTS.iter().copied() {
        push("switch", "dynamic-discriminant", &[an], "dynamic", "int", format!("{{ switch (sb.value) {{ case {a}: return 1; case -{a}: return 2; default: return 3 }} }}"));
        push("let", "typed-uint", &[an], "constant", "uint", format!("{{ let v: uint = {a}; return v }}"));
        push("let", "typed-double", &[an], "constant", "double", format!("{{ let v: double = {a}; return v }}"));
    }
    // DYNAMIC: one operand is a property read, the folder is bypassed
    for (on, op) in INT_OPS.iter().chain(SHIFT_OPS).copied() {
        for (an, a) in core.iter().copied() {
            let target = if is_cmp(op) { "bool" } else { "int" };
            push("binary", on, &[an], "dynamic", target, binary("sb.value", op, a));
            push("binary", on, &[an], "dynamic", target, binary(a, op, "sb.value"));
        }
    }
    for (on, op) in [("add", "+"), ("div", "/"), ("rem", "%"), ("shl", "<<"), ("eq", "==")] {
        for (an, a) in core.iter().copied() {
            push("binary-uint", on, &[an], "dynamic", if is_cmp(op) { "bool" } else { "uint" }, format!("usb.value {op} {a}"));
            push("binary-uint", on, &[an], "dynamic", if is_cmp(op) { "bool" } else { "uint" }, format!("usb.value {op} ({a} as uint)"));
        }
    }
    for (on, op) in DOUBLE_OPS.iter().copied() {
        for (dn, d) in DOUBLES.iter().copied() {
            push("binary-double", on, &[dn], "dynamic", if is_cmp(op) { "bool" } else { "double" }, binary("dsb.value", op, d));
        }
    }
    for (an, a) in core.iter().copied() {
        for (on, target, e) in [
            ("math-max", "int", format!("Math.max(sb.value, {a})")),
            ("arg", "string", format!("\"%1\".arg(sb.value + {a})")),
            ("as-uint", "uint", format!("(sb.value as uint) + ({a} as uint)")),
            ("as-double", "double", format!("(sb.value as double) / ({a} as double)")),
            ("subscript-rem", "string", format!("[\"a\", \"b\"][sb.value % {a}]")),
            ("cast-sum", "uint", format!("(sb.value + {a}) as uint")),
            ("double-as-int", "int", format!("(dsb.value * ({a} as double)) as int")),
            ("bool-as-int", "int", format!("(cb.checked as int) * {a}")),
            ("neg", "int", format!("-(sb.value - {a})")),
        ] {
            push("dynamic-other", on, &[an], "dynamic", target, e);
        }
    }
    // the same boundary values bound to a property of EVERY type (implicit conversions and their refusal)
    for (an, a) in [INTS[0], INTS[3], INTS[4], INTS[5], INTS[8], INTS[9], INTS[11], INTS[12]] {
        for (on, e) in [("plain", a.to_owned()), ("neg", format!("-{a}")), ("as-uint", format!("{a} as uint")), ("as-double", format!("{a} as double")), ("plus-one", format!("{a} + 1"))] {
            for (tn, _) in TARGETS.iter().copied() {
                push("cross-target", on, &[an], "constant", tn, e.clone());
            }
        }
    }
    for (dn, d) in HOT_D.iter().copied() {
        for (tn, _) in TARGETS.iter().copied() {
            push("cross-target", "double", &[dn], "constant", tn, (*d).to_owned());
        }
    }
    // callback statements
    for (on, op) in [("div", "/"), ("rem", "%"), ("shl", "<<"), ("mul", "*"), ("add", "+")] {
        for (an, a) in core[..8].iter().copied() {
            for (bn, b) in HOT_B.iter().copied() {
                push("callback", on, &[an, bn], "constant", "callback-int", format!("{a} {op} {b}"));
            }
        }
    }
    out
}

/// A sample for the real CLI: per construct two documents, chosen by the seed (at most `max`).
pub fn cli_sample(docs: &[BcDoc], seed: u64, max: usize) -> Vec<usize> {
    let mut by_construct: std::collections::BTreeMap<&str, Vec<usize>> = Default::default();
    for (i, d) in docs.iter().enumerate() {
        by_construct.entry(d.labels[1].as_str()).or_default().push(i);
    }
    let mut picked = vec![];
    for round in 0..3 {
        for (k, (_, v)) in by_construct.iter().enumerate() {
            if picked.len() < max {
                let mut rng = Rng::fork(seed, "c07-bc-cli", (round * 100 + k) as u64);
                picked.push(*rng.pick(v));
            }
        }
    }
    picked.sort();
    picked.dedup();
    picked
}
