//! C07 — trivia: comments and blank space are *extras* of the tree-sitter grammar, so a valid document with a comment or
//! a blank line inserted between two tokens must behave exactly like the document without it.  This module finds the
//! token boundaries of a valid document on its concrete syntax tree, names the *position class* of each boundary
//! (`parent-kind:previous-sibling|next-sibling`, e.g. `switch_body:{|switch_case`, `else_clause:else|statement_block`,
//! `ui_import:import|identifier`, `program:^|ui_import`) and holds the table of the position classes at which the grammar
//! itself gives a different parse (restricted productions / automatic semicolon insertion, immediate tokens).
use qmluic::qmlast::Node;
use qmluic::qmldoc::UiDocument;

/// One place where trivia can be inserted: a byte offset at the start or the end of a token.
#[derive(Clone, Debug)]
pub struct Boundary {
    pub pos: usize,
    /// kind of the parent of `parent` (`-` for the root)
    pub grand: String,
    /// kind of the innermost node the position is strictly inside of
    pub parent: String,
    /// the children of `parent` before and after the position (`^` / `$` = none)
    pub prev: String,
    pub next: String,
}

/// Parent kinds whose meaning depends on where they stand: their class name carries the grandparent too
/// (`ui_object_definition` is a member of an object, the root of the document, or the VALUE of a binding).
const CONTEXT_SENSITIVE: &[&str] = &["ui_object_definition"];

impl Boundary {
    pub fn class(&self) -> String {
        if CONTEXT_SENSITIVE.contains(&self.parent.as_str()) {
            format!("{}>{}:{}|{}", self.grand, self.parent, self.prev, self.next)
        } else {
            format!("{}:{}|{}", self.parent, self.prev, self.next)
        }
    }
}

/// Nodes that are not entered: text inside them is content, not trivia.
fn is_atomic(n: &Node) -> bool {
    n.child_count() == 0 || matches!(n.kind(), "string" | "template_string" | "regex" | "comment" | "number")
}

/// Coarse name of a sibling: anonymous tokens by their text, named nodes by their kind; expression and statement kinds are
/// folded so that the number of classes stays readable (`E` = expression, `S` = statement).
fn sibling_name(n: &Node) -> String {
    if !n.is_named() {
        return n.kind().to_owned();
    }
    let k = n.kind();
    if n.is_extra() {
        return "comment".to_owned();
    }
    if k.ends_with("_expression")
        || matches!(
            k,
            "identifier"
                | "number"
                | "string"
                | "template_string"
                | "regex"
                | "true"
                | "false"
                | "null"
                | "undefined"
                | "this"
                | "array"
                | "object"
                | "function"
                | "arrow_function"
                | "property_identifier"
                | "nested_identifier"
        )
    {
        return "E".to_owned();
    }
    if k.ends_with("_statement") || k.ends_with("_declaration") || k == "statement_block" {
        return "S".to_owned();
    }
    k.to_owned()
}

fn classify(root: Node, p: usize) -> Boundary {
    let mut node = root;
    loop {
        let mut cursor = node.walk();
        let mut inner = None;
        for c in node.children(&mut cursor) {
            if c.start_byte() < p && p < c.end_byte() && !is_atomic(&c) {
                inner = Some(c);
                break;
            }
        }
        match inner {
            Some(c) => node = c,
            None => break,
        }
    }
    let mut cursor = node.walk();
    let mut prev = "^".to_owned();
    let mut next = "$".to_owned();
    for c in node.children(&mut cursor) {
        if c.start_byte() == c.end_byte() {
            continue;
        }
        if c.end_byte() <= p {
            prev = sibling_name(&c);
        } else if c.start_byte() >= p {
            next = sibling_name(&c);
            break;
        }
    }
    Boundary { pos: p, grand: node.parent().map(|g| g.kind().to_owned()).unwrap_or_else(|| "-".to_owned()), parent: node.kind().to_owned(), prev, next }
}

/// Token boundaries of a document WITHOUT syntax errors (None otherwise): offset 0, the start and the end of every token,
/// the end of the text; sorted, without duplicates.
pub fn boundaries(doc: &UiDocument) -> Option<Vec<Boundary>> {
    if doc.has_syntax_error() {
        return None;
    }
    let src = doc.source();
    let root = doc.root_node();
    let mut points: Vec<usize> = vec![0, src.len()];
    let mut cursor = root.walk();
    'walk: loop {
        let n = cursor.node();
        let enter = !is_atomic(&n);
        if !enter && n.start_byte() < n.end_byte() {
            points.push(n.start_byte());
            // text put directly after a `//` comment would become part of that comment: the gap after it is reached
            // from the start of the next token
            if !(n.kind() == "comment" && src[n.start_byte()..].starts_with("//")) {
                points.push(n.end_byte());
            }
        }
        if enter && cursor.goto_first_child() {
            continue;
        }
        loop {
            if cursor.goto_next_sibling() {
                break;
            }
            if !cursor.goto_parent() {
                break 'walk;
            }
        }
    }
    points.sort_unstable();
    points.dedup();
    Some(
        points
            .into_iter()
            .filter(|&p| src.is_char_boundary(p))
            .map(|p| classify(root, p))
            .collect(),
    )
}

/// Does the trivia text contain a line terminator (which matters for automatic semicolon insertion)?
pub fn has_newline(trivia: &str) -> bool {
    trivia.contains(['\n', '\r', '\u{2028}', '\u{2029}'])
}

/// The trivia texts.  `inline` ones contain no line terminator.
pub const INLINE: &[&str] = &[
    "/* c */",
    "/**/",
    " /* /* */ ",
    "/* é中😀 */",
    " /* \" ' ` */ ",
    "/* // */",
    "/* } ] ) { [ ( */",
    "/*\t*//**/",
    " ",
    "\t",
    "  /***/  ",
];
pub const WITH_NEWLINE: &[&str] = &[
    "// c\n",
    "//\n",
    " // é中😀 \u{301}\n",
    "// /* \n",
    "// */ \" ' `\n",
    "// } ] ) { [ (\r\n",
    "\n",
    "\n\n\n",
    "\r\n",
    "/* a\n b */",
    "\n/*\n*/\n",
    " // a\n // b\n",
];

pub fn boundary_at(doc: &UiDocument, pos: usize) -> Boundary {
    classify(doc.root_node(), pos)
}

/// Position classes at which the GRAMMAR (tree-sitter-qmljs on top of tree-sitter-javascript / ECMAScript) gives a different
/// parse when trivia is put in — all of them only for trivia that contains a LINE TERMINATOR; no position class was found
/// at which a comment or blank without line terminator changes the parse.
/// (grandparent, parent, previous sibling, next sibling, reason); `*` matches anything.
/// Recorded from a survey of every class met in the pool (thorough tier: 160 insertions per class).  At these positions
/// the trivia oracle only demands totality of the mutated text; what was observed (syntax error / different parse / same)
/// is counted in the answer.
const GRAMMAR_EXCEPTIONS: &[(&str, &str, &str, &str, &str)] = &[
    // ECMAScript restricted productions ("no LineTerminator here", automatic semicolon insertion)
    ("*", "return_statement", "return", "*", "ES restricted production: `return` LineTerminator = `return;`"),
    ("*", "break_statement", "break", "*", "ES restricted production: `break` LineTerminator = `break;`"),
    ("*", "continue_statement", "continue", "*", "ES restricted production: `continue` LineTerminator = `continue;`"),
    ("*", "throw_statement", "throw", "*", "ES restricted production: no LineTerminator after `throw`"),
    ("*", "yield_expression", "yield", "*", "ES restricted production: no LineTerminator after `yield`"),
    ("*", "update_expression", "E", "++", "ES restricted production: no LineTerminator before postfix `++`"),
    ("*", "update_expression", "E", "--", "ES restricted production: no LineTerminator before postfix `--`"),
    ("*", "function_expression", "async", "*", "ES restricted production: no LineTerminator between `async` and `function`"),
    ("*", "function_declaration", "async", "*", "ES restricted production: no LineTerminator between `async` and `function`"),
    ("*", "arrow_function", "async", "*", "ES restricted production: no LineTerminator after `async`"),
    ("*", "arrow_function", "*", "=>", "ES restricted production: no LineTerminator before `=>`"),
    // TypeScript-style type assertion of the QML grammar
    ("*", "as_expression", "E", "as", "grammar: no LineTerminator before `as` (as in TypeScript); the expression ends at the line break"),
    // tree-sitter-javascript: stricter than ECMAScript
    ("*", "lexical_declaration", "let", "*", "tree-sitter-javascript: `let` LineTerminator is read as the identifier `let` + a new statement (ECMAScript reads a declaration)"),
    ("*", "new_expression", "new", "*", "tree-sitter-javascript: a line break after `new` is a syntax error (ECMAScript allows it)"),
    // tree-sitter-qmljs: QML members end at the line terminator (automatic semicolon)
    ("*", "ui_import", "E", "ui_version_specifier", "tree-sitter-qmljs: an import ends at the line break (automatic semicolon): version / `as` on the next line is a syntax error"),
    ("*", "ui_import", "E", "as", "tree-sitter-qmljs: an import ends at the line break"),
    ("*", "ui_import", "ui_version_specifier", "as", "tree-sitter-qmljs: an import ends at the line break"),
    ("*", "ui_signal", "E", "ui_signal_parameters", "tree-sitter-qmljs: `signal s` ends at the line break, `(…)` on the next line is a syntax error"),
    (
        "ui_binding",
        "ui_object_definition",
        "E",
        "ui_object_initializer",
        "tree-sitter-qmljs: `name: Type` LineTerminator `{` — the binding ends at the line break with the value `Type` (automatic semicolon), the `{…}` is a syntax error",
    ),
];

pub fn grammar_exception(b: &Boundary, trivia: &str) -> Option<&'static str> {
    if !has_newline(trivia) {
        return None;
    }
    let m = |pat: &str, x: &str| pat == "*" || pat == x;
    GRAMMAR_EXCEPTIONS.iter().find(|(g, p, a, n, _)| m(g, &b.grand) && m(p, &b.parent) && m(a, &b.prev) && m(n, &b.next)).map(|e| e.4)
}
