//! C07 — component SETS (family `set`): several QML files in one or several directories; the main document instantiates
//! components of the set, and the components derive from / instantiate each other in every shape a directory can hold:
//!
//!   self-root          `Foo.qml` = `Foo { … }`                                   (inheritance cycle of length 1)
//!   self-root-child    `Foo.qml` = `Foo { Foo { … } }`                            (… and instantiates itself as a child too)
//!   self-child         `Foo.qml` = `QWidget { Foo { … } }`                       (root is a Qt class; instantiates itself)
//!   cycle2 / cycle3    A = `B {}`, B = `A {}` / A → B → C → A
//!   import-cycle       `app/Main.qml` has `import "../lib"`; the 2-cycle lives in `lib/`
//!   import-self        … the self-rooted component lives in `lib/`
//!   cross-dir-cycle    `app/A.qml` (`import "../lib"`) = `B {}`, `lib/B.qml` (`import "../app"`) = `A {}`
//!   chain-into-cycle   D → C → B → A → B
//!   diamond-cycle      L = `Base {}`, R = `Base {}`, Base → X → Base
//!   diamond-ok         L = `Base {}`, R = `Base {}`, Base = `QPushButton {}`; an UNUSED 2-cycle lies in the same directory
//!   mutual-child       A = `QWidget { B {} }`, B = `QWidget { A {} }`            (instantiation cycle, no inheritance cycle)
//!   cycle-behind-child A = `QWidget { B {} }`, B = `B {}`                         (the main document only sees A)
//!   chain-ok           D → C → B → A = `QPushButton {}`                          (control)
//!   dangling           B → A = `NoSuchType {}`                                   (the chain ends nowhere, without cycle)
//!
//! each with the instance used as the ROOT or as a CHILD of the main document, carrying a static binding / a dynamic binding /
//! a callback (a look-up of a property or signal walks the chain of super classes), with ASCII and non-ASCII names.
//!
//! What is demanded: the totality oracle (no panic, no time-out, exit status 0 or 1, output or ≥ 1 error, ranges on
//! character boundaries) for every file of the set as a source — and a document that INSTANTIATES a component whose chain of
//! roots never reaches a Qt class must be REJECTED (`reject`); the documents the unchanged translator accepts by design are
//! marked `accept` (non-vacuity: the family is not rejected wholesale).
use crate::rng::Rng;

#[derive(Clone, Debug)]
pub struct SetFile {
    /// directory below the root of the set (`` / `app` / `lib`)
    pub dir: &'static str,
    pub stem: String,
    pub text: String,
    /// `reject` / `accept` / `any` when this file is a source
    pub expect: &'static str,
    /// translating this file looks something up on a class whose chain of super classes is cyclic
    pub touches_cycle: bool,
}

#[derive(Clone, Debug)]
pub struct ComponentSet {
    pub shape: &'static str,
    pub usage: &'static str,
    pub feature: &'static str,
    pub names: &'static str,
    pub files: Vec<SetFile>,
}

pub const SHAPES: &[&str] = &[
    "self-root",
    "self-root-child",
    "self-child",
    "cycle2",
    "cycle3",
    "import-cycle",
    "import-self",
    "cross-dir-cycle",
    "chain-into-cycle",
    "diamond-cycle",
    "diamond-ok",
    "mutual-child",
    "cycle-behind-child",
    "chain-ok",
    "dangling",
];
pub const USAGES: &[&str] = &["root", "child"];
pub const FEATURES: &[&str] = &["static", "dynamic", "callback"];
pub const NAME_SETS: &[(&str, [&str; 6])] = &[("ascii", ["Alpha", "Beta", "Gamma", "Delta", "Unused1", "Unused2"]), ("non-ascii", ["Étiquette", "Ébouton", "Ωmega", "𝒳label", "Ａbc", "Ǆx"])];

fn members(feature: &str) -> &'static str {
    match feature {
        "static" => "    windowTitle: \"x\"\n",
        "dynamic" => "    windowTitle: edit.text\n    statusTip: edit.text + \"!\"\n",
        _ => "    onWindowTitleChanged: edit.clear()\n    onWindowIconTextChanged: function(t: QString) { edit.text = t }\n",
    }
}

/// A component: `root_type { id: self_; QLineEdit { id: edit } <feature> <children> }`
fn component(imports: &[&str], root_type: &str, feature: &str, children: &[&str]) -> String {
    let mut s = String::from("import qmluic.QtWidgets\n");
    for i in imports {
        s.push_str(&format!("import \"{i}\"\n"));
    }
    s.push_str(&format!("\n{root_type} {{\n    id: self_\n    QLineEdit {{ id: edit }}\n{}", members(feature)));
    for c in children {
        s.push_str(&format!("    {c} {{\n        toolTip: \"child\"\n"));
        for line in members(feature).lines() {
            s.push_str("    ");
            s.push_str(line);
            s.push('\n');
        }
        s.push_str("    }\n");
    }
    s.push_str("}\n");
    s
}

/// The main document: the entry component(s) as its root / as children.
fn main_doc(imports: &[&str], usage: &str, feature: &str, entries: &[&str]) -> String {
    if usage == "root" {
        component(imports, entries[0], feature, &entries[1..])
    } else {
        component(imports, "QDialog", feature, entries)
    }
}

pub fn build(shape: &'static str, usage: &'static str, feature: &'static str, name_set: usize) -> ComponentSet {
    let (names, n) = (NAME_SETS[name_set].0, NAME_SETS[name_set].1);
    let f = |dir: &'static str, stem: &str, text: String, expect: &'static str, touches_cycle: bool| SetFile { dir, stem: stem.to_owned(), text, expect, touches_cycle };
    let plain = |root: &str| component(&[], root, feature, &[]);
    let files = match shape {
        "self-root" => vec![f("", n[0], plain(n[0]), "reject", true), f("", "Main", main_doc(&[], usage, feature, &[n[0]]), "reject", true)],
        "self-root-child" => vec![f("", n[0], component(&[], n[0], feature, &[n[0]]), "reject", true), f("", "Main", main_doc(&[], usage, feature, &[n[0]]), "reject", true)],
        "self-child" => vec![f("", n[0], component(&[], "QWidget", feature, &[n[0]]), "accept", false), f("", "Main", main_doc(&[], usage, feature, &[n[0]]), "accept", false)],
        "cycle2" => vec![
            f("", n[0], plain(n[1]), "reject", true),
            f("", n[1], plain(n[0]), "reject", true),
            f("", "Main", main_doc(&[], usage, feature, &[n[0]]), "reject", true),
        ],
        "cycle3" => vec![
            f("", n[0], plain(n[1]), "reject", true),
            f("", n[1], plain(n[2]), "reject", true),
            f("", n[2], plain(n[0]), "reject", true),
            f("", "Main", main_doc(&[], usage, feature, &[n[0]]), "reject", true),
        ],
        "import-cycle" => vec![
            f("lib", n[0], plain(n[1]), "reject", true),
            f("lib", n[1], plain(n[0]), "reject", true),
            f("app", "Main", main_doc(&["../lib"], usage, feature, &[n[0]]), "reject", true),
        ],
        "import-self" => vec![f("lib", n[0], plain(n[0]), "reject", true), f("app", "Main", main_doc(&["../lib"], usage, feature, &[n[0]]), "reject", true)],
        "cross-dir-cycle" => vec![
            f("app", n[0], component(&["../lib"], n[1], feature, &[]), "reject", true),
            f("lib", n[1], component(&["../app"], n[0], feature, &[]), "reject", true),
            f("app", "Main", main_doc(&[], usage, feature, &[n[0]]), "reject", true),
        ],
        "chain-into-cycle" => vec![
            f("", n[0], plain(n[1]), "reject", true),
            f("", n[1], plain(n[0]), "reject", true),
            f("", n[2], plain(n[1]), "reject", true),
            f("", n[3], plain(n[2]), "reject", true),
            f("", "Main", main_doc(&[], usage, feature, &[n[3]]), "reject", true),
        ],
        "diamond-cycle" => vec![
            f("", n[0], plain(n[2]), "reject", true),
            f("", n[1], plain(n[2]), "reject", true),
            f("", n[2], plain(n[3]), "reject", true),
            f("", n[3], plain(n[2]), "reject", true),
            f("", "Main", main_doc(&[], usage, feature, &[n[0], n[1]]), "reject", true),
        ],
        "diamond-ok" => vec![
            f("", n[0], plain(n[2]), "accept", false),
            f("", n[1], plain(n[2]), "accept", false),
            f("", n[2], plain("QPushButton"), "accept", false),
            // an unused cycle in the same directory
            f("", n[4], plain(n[5]), "reject", true),
            f("", n[5], plain(n[4]), "reject", true),
            f("", "Main", main_doc(&[], usage, feature, &[n[0], n[1]]), "accept", false),
        ],
        "mutual-child" => vec![
            f("", n[0], component(&[], "QWidget", feature, &[n[1]]), "accept", false),
            f("", n[1], component(&[], "QWidget", feature, &[n[0]]), "accept", false),
            f("", "Main", main_doc(&[], usage, feature, &[n[0]]), "accept", false),
        ],
        "cycle-behind-child" => vec![
            f("", n[0], component(&[], "QWidget", feature, &[n[1]]), "reject", true),
            f("", n[1], plain(n[1]), "reject", true),
            // the main document sees only the class of n[0], whose root is a Qt class
            f("", "Main", main_doc(&[], usage, feature, &[n[0]]), "accept", false),
        ],
        "chain-ok" => vec![
            f("", n[0], plain("QPushButton"), "accept", false),
            f("", n[1], plain(n[0]), "accept", false),
            f("", n[2], plain(n[1]), "accept", false),
            f("", n[3], plain(n[2]), "accept", false),
            f("", "Main", main_doc(&[], usage, feature, &[n[3]]), "accept", false),
        ],
        // "dangling"
        _ => vec![
            f("", n[0], plain("NoSuchType"), "reject", false),
            f("", n[1], plain(n[0]), "reject", false),
            f("", "Main", main_doc(&[], usage, feature, &[n[1]]), "reject", false),
        ],
    };
    ComponentSet { shape, usage, feature, names, files }
}

impl ComponentSet {
    pub fn labels(&self) -> Vec<String> {
        vec!["set".to_owned(), format!("set:shape:{}", self.shape), format!("set:usage:{}", self.usage), format!("set:feat:{}", self.feature), format!("set:names:{}", self.names)]
    }

    pub fn path_of(file: &SetFile) -> String {
        if file.dir.is_empty() { format!("{}.qml", file.stem) } else { format!("{}/{}.qml", file.dir, file.stem) }
    }
}

/// Every set of a run: every (shape, usage, feature) once with the name set alternating (by the seed), and every shape
/// once more with the other name set.
pub fn sets(seed: u64) -> Vec<ComponentSet> {
    let mut v = vec![];
    let mut k = (seed % 2) as usize;
    for (si, shape) in SHAPES.iter().enumerate() {
        for usage in USAGES {
            for feature in FEATURES {
                v.push(build(shape, usage, feature, k % 2));
                k += 1;
            }
        }
        let mut rng = Rng::fork(seed, "c07-set-extra", si as u64);
        v.push(build(shape, *rng.pick(USAGES), *rng.pick(FEATURES), (k + 1) % 2));
    }
    v
}
