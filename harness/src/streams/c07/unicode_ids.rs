//! C07 — identifiers with non-ASCII letters (family `uid`).
//!
//! The tree-sitter-qmljs grammar admits (almost) every non-ASCII character in an identifier (measured: é ß ǅ 中 ラ ﬁ 𝓍 😀 U+10FFFF,
//! combining marks and ZWJ also as the FIRST character, `é` escapes; NOT U+00A0/Zs, U+2028, U+FEFF, U+200B, U+2060), and
//! qmluic copies identifiers of the document into object names, C++ function names (`setup<Object><Property>`), class names,
//! include guards and FILE names — after ASCII-only case changes of the first character (`qtname::to_ascii_capitalized`,
//! `to_ascii_uncapitalized`, `variable_name_for_type`, `callback_to_signal_name`, `FileNameRules`).  Any byte-wise treatment of
//! "the first character" is wrong for these names.  This module builds, systematically,
//!
//!   * OBJECT documents: name source (nested id / root id / id deep inside layouts / two ids that differ in the first character
//!     only / custom component type without id → generated object name / component type + id / the type name of the document
//!     itself) × feature that derives a name from it (static, dynamic property binding, dynamic gadget member, gadget group,
//!     size policy, attached property, type error in a dynamic binding, callbacks with and without body / parameter / self
//!     reference, several at once, referenced from another object's binding / callback / `buddy:` / ternary of pointers /
//!     `actions: [...]` / `menuAction()`, item model, nested object map) × identifier pool;
//!   * SYNTAX documents: the name at every other place of the grammar an identifier can stand (locals, parameters, switch / if
//!     bodies, members after a dot, enum and type names, casts, attached and grouped names, `on<Signal>` spellings, property /
//!     signal / function / enum / inline-component declarations, unknown object types, imports, pragmas, …) × identifier pool;
//!   * FOREIGN documents: C++ classes whose class, property, signal, slot, method, enum and enumerator names are non-ASCII
//!     (`foreign_classes`; the CLI gets them as a metatypes file), so that the PROPERTY half of a derived name is non-ASCII too;
//!   * FILE-NAME documents: type names (in-process) / file names (CLI) from the pool plus names with blanks, dots, a leading
//!     dash or dot, an upper-case extension, 160 bytes;
//!   * MULTI documents: several of the object snippets and syntax members in one document (random, from the seed).
//!
//! Every document has an ASCII TWIN: the same builder run with the pool names replaced consistently by ASCII names of the same
//! upper/lower-case class of the first character (`char::is_uppercase`, what `qmlast::term::is_type_name` looks at).
//! Identifiers are opaque to the translator, so the twin must be accepted / rejected alike (see `c07-twin` in c07.rs).
use crate::rng::Rng;
use qmluic::metatype::{Argument, Class, Enum, Method, Property};

#[derive(Clone, Copy, Debug)]
pub struct Ident {
    pub text: &'static str,
    /// ASCII stand-in (unique, same `is_uppercase` class of the first character, same `_` / `$` prefix)
    pub twin: &'static str,
    /// class of the FIRST character (label `uid:first:…`)
    pub first: &'static str,
    /// member of the reduced pool used for runs of the real CLI
    pub core: bool,
}

impl Ident {
    pub fn upper(&self) -> bool {
        self.text.chars().next().unwrap().is_uppercase()
    }
}

const fn id(text: &'static str, twin: &'static str, first: &'static str, core: bool) -> Ident {
    Ident { text, twin, first, core }
}

/// Identifier pool.  The first character decides what the ASCII-only helpers of qtname.rs see; `is_uppercase` (Unicode)
/// decides whether qmlast takes a dotted head for a type name.
pub const POOL: &[Ident] = &[
    // first character is not upper case
    id("étiquette", "zqaetiquette", "2byte", true),
    id("ßtraße", "zqbstrasse", "2byte", false),
    id("ǅemal", "zqcdzemal", "2byte-titlecase", false),
    id("ñ", "zqdn", "2byte-single-char", true),
    id("中文", "zqezhongwen", "3byte", true),
    id("ラベル", "zqfraberu", "3byte", false),
    id("ﬁeld", "zqgfield", "3byte-ligature", false),
    id("中", "zqhzhong", "3byte-single-char", false),
    id("𝓍label", "zqixlabel", "4byte", true),
    id("😀", "zqjsmile", "4byte-emoji", false),
    id("\u{10FFFF}t", "zqkmax", "4byte-noncharacter", false),
    id("e\u{301}tiquette", "zqlcomb", "ascii+combining", true),
    id("é\u{301}\u{200d}t", "zqmzwj", "2byte+combining+zwj", false),
    id("\u{301}x", "zqncombfirst", "2byte-combining-first", false),
    id("_é", "_zqoe", "underscore", true),
    id("$é", "$zqpe", "dollar", false),
    id("labélé", "zqqlabele", "ascii-first", true),
    id("\\u00e9t", "zqrescape", "escape-spelled", false),
    id("etiquette", "etiquette", "ascii", true),
    // first character is upper case (Unicode)
    id("Étiquette", "Zraetiquette", "2byte-upper", true),
    id("Ωmega", "Zrbomega", "2byte-upper", false),
    id("İx", "Zrcix", "2byte-upper-expanding", false),
    id("Ǆx", "Zrddz", "2byte-upper-digraph", false),
    id("É", "Zree", "2byte-upper-single-char", false),
    id("Ａbc", "Zrffull", "3byte-upper", true),
    id("Ⅻx", "Zrgroman", "3byte-other-uppercase", false),
    id("𝒳label", "Zrhxlabel", "4byte-upper", true),
    id("𐐀x", "Zrideseret", "4byte-upper", false),
    id("Labél", "Zrjlabel", "ascii-first-upper", false),
    id("Etiquette", "Etiquette", "ascii-upper", true),
];

/// The names a builder puts into a document: the real ones or the ASCII twins.
#[derive(Clone, Debug)]
pub struct Names {
    /// the name under test
    pub n: String,
    /// a second name that differs from `n` in the first character only (case flipped where there is a case, else the
    /// next code point)
    pub sib: String,
    /// a component type name (upper-case pool) for `comp-id`
    pub comp: String,
}

fn first_letter_varied(name: &str) -> String {
    if name.starts_with('\\') {
        // escape-spelled: `ét` → `Ét`
        return name.replacen("e9", "c9", 1);
    }
    let cs: Vec<char> = name.chars().collect();
    let k = cs.iter().position(|c| c.is_alphabetic()).unwrap_or(0);
    let c = cs[k];
    let mut varied: String = if c.is_uppercase() { c.to_lowercase().collect() } else { c.to_uppercase().collect() };
    if varied == c.to_string() {
        // no other case (中, 𝒳 — an upper-case letter without lower-case mapping): the next code point
        varied = char::from_u32(c as u32 + 1).unwrap_or('é').to_string();
    }
    let mut s: String = cs[..k].iter().collect();
    s.push_str(&varied);
    s.extend(cs[k + 1..].iter());
    s
}

pub fn names_of(i: &Ident, comp: &Ident) -> (Names, Names) {
    let sib = first_letter_varied(i.text);
    let sib_upper = sib.chars().next().unwrap().is_uppercase();
    let stem: String = i.twin.chars().filter(|c| c.is_ascii_alphanumeric()).collect::<String>().to_ascii_lowercase();
    let twin_sib = format!("{}{}", if sib_upper { "Zs" } else { "zs" }, stem);
    (
        Names { n: i.text.to_owned(), sib, comp: comp.text.to_owned() },
        Names { n: i.twin.to_owned(), sib: twin_sib, comp: comp.twin.to_owned() },
    )
}

/// One built document (real or twin).
#[derive(Clone, Debug)]
pub struct Built {
    pub text: String,
    pub type_name: String,
    /// custom component types the document instantiates (all derive QPushButton): in-process they are in the directory
    /// module of `VIRTUAL_DIR` (fixed set: every pool name and twin), for the CLI they are written next to the document
    pub comps: Vec<String>,
}

pub const VIRTUAL_DIR: &str = "/qv-c07-virtual-dir";
pub const COMPONENT_SOURCE: &str = "import qmluic.QtWidgets\nQPushButton {}\n";

/// Names of the components of the virtual directory module (in-process).
pub fn virtual_components() -> Vec<String> {
    let mut v: Vec<String> = vec![];
    for i in POOL {
        for n in [i.text, i.twin] {
            if !v.iter().any(|x| x == n) {
                v.push(n.to_owned());
            }
        }
    }
    v
}

// ------------------------------------------------------------------------------------------------ object documents

pub const SOURCES: &[&str] = &["id-nested", "id-root", "id-deep", "id-pair", "comp-noid", "comp-id", "doc-type"];

pub const FEATURES: &[&str] = &[
    "static",
    "dyn-prop",
    "dyn-gadget",
    "dyn-gadget-group",
    "dyn-sizepolicy",
    "dyn-attached",
    "dyn-type-error",
    "callback",
    "callback-body",
    "callback-param",
    "callback-self",
    "self-dyn",
    "multi",
    "ref-binding",
    "ref-callback",
    "buddy",
    "ref-ternary-ptr",
    "actions",
    "menuaction",
    "item-model",
    "objectmap-dyn",
];

#[derive(Clone, Copy)]
struct Subject {
    ty: &'static str,
    strprop: &'static str,
    sig0: &'static str,
    sig1: &'static str,
    sig1_ty: &'static str,
    method: &'static str,
    /// a string property with a notify signal (may be read in a binding)
    obs: &'static str,
}

const BUTTON: Subject = Subject { ty: "QPushButton", strprop: "text", sig0: "onClicked", sig1: "onToggled", sig1_ty: "bool", method: "click", obs: "windowTitle" };
const DIALOG: Subject = Subject { ty: "QDialog", strprop: "windowTitle", sig0: "onAccepted", sig1: "onFinished", sig1_ty: "int", method: "accept", obs: "windowTitle" };
const ACTION: Subject = Subject { ty: "QAction", strprop: "text", sig0: "onTriggered", sig1: "onToggled", sig1_ty: "bool", method: "trigger", obs: "text" };
const MENU: Subject = Subject { ty: "QMenu", strprop: "title", sig0: "onAboutToShow", sig1: "onTriggered", sig1_ty: "QAction", method: "clear", obs: "windowTitle" };
const COMBO: Subject = Subject { ty: "QComboBox", strprop: "currentText", sig0: "onActivated", sig1: "onCurrentIndexChanged", sig1_ty: "int", method: "clear", obs: "currentText" };
const TABLE: Subject = Subject { ty: "QTableView", strprop: "toolTip", sig0: "onClicked", sig1: "onActivated", sig1_ty: "QModelIndex", method: "clearSelection", obs: "windowTitle" };

struct Parts {
    subject: Option<Subject>,
    members: Vec<String>,
    companions: Vec<String>,
    root_members: Vec<String>,
}

/// The members a feature puts on the subject object, on companion objects and on the root.  `me`: the id of the subject
/// (None: it has none — `this` where the feature can do with it, otherwise the combination does not exist).
fn feature_parts(feature: &str, default_subject: Subject, me: Option<&str>) -> Option<Parts> {
    let mut p = Parts { subject: None, members: vec![], companions: vec![], root_members: vec![] };
    let s = match feature {
        "actions" => ACTION,
        "menuaction" => MENU,
        "item-model" => COMBO,
        "objectmap-dyn" => TABLE,
        _ => default_subject,
    };
    if s.ty != default_subject.ty {
        p.subject = Some(s);
    }
    let this_or_me = me.unwrap_or("this");
    match feature {
        "static" => p.members.push(format!("{}: \"x\"", s.strprop)),
        "dyn-prop" => p.members.push(format!("{}: edit.text", s.strprop)),
        "dyn-gadget" => p.members.push("font.bold: check.checked".into()),
        "dyn-gadget-group" => p.members.push("font { bold: check.checked; pointSize: spin.value }".into()),
        "dyn-sizepolicy" => p.members.push("sizePolicy.horizontalStretch: spin.value".into()),
        "dyn-attached" => p.members.push("QLayout.alignment: check.checked ? Qt.AlignLeft : Qt.AlignRight".into()),
        "dyn-type-error" => p.members.push(format!("{}: spin.value", s.strprop)),
        "callback" => p.members.push(format!("{}: {{}}", s.sig0)),
        "callback-body" => p.members.push(format!("{}: {{ edit.text = \"x\"; spin.value = spin.value + 1 }}", s.sig0)),
        "callback-param" => p.members.push(format!("{}: function(v: {}) {{ check.checked = !check.checked; let w = v }}", s.sig1, s.sig1_ty)),
        "callback-self" => p.members.push(format!("{}: {this_or_me}.{} = edit.text", s.sig0, s.strprop)),
        "self-dyn" => p.members.push(format!("toolTip: {this_or_me}.{}", s.obs)),
        "multi" => {
            p.members.push(format!("{}: edit.text", s.strprop));
            p.members.push("enabled: check.checked".into());
            p.members.push("font.bold: check.checked".into());
            p.members.push(format!("{}: {{}}", s.sig0));
            p.members.push(format!("{}: function(v: {}) {{}}", s.sig1, s.sig1_ty));
            p.members.push("onWindowTitleChanged: edit.clear()".into());
        }
        "ref-binding" => {
            p.members.push(format!("{}: \"w\"", s.obs));
            p.companions.push(format!("QLabel {{ text: {}.{} }}", me?, s.obs));
        }
        "ref-callback" => {
            p.companions.push(format!("QPushButton {{ onClicked: {{ {0}.{1} = \"y\"; {0}.{2}() }} }}", me?, s.strprop, s.method));
        }
        "buddy" => p.companions.push(format!("QLabel {{ buddy: {} }}", me?)),
        "ref-ternary-ptr" => p.companions.push(format!("QLabel {{ buddy: check.checked ? ({} as QWidget) : (edit as QWidget) }}", me?)),
        "actions" => {
            p.members.push("text: edit.text".into());
            p.members.push("onTriggered: edit.clear()".into());
            p.companions.push("QAction { id: otherAct }".into());
            p.root_members.push(format!("actions: [{}, otherAct]", me?));
        }
        "menuaction" => {
            p.members.push("title: edit.text".into());
            p.members.push("QAction { text: \"in menu\" }".into());
            p.root_members.push(format!("actions: [{}.menuAction()]", me?));
        }
        "item-model" => {
            p.members.push("model: [\"a\", \"b\"]".into());
            p.members.push("currentIndex: spin.value".into());
            p.members.push("onCurrentIndexChanged: function(i: int) { spin.value = i }".into());
        }
        "objectmap-dyn" => p.members.push("horizontalHeader.visible: check.checked".into()),
        _ => return None,
    }
    Some(p)
}

fn indent(lines: &[String], by: usize) -> String {
    let pad = " ".repeat(by);
    let mut s = String::new();
    for l in lines {
        for part in l.split('\n') {
            s.push_str(&pad);
            s.push_str(part);
            s.push('\n');
        }
    }
    s
}

fn object_block(ty: &str, id: Option<&str>, members: &[String]) -> String {
    let mut lines: Vec<String> = vec![];
    if let Some(i) = id {
        lines.push(format!("id: {i}"));
    }
    lines.extend(members.iter().cloned());
    format!("{ty} {{\n{}}}", indent(&lines, 4))
}

const HELPERS: [&str; 3] = ["QLineEdit { id: edit }", "QCheckBox { id: check }", "QSpinBox { id: spin }"];

/// One subject object (+ companions) as child members of a root; None if the combination does not exist.
/// Returns (children, root members, components used).
fn subject_children(source: &str, feature: &str, nm: &Names) -> Option<(Vec<String>, Vec<String>, Vec<String>)> {
    let mut comps = vec![];
    let (ty_override, me): (Option<String>, Option<&str>) = match source {
        "id-nested" | "id-deep" | "id-pair" => (None, Some(&nm.n)),
        "comp-noid" => {
            comps.push(nm.n.clone());
            (Some(nm.n.clone()), None)
        }
        "comp-id" => {
            comps.push(nm.comp.clone());
            (Some(nm.comp.clone()), Some(&nm.n))
        }
        "doc-type" => (None, Some("button")),
        _ => return None,
    };
    let parts = feature_parts(feature, BUTTON, me)?;
    if parts.subject.is_some() && ty_override.is_some() {
        return None; // a component is a QPushButton
    }
    if source == "id-deep" && feature == "actions" {
        return None; // an action is not a layout item
    }
    let ty = ty_override.unwrap_or_else(|| parts.subject.unwrap_or(BUTTON).ty.to_owned());
    let mut children = vec![];
    let block = object_block(&ty, me, &parts.members);
    children.push(match source {
        "id-deep" => format!("QVBoxLayout {{\n    QGroupBox {{\n        QGridLayout {{\n{}        }}\n    }}\n}}", indent(&[block], 12)),
        _ => block,
    });
    children.extend(parts.companions.iter().cloned());
    let mut root_members = parts.root_members.clone();
    if source == "id-pair" {
        // the same once more under a name that differs in the first character only
        let parts2 = feature_parts(feature, BUTTON, Some(&nm.sib))?;
        children.push(object_block(parts2.subject.unwrap_or(BUTTON).ty, Some(&nm.sib), &parts2.members));
        children.extend(parts2.companions.iter().filter(|c| !c.contains("id: otherAct")).cloned());
        // `actions:` may be bound once
        if let (Some(a), Some(b)) = (root_members.first().cloned(), parts2.root_members.first()) {
            if a.starts_with("actions: [") && b.starts_with("actions: [") {
                root_members[0] = format!("{}, {}", a.trim_end_matches(']'), &b["actions: [".len()..]);
            }
        }
    }
    Some((children, root_members, comps))
}

/// OBJECT document of one (source, feature) with the names `nm`.
pub fn object_doc(source: &str, feature: &str, nm: &Names) -> Option<Built> {
    if source == "id-root" {
        let parts = feature_parts(feature, DIALOG, Some(&nm.n))?;
        if parts.subject.is_some() {
            return None;
        }
        let mut lines: Vec<String> = vec![format!("id: {}", nm.n)];
        lines.extend(parts.members.iter().cloned());
        lines.extend(parts.root_members.iter().cloned());
        lines.extend(HELPERS.iter().map(|s| (*s).to_owned()));
        lines.extend(parts.companions.iter().cloned());
        return Some(Built { text: format!("import qmluic.QtWidgets\n\nQDialog {{\n{}}}\n", indent(&lines, 4)), type_name: "MyType".into(), comps: vec![] });
    }
    let (children, root_members, comps) = subject_children(source, feature, nm)?;
    let mut lines: Vec<String> = vec!["id: root".into()];
    lines.extend(root_members);
    lines.extend(HELPERS.iter().map(|s| (*s).to_owned()));
    lines.extend(children);
    Some(Built {
        text: format!("import qmluic.QtWidgets\n\nQDialog {{\n{}}}\n", indent(&lines, 4)),
        type_name: if source == "doc-type" { nm.n.clone() } else { "MyType".into() },
        comps,
    })
}

// ------------------------------------------------------------------------------------------------ syntax documents

/// (position, where, template): `{N}` is the name.  where: `M` member of the push button, `R` member of the root,
/// `D` whole document.
pub const SYNTAX: &[(&str, char, &str)] = &[
    ("local-let-binding", 'M', "text: { let {N} = edit.text; return {N} }"),
    ("local-let-typed", 'M', "text: { let {N}: QString = edit.text; {N} = {N} + \"!\"; return {N} }"),
    ("local-const-callback", 'M', "onClicked: { const {N} = spin.value; spin.value = {N} + 1 }"),
    ("local-shadow", 'M', "onClicked: { let {N} = 1; { let {N} = \"s\"; edit.text = {N} } spin.value = {N} }"),
    ("local-uninit", 'M', "text: { let {N}: QString; return {N} }"),
    ("local-unused", 'M', "onClicked: { let {N} = 1 }"),
    ("param", 'M', "onToggled: function({N}: bool) { check.checked = {N} }"),
    ("param-unused", 'M', "onToggled: function({N}: bool) {}"),
    ("param-dup", 'M', "onToggled: function({N}: bool, {N}: bool) {}"),
    ("param-untyped", 'M', "onToggled: function({N}) {}"),
    ("param-arrow", 'M', "onToggled: ({N}: bool) => { check.checked = {N} }"),
    ("param-arrow-bare", 'M', "onToggled: {N} => {N}"),
    ("function-name", 'M', "onToggled: function {N}(v: bool) {}"),
    ("switch-var", 'M', "text: { let {N} = spin.value; switch ({N}) { case 1: return \"a\"; default: return \"b\" } }"),
    ("switch-case-label", 'M', "text: { switch (spin.value) { case {N}: return \"a\"; default: return \"b\" } }"),
    ("switch-body", 'M', "onClicked: { switch (spin.value) { case 0: { let {N} = \"z\"; edit.text = {N}; break } default: break } }"),
    ("if-body", 'M', "onClicked: { if (check.checked) { let {N} = \"t\"; edit.text = {N} } else { let {N} = 0; spin.value = {N} } }"),
    ("if-condition", 'M', "onClicked: { let {N} = check.checked; if ({N}) edit.clear(); else spin.value = 0 }"),
    ("ternary-undefined", 'M', "text: check.checked ? {N} : \"n\""),
    ("bare-undefined", 'M', "text: {N}"),
    ("member-unknown-prop", 'M', "text: edit.{N}"),
    ("member-unknown-object", 'M', "text: {N}.text"),
    ("member-chain", 'M', "text: edit.{N}.{N}"),
    ("member-optional", 'M', "text: edit?.{N}"),
    ("member-this", 'M', "text: this.{N}"),
    ("member-subscript", 'M', "text: edit[\"{N}\"]"),
    ("method-unknown", 'M', "onClicked: edit.{N}()"),
    ("call-free", 'M', "text: {N}(\"x\")"),
    ("call-arg", 'M', "text: qsTr({N})"),
    ("assign-unknown-prop", 'M', "onClicked: edit.{N} = \"x\""),
    ("assign-undeclared", 'M', "onClicked: {N} = 1"),
    ("update-undeclared", 'M', "onClicked: {N}++"),
    ("enum-value", 'M', "focusPolicy: Qt.{N}"),
    ("enum-scope", 'M', "focusPolicy: {N}.StrongFocus"),
    ("enum-scope-deep", 'M', "focusPolicy: Qt.{N}.StrongFocus"),
    ("enum-compare", 'M', "enabled: label.alignment == Qt.{N}"),
    ("enum-or", 'M', "focusPolicy: Qt.StrongFocus | Qt.{N}"),
    ("cast-as", 'M', "text: edit.text as {N}"),
    ("cast-object", 'M', "onClicked: { let w = button as {N} }"),
    ("let-annotation", 'M', "onClicked: { let w: {N} = null }"),
    ("param-type", 'M', "onToggled: function(v: {N}) {}"),
    ("return-type", 'M', "onToggled: function(v: bool): {N} {}"),
    ("attached-type", 'M', "{N}.row: 1"),
    ("attached-type-dyn", 'M', "{N}.row: spin.value"),
    ("attached-prop", 'M', "QLayout.{N}: 1"),
    ("attached-prop-dyn", 'M', "QLayout.{N}: spin.value"),
    ("attached-handler", 'M', "QLayout.on{N}: {}"),
    ("grouped-prop", 'M', "font.{N}: 1"),
    ("grouped-prop-dyn", 'M', "font.{N}: check.checked"),
    ("grouped-head", 'M', "{N}.bold: true"),
    ("grouped-head-dyn", 'M', "{N}.bold: check.checked"),
    ("grouped-block", 'M', "{N} { bold: true }"),
    ("grouped-block-dyn", 'M', "{N} { bold: check.checked }"),
    ("grouped-block-member", 'M', "font { {N}: true }"),
    ("grouped-deep", 'M', "font.{N}.{N}: 1"),
    ("binding-name", 'M', "{N}: 1"),
    ("binding-name-dyn", 'M', "{N}: edit.text"),
    ("binding-name-block", 'M', "{N}: { return edit.text }"),
    ("handler-on", 'M', "on{N}: {}"),
    ("handler-on-changed", 'M', "on{N}Changed: {}"),
    ("handler-on-function", 'M', "on{N}: function(v: bool) {}"),
    ("handler-prefix", 'M', "{N}onClicked: {}"),
    ("handler-suffix", 'M', "onClicked{N}: {}"),
    ("handler-dotted", 'M', "on{N}.x: {}"),
    ("property-decl", 'M', "property int {N}: 1"),
    ("property-decl-alias", 'M', "property alias {N}: edit.text"),
    ("property-decl-required", 'M', "required property string {N}"),
    ("property-decl-type", 'M', "property {N} p"),
    ("property-decl-list", 'M', "property list<{N}> p"),
    ("signal-decl", 'M', "signal {N}()"),
    ("signal-decl-param", 'M', "signal s(int {N})"),
    ("function-decl", 'M', "function {N}() {}"),
    ("function-decl-param", 'M', "function f({N}) { return {N} }"),
    ("inline-component", 'M', "component {N}: QLabel {}"),
    ("enum-decl", 'M', "enum {N} { A, B }"),
    ("enum-decl-member", 'M', "enum E { {N}, B }"),
    ("child-unknown-type", 'M', "{N} { }"),
    ("child-unknown-type-dyn", 'M', "{N} { id: child; text: edit.text; onClicked: {} }"),
    ("child-qualified-type", 'M', "{N}.QLabel { text: edit.text }"),
    ("child-qualified-type2", 'M', "QtWidgets.{N} { }"),
    ("child-annotated", 'M', "@{N} QLabel { text: edit.text }"),
    ("on-binding", 'M', "{N} on text { }"),
    ("object-value", 'M', "text: {N} { }"),
    ("object-literal-key", 'M', "onClicked: { let o = { {N}: 1 } }"),
    ("statement-label", 'M', "onClicked: { {N}: for (;;) { break {N} } }"),
    ("template-string", 'M', "text: `a${{N}}b`"),
    ("new-expression", 'M', "text: new {N}()"),
    ("typeof", 'M', "text: typeof {N}"),
    ("id-dotted", 'M', "QLabel { id: {N}.{N} }"),
    ("actions-unknown", 'R', "actions: [{N}]"),
    ("actions-menuaction-unknown", 'R', "actions: [{N}.menuAction()]"),
    ("buddy-unknown", 'R', "QLabel { buddy: {N} }"),
    ("root-binding-name", 'R', "{N}: edit.text"),
    ("import-named", 'D', "import {N}\nQDialog {}\n"),
    ("import-dotted", 'D', "import qmluic.{N}\nQDialog {}\n"),
    ("import-dotted-head", 'D', "import {N}.QtWidgets\nQDialog {}\n"),
    ("import-alias", 'D', "import qmluic.QtWidgets as {N}\n{N}.QDialog { }\n"),
    ("import-alias-unused", 'D', "import qmluic.QtWidgets as {N}\nQDialog { }\n"),
    ("import-string", 'D', "import \"{N}\"\nQDialog {}\n"),
    ("import-version", 'D', "import qmluic.QtWidgets 1.0 as {N}\nQDialog {}\n"),
    ("pragma", 'D', "pragma {N}\nimport qmluic.QtWidgets\nQDialog {}\n"),
    ("pragma-value", 'D', "pragma ComponentBehavior: {N}\nimport qmluic.QtWidgets\nQDialog {}\n"),
    ("root-unknown-type", 'D', "import qmluic.QtWidgets\n{N} { }\n"),
    ("root-unknown-type-dyn", 'D', "import qmluic.QtWidgets\n{N} { id: root; QLineEdit { id: edit }\n windowTitle: edit.text; onAccepted: {} }\n"),
    ("root-qualified-type", 'D', "import qmluic.QtWidgets\n{N}.QDialog { id: root }\n"),
    ("root-id-only", 'D', "import qmluic.QtWidgets\nQDialog { id: {N} }\n"),
    ("root-annotated", 'D', "import qmluic.QtWidgets\n@{N} QDialog { }\n"),
    ("no-import", 'D', "QDialog { id: {N}; windowTitle: {N}.toolTip }\n"),
];

/// Positions at which the twin oracle compares acceptance only, not the messages: `qtname::callback_to_signal_name` takes
/// `on` + ASCII upper-case letter for a signal handler, so `onÉtiquette: …` is a (unknown) PROPERTY while the twin
/// `onZ…: …` is a handler of an (unknown) SIGNAL — both are refused, with different messages.
pub fn twin_messages_differ_by_design(position: &str) -> bool {
    position.starts_with("handler-on") || position == "handler-dotted" || position == "attached-handler"
}

pub fn syntax_doc(template: &(&str, char, &str), name: &str) -> String {
    let body = template.2.replace("{N}", name);
    match template.1 {
        'D' => body,
        'R' => format!(
            "import qmluic.QtWidgets\n\nQDialog {{\n    id: root\n    QLineEdit {{ id: edit }}\n    QCheckBox {{ id: check }}\n    QSpinBox {{ id: spin }}\n    QLabel {{ id: label }}\n    {body}\n}}\n"
        ),
        _ => format!(
            "import qmluic.QtWidgets\n\nQDialog {{\n    id: root\n    QLineEdit {{ id: edit }}\n    QCheckBox {{ id: check }}\n    QSpinBox {{ id: spin }}\n    QLabel {{ id: label }}\n    QPushButton {{\n        id: button\n        checkable: true\n        {body}\n    }}\n}}\n"
        ),
    }
}

// ------------------------------------------------------------------------------------------------ foreign classes

/// The names of the foreign classes and their members: (real, ASCII twin).
pub struct ForeignNames {
    pub widget: &'static str,
    pub int_prop: &'static str,
    pub str_prop: &'static str,
    pub bool_prop: &'static str,
    pub font_prop: &'static str,
    pub upper_font_prop: &'static str,
    pub ascii_first_prop: &'static str,
    pub enum_prop: &'static str,
    pub enum_name: &'static str,
    pub enum_values: [&'static str; 3],
    pub signal: &'static str,
    pub lower_signal: &'static str,
    pub slot: &'static str,
    pub method_int: &'static str,
    pub method_str: &'static str,
    pub q_label: &'static str,
    pub k_button: &'static str,
    pub lower_widget: &'static str,
    pub q_cjk: &'static str,
}

pub const FOREIGN: ForeignNames = ForeignNames {
    widget: "Üwidget",
    int_prop: "étendue",
    str_prop: "中",
    bool_prop: "𝓍",
    font_prop: "ñfont",
    upper_font_prop: "Àfont",
    ascii_first_prop: "aé",
    enum_prop: "ça",
    enum_name: "Ègle",
    enum_values: ["Àlign", "Bé", "中央"],
    signal: "aéClic",
    lower_signal: "éclic",
    slot: "réinitialiser",
    method_int: "compter",
    method_str: "名前",
    q_label: "QÉtiquette",
    k_button: "KÉ",
    lower_widget: "中Widget",
    q_cjk: "Q中",
};

pub const FOREIGN_TWIN: ForeignNames = ForeignNames {
    widget: "Zfwidget",
    int_prop: "zfetendue",
    str_prop: "zfzhong",
    bool_prop: "zfx",
    font_prop: "zffont",
    upper_font_prop: "Zfafont",
    ascii_first_prop: "azfe",
    enum_prop: "zfca",
    enum_name: "Zfegle",
    enum_values: ["Zfalign", "Bzfe", "zfchuo"],
    signal: "azfeClic",
    lower_signal: "zfeclic",
    slot: "zfreinitialiser",
    method_int: "zfcompter",
    method_str: "zfnamae",
    q_label: "QZfetiquette",
    k_button: "KZfe",
    lower_widget: "zfzWidget",
    q_cjk: "Qzfz",
};

fn cap_first_char(s: &str) -> String {
    // what moc users write: set + Name (only ASCII letters have another case here: the real names keep their first letter)
    let mut cs = s.chars();
    match cs.next() {
        Some(c) if c.is_ascii() => c.to_ascii_uppercase().to_string() + cs.as_str(),
        _ => s.to_owned(),
    }
}

fn prop(name: &str, ty: &str, write: String) -> Property {
    let mut p = Property::new(name, ty);
    p.read = Some(name.to_owned());
    p.write = Some(write);
    p.notify = Some(format!("{name}Changed"));
    p
}

fn signal(name: String, args: &[(&str, &str)]) -> Method {
    let mut m = Method::nullary(name, "void");
    m.arguments = args.iter().map(|(t, n)| Argument { name: Some((*n).to_owned()), r#type: (*t).to_owned() }).collect();
    m
}

fn classes_of(f: &ForeignNames) -> Vec<Class> {
    let mut w = Class::with_supers(f.widget, ["QWidget"]);
    w.enums.push(Enum::with_values(f.enum_name, f.enum_values));
    w.properties.push(prop(f.int_prop, "int", format!("set{}", cap_first_char(f.int_prop))));
    // a setter that does not follow the set<Name> convention (→ stdset="0")
    w.properties.push(prop(f.str_prop, "QString", format!("définir{}", f.str_prop)));
    w.properties.push(prop(f.bool_prop, "bool", format!("set{}", cap_first_char(f.bool_prop))));
    w.properties.push(prop(f.font_prop, "QFont", format!("set{}", cap_first_char(f.font_prop))));
    w.properties.push(prop(f.upper_font_prop, "QFont", format!("set{}", f.upper_font_prop)));
    w.properties.push(prop(f.ascii_first_prop, "QString", format!("set{}", cap_first_char(f.ascii_first_prop))));
    w.properties.push(prop(f.enum_prop, f.enum_name, format!("set{}", cap_first_char(f.enum_prop))));
    w.signals.push(signal(format!("{}Changed", f.int_prop), &[("int", f.int_prop)]));
    w.signals.push(signal(format!("{}Changed", f.str_prop), &[("QString", f.str_prop)]));
    w.signals.push(signal(format!("{}Changed", f.bool_prop), &[("bool", f.bool_prop)]));
    w.signals.push(signal(format!("{}Changed", f.font_prop), &[]));
    w.signals.push(signal(format!("{}Changed", f.upper_font_prop), &[]));
    w.signals.push(signal(format!("{}Changed", f.ascii_first_prop), &[("QString", "v")]));
    w.signals.push(signal(format!("{}Changed", f.enum_prop), &[]));
    w.signals.push(signal(f.signal.to_owned(), &[]));
    w.signals.push(signal(f.lower_signal.to_owned(), &[]));
    w.slots.push(Method::nullary(f.slot, "void"));
    w.slots.push(Method::with_argument_types(format!("définir{}", f.str_prop), "void", ["QString"]));
    w.methods.push(Method::nullary(f.method_int, "int"));
    w.methods.push(Method::nullary(f.method_str, "QString"));
    vec![
        w,
        Class::with_supers(f.q_label, ["QLabel"]),
        Class::with_supers(f.k_button, ["QPushButton"]),
        Class::with_supers(f.lower_widget, ["QWidget"]),
        Class::with_supers(f.q_cjk, ["QLabel"]),
    ]
}

/// C++ classes with non-ASCII class / property / signal / slot / method / enum / enumerator names, and their ASCII twins.
pub fn foreign_classes() -> Vec<Class> {
    let mut v = classes_of(&FOREIGN);
    v.extend(classes_of(&FOREIGN_TWIN));
    v
}

/// The same as a metatypes.json document (for `--foreign-types` of the CLI).
pub fn foreign_metatypes_json() -> String {
    let unit = qmluic::metatype::CompilationUnit { classes: foreign_classes(), ..Default::default() };
    serde_json::to_string(&vec![unit]).expect("metatypes serialise")
}

/// (position, template): `{I}` the id of the foreign object (or of a plain one), the other holes are foreign names.
pub const FOREIGN_TEMPLATES: &[(&str, &str)] = &[
    ("prop-int-static", "{W} { id: {I}; {int}: 3 }"),
    ("prop-int-dyn", "{W} { id: {I}; {int}: spin.value }"),
    ("prop-int-dyn-noid", "{W} { {int}: spin.value }"),
    ("prop-str-static", "{W} { id: {I}; {str}: \"x\" }"),
    ("prop-str-dyn", "{W} { id: {I}; {str}: edit.text }"),
    ("prop-str-tr", "{W} { id: {I}; {str}: qsTr(\"x\") }"),
    ("prop-bool-dyn", "{W} { id: {I}; {bool}: check.checked }"),
    ("prop-font-member-static", "{W} { id: {I}; {font}.bold: true }"),
    ("prop-font-member-dyn", "{W} { id: {I}; {font}.bold: check.checked }"),
    ("prop-font-group-dyn", "{W} { id: {I}; {font} { bold: check.checked; pointSize: spin.value } }"),
    ("prop-upper-font-member", "{W} { id: {I}; {Font}.bold: true }"),
    ("prop-upper-font-group", "{W} { id: {I}; {Font} { bold: check.checked } }"),
    ("prop-ascii-first-dyn", "{W} { id: {I}; {aprop}: edit.text }"),
    ("prop-enum-static", "{W} { id: {I}; {eprop}: {W}.{E0} }"),
    ("prop-enum-dyn", "{W} { id: {I}; {eprop}: check.checked ? {W}.{E1} : {W}.{E2} }"),
    ("prop-enum-scoped", "{W} { id: {I}; {eprop}: {W}.{E}.{E0} }"),
    ("prop-enum-foreign-mismatch", "{W} { id: {I}; {eprop}: Qt.AlignLeft }"),
    ("prop-type-error-dyn", "{W} { id: {I}; {int}: edit.text }"),
    ("signal-handler", "{W} { id: {I}; on{Sig}: {} }"),
    ("signal-handler-body", "{W} { id: {I}; on{Sig}: { edit.text = {I}.{str}; {I}.{slot}() } }"),
    ("signal-handler-param", "{W} { id: {I}; on{Aprop}Changed: function(s: QString) { edit.text = s } }"),
    ("signal-handler-notify-nonascii", "{W} { id: {I}; on{int}Changed: {} }"),
    ("signal-handler-lower", "{W} { id: {I}; on{lsig}: {} }"),
    ("read-prop", "{W} { id: {I} }\nQLabel { text: {I}.{str} }"),
    ("read-prop-int", "{W} { id: {I} }\nQSpinBox { value: {I}.{int} + 1 }"),
    ("read-method", "{W} { id: {I} }\nQLabel { text: {I}.{mstr}() }"),
    ("read-method-int", "{W} { id: {I} }\nQPushButton { onClicked: spin.value = {I}.{mint}() }"),
    ("call-slot", "{W} { id: {I} }\nQPushButton { onClicked: {I}.{slot}() }"),
    ("assign-prop", "{W} { id: {I} }\nQPushButton { onClicked: { {I}.{str} = edit.text; {I}.{int} = spin.value; {I}.{bool} = !{I}.{bool} } }"),
    ("cast", "{W} { id: {I} }\nQPushButton { onClicked: { let w = {I} as {W}; let q: {W} = null; w.{slot}() } }"),
    ("enum-compare", "{W} { id: {I} }\nQCheckBox { checked: {I}.{eprop} == {W}.{E0} }"),
    ("enum-switch", "{W} { id: {I} }\nQLabel { text: { switch ({I}.{eprop}) { case {W}.{E0}: return \"a\"; case {W}.{E2}: return \"c\"; default: return \"b\" } } }"),
    ("q-prefixed-noid", "{Q} { text: edit.text }\n{Q} { text: edit.text }"),
    ("q-prefixed-id", "{Q} { id: {I}; text: edit.text }"),
    ("k-prefixed-noid", "{K} { onClicked: {} }\n{K} { onClicked: edit.clear() }"),
    ("k-prefixed-id", "{K} { id: {I}; onClicked: {} }"),
    ("lower-class-noid", "{L} { windowTitle: edit.text }"),
    ("lower-class-id", "{L} { id: {I}; windowTitle: edit.text; onWindowTitleChanged: {} }"),
    ("q-cjk-noid", "{C} { text: edit.text }\n{C} { text: spin.value }"),
    ("widget-noid-multi", "{W} { {int}: spin.value; {str}: edit.text; {bool}: check.checked; {font}.bold: check.checked; on{Sig}: {} }\n{W} { {int}: spin.value; on{Sig}: {} }"),
    ("widget-in-layout", "QGridLayout {\n    {W} { id: {I}; QLayout.row: 1; {int}: spin.value }\n    {Q} { QLayout.column: 1; text: {I}.{str} }\n}"),
    ("buddy-foreign", "{W} { id: {I} }\nQLabel { buddy: {I} }\n{Q} { buddy: {I} }"),
];

pub fn foreign_doc(template: &str, f: &ForeignNames, id: &str, root_is_foreign: bool) -> String {
    let body = template
        .replace("{W}", f.widget)
        .replace("{int}", f.int_prop)
        .replace("{str}", f.str_prop)
        .replace("{bool}", f.bool_prop)
        .replace("{font}", f.font_prop)
        .replace("{Font}", f.upper_font_prop)
        .replace("{aprop}", f.ascii_first_prop)
        .replace("{Aprop}", &cap_first_char(f.ascii_first_prop))
        .replace("{eprop}", f.enum_prop)
        .replace("{E0}", f.enum_values[0])
        .replace("{E1}", f.enum_values[1])
        .replace("{E2}", f.enum_values[2])
        .replace("{E}", f.enum_name)
        .replace("{Sig}", &cap_first_char(f.signal))
        .replace("{lsig}", f.lower_signal)
        .replace("{slot}", f.slot)
        .replace("{mint}", f.method_int)
        .replace("{mstr}", f.method_str)
        .replace("{Q}", f.q_label)
        .replace("{K}", f.k_button)
        .replace("{L}", f.lower_widget)
        .replace("{C}", f.q_cjk)
        .replace("{I}", id);
    let lines: Vec<String> = body.split('\n').map(|s| s.to_owned()).collect();
    let root = if root_is_foreign { f.widget } else { "QDialog" };
    format!(
        "import qmluic.QtWidgets\n\n{root} {{\n    id: root\n    QLineEdit {{ id: edit }}\n    QCheckBox {{ id: check }}\n    QSpinBox {{ id: spin }}\n{}}}\n",
        indent(&lines, 4)
    )
}

// ------------------------------------------------------------------------------------------------ file / type names

/// Type names (in-process) / file stems (CLI) beyond the pool: not identifiers at all.
pub const ODD_TYPE_NAMES: &[(&str, &str, &str)] = &[
    ("É t", "Z t", "blank-inside"),
    ("Étiquette.ui", "Zetiquette.ui", "dotted"),
    ("-É", "-Z", "leading-dash"),
    (".é", ".z", "leading-dot"),
    ("É\u{301}", "Zcomb", "combining-only-tail"),
    ("ÉTIQUETTE", "ZETIQUETTE", "all-upper"),
    ("étiquette.Main", "zetiquette.Main", "dotted-lower-first"),
    ("ééééééééééééééééééééééééééééééééééééééééééééééééééééééééééééééééééééééééééééééé", "zzzzzzzzzzzzzzzzzzzzzzzzzzzzzzzzzzzzzzzzzzzzzzzzzzzzzzzzzzzzzzzzzzzzzzzzzzzzzzzzz", "long-160-bytes"),
    ("İ", "Zi", "expanding-lowercase"),
    ("ǅ", "Zdz", "titlecase-single"),
];

pub const FILE_FEATURES: &[&str] = &["static", "dyn-prop", "callback-param", "multi"];

// ------------------------------------------------------------------------------------------------ finding F90

/// FINDING F90 (unchanged tree): the grammar takes U+FFFE and U+FFFF for identifier characters, and a file name may hold
/// any character but `/` and NUL — but XML 1.0 cannot carry U+FFFE, U+FFFF and most control characters, not even as
/// character references.  An object id, an object type name (QML component = file name) or the type name of the document
/// with such a character is copied into `<widget name=…>` / `<widget class=…>` / `<class>` and the .ui file is not
/// well-formed (the CLI exits with status 0).  Sibling of F14 (string constants, repaired in 805d561).  The cases are
/// labelled `uid:f90-not-xml-name`.  They are generated only once the finding is LISTED in KNOWN_FINDINGS.json (known or
/// fixed): until then they would make the check alarm on the unchanged tree (same convention as F50 in c18.rs).  The
/// witnesses wait in .work/PIN.C07.f90_names_not_xml_representable.c07.req; move them to corpus/C07/ together with the entry.
/// (F90 is repaired in /repo 16abc48: the cases are regression cases now and always generated.)
pub fn f90_cases() -> bool {
    true
}

/// (what, text, type name, dir)
pub fn f90_documents() -> Vec<(&'static str, String, String, bool)> {
    let mut v = vec![];
    for (k, name) in ["\u{ffff}x", "a\u{fffe}b"].iter().enumerate() {
        let nm = Names { n: (*name).to_owned(), sib: format!("{name}2"), comp: "Étiquette".into() };
        for (source, feature) in [("id-nested", "static"), ("id-nested", "dyn-prop"), ("id-root", "callback"), ("id-deep", "buddy"), ("comp-id", "ref-binding")] {
            if let Some(b) = object_doc(source, feature, &nm) {
                v.push((if k == 0 { "id-ffff" } else { "id-fffe" }, b.text, b.type_name, !b.comps.is_empty()));
            }
        }
    }
    let plain = Names { n: "button".into(), sib: "button2".into(), comp: "Etiquette".into() };
    let b = object_doc("id-nested", "dyn-prop", &plain).expect("document");
    v.push(("type-name-ffff", b.text.clone(), "\u{ffff}x".into(), false));
    v.push(("type-name-control", b.text, "a\u{1}b".into(), false));
    v
}

// ------------------------------------------------------------------------------------------------ multi documents

/// Several subjects (each: nested source × feature × pool name) and a few syntax members in one document.
/// Returns (labels, real, twin, name pairs).
pub fn multi_doc(rng: &mut Rng) -> (Vec<String>, Built, Built, Vec<(String, String)>) {
    let k = 2 + rng.below(3);
    let mut order: Vec<usize> = (0..POOL.len()).collect();
    rng.shuffle(&mut order);
    let uppers: Vec<&Ident> = POOL.iter().filter(|i| i.upper()).collect();
    let nested = ["id-nested", "id-deep", "id-pair", "comp-noid", "comp-id"];
    let mut labels = vec![];
    let mut pairs: Vec<(String, String)> = vec![];
    let mut real = (vec![], vec![], vec![]);
    let mut twin = (vec![], vec![], vec![]);
    let mut taken = 0;
    let mut used_actions = false;
    // every name stands for ONE thing per document (the twin mapping must stay a bijection)
    let mut used: Vec<String> = vec![];
    for &oi in &order {
        if taken == k {
            break;
        }
        let ident = &POOL[oi];
        let source = *rng.pick(&nested);
        let feature = *rng.pick(FEATURES);
        if (feature == "actions" || feature == "menuaction") && used_actions {
            continue;
        }
        let comp = *rng.pick(&uppers);
        let (rn, tn) = names_of(ident, comp);
        let mut mine = vec![rn.n.clone()];
        if source == "id-pair" {
            mine.push(rn.sib.clone());
        }
        if source == "comp-id" {
            mine.push(rn.comp.clone());
        }
        if mine.iter().any(|m| used.contains(m)) || (mine.len() == 2 && mine[0] == mine[1]) {
            continue;
        }
        let (Some(r), Some(t)) = (subject_children(source, feature, &rn), subject_children(source, feature, &tn)) else {
            continue;
        };
        if feature == "actions" || feature == "menuaction" {
            used_actions = true;
        }
        taken += 1;
        used.extend(mine);
        labels.push(format!("uid:pos:{source}"));
        labels.push(format!("uid:feat:{feature}"));
        labels.push(format!("uid:first:{}", ident.first));
        pairs.push((rn.n.clone(), tn.n.clone()));
        if source == "id-pair" {
            pairs.push((rn.sib.clone(), tn.sib.clone()));
        }
        if source == "comp-id" {
            pairs.push((rn.comp.clone(), tn.comp.clone()));
        }
        for (acc, part) in [(&mut real, r), (&mut twin, t)] {
            acc.0.extend(part.0);
            acc.1.extend(part.1);
            for c in part.2 {
                if !acc.2.contains(&c) {
                    acc.2.push(c);
                }
            }
        }
    }
    // syntax members that keep a document valid, with further names
    let benign = ["local-let-binding", "local-const-callback", "param", "switch-var", "switch-body", "if-body", "local-shadow"];
    let n_syn = rng.below(3);
    let mut syn_real = vec![];
    let mut syn_twin = vec![];
    for s in 0..n_syn {
        let wanted = benign[rng.below(benign.len())];
        let t = SYNTAX.iter().find(|t| t.0 == wanted).unwrap();
        let ident = rng.pick(POOL);
        if used.iter().any(|u| u == ident.text) {
            continue;
        }
        used.push(ident.text.to_owned());
        labels.push(format!("uid:pos:{}", t.0));
        pairs.push((ident.text.to_owned(), ident.twin.to_owned()));
        // each on a button of its own (a property may be bound once per object)
        syn_real.push(format!("QPushButton {{\n    id: synButton{s}\n    checkable: true\n    {}\n}}", t.2.replace("{N}", ident.text)));
        syn_twin.push(format!("QPushButton {{\n    id: synButton{s}\n    checkable: true\n    {}\n}}", t.2.replace("{N}", ident.twin)));
    }
    // the document is not one of the components it instantiates (nor named like one of its objects)
    let free: Vec<&Ident> = POOL.iter().filter(|i| !used.iter().any(|u| u == i.text)).collect();
    let type_ident = *rng.pick(&free);
    let doc_type_named = rng.chance(1, 3);
    let assemble = |parts: &(Vec<String>, Vec<String>, Vec<String>), syn: &[String], type_name: &str| {
        let mut lines: Vec<String> = vec!["id: root".into()];
        lines.extend(parts.1.iter().cloned());
        lines.extend(HELPERS.iter().map(|s| (*s).to_owned()));
        lines.extend(parts.0.iter().cloned());
        lines.extend(syn.iter().cloned());
        Built { text: format!("import qmluic.QtWidgets\n\nQDialog {{\n{}}}\n", indent(&lines, 4)), type_name: type_name.to_owned(), comps: parts.2.clone() }
    };
    if doc_type_named {
        labels.push("uid:pos:doc-type".into());
    }
    let r = assemble(&real, &syn_real, if doc_type_named { type_ident.text } else { "MyType" });
    let t = assemble(&twin, &syn_twin, if doc_type_named { type_ident.twin } else { "MyType" });
    labels.sort();
    labels.dedup();
    (labels, r, t, pairs)
}

// ------------------------------------------------------------------------------------------------ mutation

const WIDE_LOWER: &[&str] = &["é", "ß", "ñ", "中", "ラ", "ﬁ", "𝓍", "😀", "\u{301}", "ǅ"];
const WIDE_UPPER: &[&str] = &["É", "Ω", "İ", "Ａ", "Ⅻ", "𝒳", "𐐀"];

const KEYWORDS: &[&str] = &[
    "import", "as", "on", "property", "signal", "readonly", "required", "default", "component", "enum", "pragma", "function", "return", "if",
    "else", "switch", "case", "break", "let", "const", "var", "this", "null", "true", "false", "undefined", "typeof", "void", "delete", "new",
    "in", "instanceof", "for", "while", "do", "continue", "throw", "try", "catch", "finally", "async", "await", "yield", "class", "id",
];

fn is_identifier_token(t: &str) -> bool {
    let c = t.chars().next().unwrap_or(' ');
    (c.is_alphabetic() || c == '_' || c == '$') && !KEYWORDS.contains(&t)
}

/// `name` with one character replaced by / prefixed with a non-ASCII letter of 2, 3 or 4 bytes (the case class of an ASCII
/// first letter is kept, so that a type name stays a type name).  Returns (how, bytes of the new character, new name).
fn widen(rng: &mut Rng, name: &str) -> (&'static str, usize, String) {
    let cs: Vec<char> = name.chars().collect();
    let pick_for = |rng: &mut Rng, c: char| -> &'static str { if c.is_uppercase() { *rng.pick(WIDE_UPPER) } else { *rng.pick(WIDE_LOWER) } };
    match rng.below(10) {
        0..=5 => {
            let w = pick_for(rng, cs[0]);
            ("first", w.len(), format!("{w}{}", cs[1..].iter().collect::<String>()))
        }
        6 | 7 => {
            let k = rng.below(cs.len());
            let w = pick_for(rng, cs[k]);
            (if k == 0 { "first" } else { "inner" }, w.len(), format!("{}{w}{}", cs[..k].iter().collect::<String>(), cs[k + 1..].iter().collect::<String>()))
        }
        _ => {
            let w = pick_for(rng, cs[0]);
            ("prefix", w.len(), format!("{w}{name}"))
        }
    }
}

/// New mutation kind: a random identifier token of `src` gets a non-ASCII letter — an object id (all its occurrences), any
/// identifier (all its occurrences: property, type, handler, enum names, …) or one single occurrence.
/// Returns (label, labels of the character, text); None if the text has no identifier.
pub fn rename_identifier(rng: &mut Rng, src: &str) -> Option<(&'static str, Vec<String>, String)> {
    let toks = super::lex(src);
    let idents: Vec<usize> = (0..toks.len()).filter(|&i| is_identifier_token(toks[i])).collect();
    if idents.is_empty() {
        return None;
    }
    // declared ids: identifier after `id` `:`
    let solid: Vec<usize> = (0..toks.len()).filter(|&i| !toks[i].chars().all(|c| c.is_whitespace())).collect();
    let mut declared: Vec<&str> = vec![];
    for w in solid.windows(3) {
        if toks[w[0]] == "id" && toks[w[1]] == ":" && is_identifier_token(toks[w[2]]) && !declared.contains(&toks[w[2]]) {
            declared.push(toks[w[2]]);
        }
    }
    let mode = rng.below(4);
    let (label, target, all): (&'static str, &str, bool) = if mode <= 1 && !declared.is_empty() {
        ("uid-rename-id", *rng.pick(&declared), true)
    } else if mode == 2 {
        ("uid-rename-any", toks[*rng.pick(&idents)], true)
    } else {
        ("uid-one", toks[*rng.pick(&idents)], false)
    };
    let (how, bytes, new_name) = widen(rng, target);
    let one = *rng.pick(&idents.iter().copied().filter(|&i| toks[i] == target).collect::<Vec<_>>());
    let mut out = String::with_capacity(src.len() + 16);
    for (i, t) in toks.iter().enumerate() {
        if *t == target && is_identifier_token(t) && (all || i == one) {
            out.push_str(&new_name);
        } else {
            out.push_str(t);
        }
    }
    Some((label, vec![format!("uid:char:{how}"), format!("uid:bytes:{bytes}")], out))
}
