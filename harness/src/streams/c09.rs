//! C09 — strings survive the XML; the .ui is well-formed and inside the Designer grammar.
//!   (xmltext "s") / (xmlattr "s")     raw escaped text/attribute value in the real .ui  vs  Model.Xml.escape*   [model]
//!   (spec-xmlread text|attr "s")      pred: the Lean XML reader decodes the real raw text back to "s"            [pred]
//!   (doc-string <position> "s")       oracle: strict XML parse + Designer grammar + read-back at the position  [oracle]
use crate::designer;
use crate::env::{self, Mode};
use crate::rng::Rng;
use crate::sexp::{atom, node, st, Sexp};
use crate::xml;
use crate::{Case, Stream};
use qmluic::typemap::TypeMap;

pub struct C09 {
    tm: TypeMap,
}

impl C09 {
    pub fn new() -> Self {
        C09 { tm: env::load_type_map(&[]) }
    }
}

// every kind of sink a constant string can reach in the form: plain / translatable text, item and string-list entries,
// attached properties, attribute values (icon theme), file names (pixmap, icon state), key sequences, the class name
const POSITIONS: &[&str] =
    &["text", "trtext", "item", "stringlist", "tabtitle", "icontheme", "windowtitle", "classname", "pixmap", "iconfile", "shortcut"];

fn gen_string(rng: &mut Rng) -> String {
    let alphabet: Vec<char> = vec![
        '<', '>', '&', '\'', '"', ' ', ' ', '\t', '\n', '\r', 'a', 'b', 'Z', '0', ';', '#', 'x', ']', '>', 'é', 'ß', '中',
        '\u{1F600}', '\u{10000}', '\u{FFFD}', '\u{E000}', '\u{D7FF}', '\u{85}', '\u{2028}', '\u{a0}', '\\', '/', '=',
    ];
    let n = match rng.below(10) {
        0 => 0,
        1..=5 => 1 + rng.below(6),
        _ => 1 + rng.below(24),
    };
    let mut s: String = (0..n).map(|_| *rng.pick(&alphabet)).collect();
    if rng.chance(1, 12) {
        // a character XML 1.0 cannot carry: such a string must be rejected, not written
        let bad = *rng.pick(&['\u{0}', '\u{1}', '\u{8}', '\u{b}', '\u{c}', '\u{1b}', '\u{1f}', '\u{fffe}', '\u{ffff}']);
        let at = rng.below(s.chars().count() + 1);
        let mut cs: Vec<char> = s.chars().collect();
        cs.insert(at, bad);
        s = cs.into_iter().collect();
    }
    match rng.below(12) {
        0 => s.insert(0, ' '),
        1 => s.push(' '),
        2 => s.push_str("\r\n"),
        3 => s.insert_str(0, "]]>"),
        4 => s.push_str("&amp;"),
        5 => s.push_str("&#13;"),
        6 => s.insert_str(0, "<![CDATA["),
        7 => s.push_str("<!-- x -->"),
        _ => {}
    }
    s
}

fn document(pos: &str, s: &str, style: u32) -> (String, String) {
    let lit = env::qml_string_literal(s, style);
    let ty = "MyType".to_owned();
    let body = match pos {
        "text" => format!("QLabel {{ text: {lit} }}"),
        "trtext" => format!("QLabel {{ text: qsTr({lit}) }}"),
        "item" => format!("QComboBox {{ model: [{lit}, \"other\"] }}"),
        "stringlist" => format!("QTextBrowser {{ searchPaths: [{lit}, \"b\"] }}"),
        "tabtitle" => format!("QTabWidget {{ QWidget {{ QTabWidget.title: {lit} }} }}"),
        "icontheme" => format!("QPushButton {{ icon.name: {lit} }}"),
        "windowtitle" => format!("QWidget {{ windowTitle: {lit}; toolTip: \"t\" }}"),
        "pixmap" => format!("QLabel {{ pixmap: {lit} }}"),
        "iconfile" => format!("QToolButton {{ icon.normalOff: {lit}; icon.selectedOn: \"on.png\" }}"),
        "shortcut" => format!("QPushButton {{ shortcut: {lit} }}"),
        "classname" => return (format!("import qmluic.QtWidgets\nQWidget {{ }}\n"), s.to_owned()),
        _ => unreachable!(),
    };
    (format!("import qmluic.QtWidgets\n{body}\n"), ty)
}

/// the raw (still escaped) text at the position, by scanning the output text
fn raw_at(pos: &str, ui: &str) -> Option<String> {
    let between = |open: &str, close: &str, from: usize| -> Option<(usize, String)> {
        let a = ui[from..].find(open)? + from + open.len();
        let b = ui[a..].find(close)? + a;
        Some((b, ui[a..b].to_owned()))
    };
    match pos {
        "text" | "windowtitle" | "tabtitle" => {
            let key = match pos {
                "text" => "name=\"text\"",
                "windowtitle" => "name=\"windowTitle\"",
                _ => "name=\"title\"",
            };
            let p = ui.find(key)?;
            between("<string notr=\"true\">", "</string>", p).map(|x| x.1)
        }
        "trtext" => {
            let p = ui.find("name=\"text\"")?;
            between("<string>", "</string>", p).map(|x| x.1)
        }
        "item" => {
            let p = ui.find("<item>")?;
            between("<string notr=\"true\">", "</string>", p).map(|x| x.1)
        }
        "stringlist" => {
            let p = ui.find("<stringlist")?;
            between("<string>", "</string>", p).map(|x| x.1)
        }
        "icontheme" => between("theme=\"", "\"", 0).map(|x| x.1),
        "classname" => between("<class>", "</class>", 0).map(|x| x.1),
        "pixmap" => between("<pixmap>", "</pixmap>", 0).map(|x| x.1),
        "iconfile" => between("<normaloff>", "</normaloff>", 0).map(|x| x.1),
        "shortcut" => {
            let p = ui.find("name=\"shortcut\"")?;
            between("<string notr=\"true\">", "</string>", p).map(|x| x.1)
        }
        _ => None,
    }
}

fn parsed_at(pos: &str, root: &xml::Element) -> Option<String> {
    let all = root.descendants();
    let prop = |name: &str| all.iter().find(|e| (e.name == "property" || e.name == "attribute") && e.attr("name") == Some(name)).copied();
    match pos {
        "text" | "trtext" => prop("text")?.child("string").map(|e| e.text()),
        "windowtitle" => prop("windowTitle")?.child("string").map(|e| e.text()),
        "tabtitle" => prop("title")?.child("string").map(|e| e.text()),
        "item" => all.iter().find(|e| e.name == "item")?.child("property")?.child("string").map(|e| e.text()),
        "stringlist" => all.iter().find(|e| e.name == "stringlist")?.children_named("string").next().map(|e| e.text()),
        "icontheme" => all.iter().find(|e| e.name == "iconset")?.attr("theme").map(|s| s.to_owned()),
        "classname" => root.child("class").map(|e| e.text()),
        "pixmap" => prop("pixmap")?.child("pixmap").map(|e| e.text()),
        "iconfile" => all.iter().find(|e| e.name == "normaloff").map(|e| e.text()),
        "shortcut" => prop("shortcut")?.child("string").map(|e| e.text()),
        _ => None,
    }
}

impl Stream for C09 {
    fn generate(&self, seed: u64, thorough: bool) -> Vec<Case> {
        let mut rng = Rng::fork(seed, "c09", 0);
        let mut cases = vec![];
        let n = if thorough { 40_000 } else { 2_500 };
        for k in 0..n {
            let mut s = gen_string(&mut rng);
            let pos = POSITIONS[k % POSITIONS.len()];
            if pos == "classname" {
                // the type name comes from the file name; not subject to the string check
                s.retain(xml::is_xml_char);
            }
            let is_attr = pos == "icontheme";
            let mut labels = vec![pos.to_owned(), format!("len{}", s.chars().count().min(20) / 4 * 4)];
            for (c, l) in [('\r', "cr"), ('\n', "lf"), ('\t', "tab"), ('<', "lt"), ('&', "amp"), ('"', "quot")] {
                if s.contains(c) {
                    labels.push(l.into());
                }
            }
            if s.chars().any(|c| (c as u32) > 0xffff) {
                labels.push("astral".into());
            }
            if !s.chars().all(xml::is_xml_char) {
                labels.push("non-xml-char".into());
            }
            let tag = if is_attr { "xmlattr" } else { "xmltext" };
            cases.push(Case { kind: "model", labels: labels.clone(), request: node(tag, vec![atom(pos), st(s.clone())]) });
            cases.push(Case {
                kind: "pred",
                labels: labels.clone(),
                request: node("spec-xmlread", vec![atom(if is_attr { "attr" } else { "text" }), atom(pos), st(s.clone())]),
            });
            cases.push(Case { kind: "oracle", labels, request: node("doc-string", vec![atom(pos), st(s)]) });
        }
        // several sources in ONE invocation of the real command-line tool: every emitted file on its own is a well-formed
        // form of its own document (same bytes as the in-process translation of that source alone)
        let m = if thorough { 400 } else { 30 };
        for k in 0..m {
            cases.push(Case { kind: "oracle", labels: vec!["cli-multi".into()], request: node("c09-cli-multi", vec![crate::sexp::num(seed as usize % 1_000_000), crate::sexp::num(k)]) });
        }
        cases
    }

    fn answer(&self, req: &Sexp) -> Sexp {
        let (tag, args) = req.as_node().expect("request node");
        if tag == "c09-cli-multi" {
            let mut rng = Rng::fork(args[0].as_usize().unwrap() as u64, "c09-cli", args[1].as_usize().unwrap() as u64);
            let dir = match tempfile::Builder::new().prefix("qv-c09-").tempdir() {
                Ok(d) => d,
                Err(e) => return node("fail", vec![st(format!("tempdir: {e}"))]),
            };
            let n = 2 + rng.below(3);
            let mut docs = vec![];
            for i in 0..n {
                let mut s = gen_string(&mut rng);
                s.retain(xml::is_xml_char);
                let pos = *rng.pick(&POSITIONS.iter().copied().filter(|p| *p != "classname").collect::<Vec<_>>());
                let (src, _) = document(pos, &s, rng.below(6) as u32);
                let ty = format!("Doc{i}");
                std::fs::write(dir.path().join(format!("{ty}.qml")), &src).unwrap();
                // an output of an earlier, different revision of the source may already be there (longer, shorter, not XML at
                // all): what the run leaves must be the form of THIS revision, nothing of the old file
                // (only for sources that are accepted: what happens to the old output of a rejected source is C15's subject)
                let accepted = env::translate(&self.tm, &src, &ty, Mode::Reject).accepted();
                match rng.below(4) {
                    _ if !accepted => {}
                    0 => {
                        let (old, _) = document("text", &"an older and much longer revision of this document ".repeat(1 + rng.below(6)), 0);
                        let t = env::translate(&self.tm, &old, &ty, Mode::Reject);
                        if let Some(ui) = t.ui {
                            std::fs::write(dir.path().join(format!("{}.ui", ty.to_lowercase())), ui).unwrap();
                        }
                    }
                    1 => std::fs::write(dir.path().join(format!("{}.ui", ty.to_lowercase())), "stale\n".repeat(1 + rng.below(200))).unwrap(),
                    _ => {}
                }
                docs.push((ty, src));
            }
            let bin = env::cli_binary();
            let status = std::process::Command::new(&bin)
                .current_dir(dir.path())
                .args(["generate-ui", "--no-dynamic-binding", "--foreign-types"])
                .arg(format!("{}/contrib/metatypes", env::REPO))
                .args(docs.iter().map(|(t, _)| format!("{t}.qml")))
                .stdin(std::process::Stdio::null())
                .stdout(std::process::Stdio::null())
                .stderr(std::process::Stdio::null())
                .status();
            if status.is_err() {
                return node("fail", vec![st("the CLI could not be started")]);
            }
            let mut written = 0;
            for (ty, src) in &docs {
                let t = env::translate(&self.tm, src, ty, Mode::Reject);
                let path = dir.path().join(format!("{}.ui", ty.to_lowercase()));
                match (t.accepted(), std::fs::read_to_string(&path)) {
                    (true, Ok(ui)) => {
                        written += 1;
                        let root = match xml::parse(&ui) {
                            Ok(r) => r,
                            Err(e) => return node("fail", vec![st(format!("{ty}: file written by a multi-source run is not well-formed: {e}"))]),
                        };
                        if let Err(e) = designer::check_ui(&root, ty) {
                            return node("fail", vec![st(format!("{ty}: outside the Designer grammar: {e}"))]);
                        }
                        if Some(&ui) != t.ui.as_ref() {
                            return node("fail", vec![st(format!("{ty}: file written by a multi-source run differs from the translation of that source alone"))]);
                        }
                    }
                    (true, Err(_)) => return node("fail", vec![st(format!("{ty}: accepted in-process but no .ui written by the CLI"))]),
                    (false, Ok(_)) => return node("fail", vec![st(format!("{ty}: rejected in-process but a .ui was written"))]),
                    (false, Err(_)) => {}
                }
            }
            return node("ok", vec![atom("sources"), crate::sexp::num(docs.len()), atom("written"), crate::sexp::num(written)]);
        }
        let (pos, s) = match tag {
            "spec-xmlread" => (args[1].as_atom().unwrap(), args[2].as_str().unwrap()),
            _ => (args[0].as_atom().unwrap(), args[1].as_str().unwrap()),
        };
        let (src, ty) = document(pos, s, (s.len() as u32).wrapping_mul(7) % 6);
        let t = env::translate(&self.tm, &src, &ty, Mode::Reject);
        if !t.accepted() {
            if tag == "doc-string" && !s.chars().all(xml::is_xml_char) {
                // a string XML cannot carry must be refused with the diagnostic on the binding
                return if t.diags.iter().any(|d| d.is_error && d.message.contains("cannot be represented in XML")) {
                    node("ok", vec![atom("rejected")])
                } else {
                    node("fail", vec![st("rejected for another reason")])
                };
            }
            return node("rejected", t.diags.iter().map(|d| st(d.message.clone())).collect());
        }
        let ui = t.ui.as_ref().unwrap();
        match tag {
            "xmltext" | "xmlattr" | "spec-xmlread" => match raw_at(pos, ui) {
                Some(raw) => node("raw", vec![st(raw)]),
                None => node("not-found", vec![]),
            },
            "doc-string" => {
                let root = match xml::parse(ui) {
                    Ok(r) => r,
                    Err(e) => return node("fail", vec![st(format!("not well-formed: {e}"))]),
                };
                if let Err(e) = designer::check_ui(&root, &ty) {
                    return node("fail", vec![st(format!("outside the Designer grammar: {e}"))]);
                }
                match parsed_at(pos, &root) {
                    Some(v) if v == s => node("ok", vec![]),
                    Some(v) => node("fail", vec![st("read back differently"), st(v)]),
                    None => node("fail", vec![st("string not found at its position")]),
                }
            }
            _ => node("bad-request", vec![]),
        }
    }
}
