//! C11 — object tree and child order.  Request:
//!   (formtree (o "cls" "name" flags actions kid…))      flags ⊆ "ralmwsp", actions = _ | ("a" …)
//! Answer: (form (errors N) (<skeleton>)) | (no-form), the skeleton being the widget/layout/item/spacer/action/
//! addaction elements of the real .ui with their class/name attributes, in document order.
use crate::docgen::{family_of, Family, Obj, TreeGen, TreeOpts};
use crate::env::{self, Mode};
use crate::rng::Rng;
use crate::sexp::{atom, list, node, num, st, Sexp};
use crate::xml;
use crate::{Case, Stream};
use qmluic::typemap::TypeMap;

pub struct C11 {
    tm: TypeMap,
}

impl C11 {
    pub fn new() -> Self {
        C11 { tm: env::load_type_map_with(env::adversarial_classes()) }
    }
}

fn cxx_class(c: &str) -> &str {
    c
}

fn flags_of(o: &Obj) -> String {
    let mut f = String::new();
    let unknown = o.class.starts_with("Nope");
    if !unknown {
        f.push('r');
    }
    match family_of(&o.class) {
        _ if o.class == "QButtonGroup" => {} // a QObject that is none of action/layout/menu/widget/spacer
        Family::Action => f.push('a'),
        Family::Layout => f.push('l'),
        Family::Menu => {
            f.push('m');
            f.push('w');
        }
        Family::Widget => f.push('w'),
        Family::Spacer => f.push('s'),
    }
    if o.bindings.iter().any(|(l, r)| l == "separator" && r == "true") && o.bindings.len() == 1 {
        f.push('p');
    }
    // explicit placement `QLayout.row: N; QLayout.column: 0` travels as trailing digits (the Lean side only looks for the
    // letters: the skeleton does not depend on the placement)
    if let Some((_, r)) = o.bindings.iter().find(|(l, _)| l == "QLayout.row") {
        f.push_str(r);
    }
    // a static item model (upper-case letter: the Lean side does not look at it, the object tree does not depend on it)
    if o.bindings.iter().any(|(l, _)| l == "model") {
        f.push('M');
    }
    f
}

fn encode(o: &Obj, all: &Obj) -> Sexp {
    let actions = match o.bindings.iter().find(|(l, _)| l == "actions") {
        None => atom("_"),
        Some((_, rhs)) => {
            // rhs is `[a, b.menuAction(), c]`; names are the ids, "separator" for static separators
            let inner = rhs.trim_start_matches('[').trim_end_matches(']');
            let names: Vec<Sexp> = inner
                .split(',')
                .map(|x| x.trim())
                .filter(|x| !x.is_empty())
                .map(|x| {
                    let id = x.trim_end_matches(".menuAction()");
                    let target = all.pre_order().into_iter().find(|t| t.id.as_deref() == Some(id)).unwrap();
                    if flags_of(target).contains('p') {
                        st("separator")
                    } else {
                        st(id)
                    }
                })
                .collect();
            list(names)
        }
    };
    let mut v = vec![
        atom("o"),
        st(cxx_class(&o.class)),
        st(o.id.clone().unwrap_or_default()),
        atom(flags_of(o)),
        actions,
    ];
    v.extend(o.children.iter().map(|c| encode(c, all)));
    list(v)
}

fn decode(s: &Sexp) -> Obj {
    let l = s.as_list().unwrap();
    let mut o = Obj::new(l[1].as_str().unwrap());
    let name = l[2].as_str().unwrap();
    if !name.is_empty() {
        o.id = Some(name.to_owned());
    }
    let flags = l[3].as_atom().unwrap();
    if flags.contains('p') {
        o.bindings.push(("separator".into(), "true".into()));
    }
    if flags.contains('M') {
        o.bindings.push(("model".into(), "[\"first\", \"second\"]".into()));
    }
    let row: String = flags.chars().filter(|c| c.is_ascii_digit()).collect();
    if !row.is_empty() {
        o.bindings.push(("QLayout.row".into(), row));
        o.bindings.push(("QLayout.column".into(), "0".into()));
    }
    o.children = l[5..].iter().map(decode).collect();
    o
}

/// restores the `actions: [...]` bindings (which mention ids of other objects) after decoding
fn restore_actions(s: &Sexp, o: &mut Obj, all: &Obj) {
    let l = s.as_list().unwrap();
    if let Some(names) = l[4].as_list() {
        // the request stores the *resolved* names; rebuild the source list from the original ids kept in labels:
        // separators are referenced by their own id, which the request does not keep — so the request carries
        // the source text in a trailing comment-free form: we re-derive it from ids that are not "separator".
        let refs: Vec<String> = names
            .iter()
            .map(|n| {
                let n = n.as_str().unwrap();
                let target = all.pre_order().into_iter().find(|t| t.id.as_deref() == Some(n));
                match target {
                    Some(t) if family_of(&t.class) == Family::Menu => format!("{n}.menuAction()"),
                    _ => n.to_owned(),
                }
            })
            .collect();
        o.bindings.push(("actions".into(), format!("[{}]", refs.join(", "))));
    }
    for (cs, c) in l[5..].iter().zip(o.children.iter_mut()) {
        restore_actions(cs, c, all);
    }
}

fn skeleton(e: &xml::Element) -> Option<Sexp> {
    let tag = e.name.as_str();
    if !matches!(tag, "widget" | "layout" | "item" | "spacer" | "action" | "addaction") {
        return None;
    }
    let mut attrs = vec![];
    for k in ["class", "name"] {
        if tag == "item" {
            break;
        }
        if let Some(v) = e.attr(k) {
            attrs.push(list(vec![atom(k), st(v)]));
        }
    }
    let mut v = vec![atom(tag), list(attrs)];
    // the <item> elements directly below a widget are the entries of its static item model (values, not objects)
    v.extend(e.elems().filter(|c| !(tag == "widget" && c.name == "item")).filter_map(skeleton));
    Some(list(v))
}

impl Stream for C11 {
    fn generate(&self, seed: u64, thorough: bool) -> Vec<Case> {
        let mut cases = vec![];
        let n = if thorough { 40_000 } else { 2_000 };
        for k in 0..n {
            let mut rng = Rng::fork(seed, "c11", k as u64);
            let illegal = k % 5 == 0;
            let opts = TreeOpts {
                max_depth: 2 + rng.below(5),
                max_children: 1 + rng.below(6),
                id_chance: (1, 1),
                extra_widget_classes: if k % 3 == 0 { vec!["Label1".into(), "KLabel".into(), "Widget2".into()] } else { vec![] },
                extra_action_classes: if k % 3 == 0 { vec!["Action1".into()] } else { vec![] },
                extra_layout_classes: if k % 3 == 0 { vec!["VBoxLayout1".into()] } else { vec![] },
                ..TreeOpts::default()
            };
            let mut root = TreeGen::new(&mut rng, opts).gen_root();
            // every object gets an id so that identity can be tracked (anonymous objects: stream c10)
            let mut counter = 0;
            fn ensure_ids(o: &mut Obj, counter: &mut usize) {
                if o.id.is_none() {
                    *counter += 1;
                    o.id = Some(format!("x{counter}"));
                }
                // keep only the `separator: true` bindings generated by docgen
                o.bindings.retain(|(l, r)| l == "separator" && r == "true");
                for c in &mut o.children {
                    ensure_ids(c, counter);
                }
            }
            ensure_ids(&mut root, &mut counter);
            // static separators (docgen only makes them for objects without id, and here every object has one)
            fn separators(rng: &mut Rng, o: &mut Obj, n: &mut usize) {
                if o.class == "QAction" && o.children.is_empty() && o.bindings.is_empty() && rng.chance(1, 4) {
                    o.bindings.push(("separator".into(), "true".into()));
                    *n += 1;
                }
                for c in &mut o.children {
                    separators(rng, c, n);
                }
            }
            let mut n_sep = 0;
            separators(&mut rng, &mut root, &mut n_sep);
            // item widgets with a static model AND child objects (actions, menus): the children stay declared and listed
            fn item_widgets(rng: &mut Rng, o: &mut Obj, n: &mut usize) {
                if matches!(o.class.as_str(), "QComboBox" | "QListWidget" | "QFontComboBox") && rng.chance(1, 2) {
                    if o.class != "QFontComboBox" && rng.chance(2, 3) {
                        o.bindings.push(("model".into(), "[\"first\", \"second\"]".into()));
                    }
                    for _ in 0..rng.below(3) {
                        *n += 1;
                        let c = if rng.chance(1, 3) { Obj::new("QMenu").with_id(&format!("im{n}")) } else { Obj::new("QAction").with_id(&format!("ia{n}")) };
                        o.children.push(c);
                    }
                }
                for c in &mut o.children {
                    item_widgets(rng, c, n);
                }
            }
            let mut n_item = 0;
            item_widgets(&mut rng, &mut root, &mut n_item);
            let mut labels = vec![format!("objects{}", (root.count() / 5) * 5), format!("depth{}", root.depth())];
            if illegal {
                labels.push("illegal".into());
                mutate_illegal(&mut rng, &mut root);
            }
            // explicit placement in form / grid layouts, NOT ascending in declaration order: the items keep the declaration
            // order all the same (the cells themselves are C12's subject; the skeleton drops the item attributes)
            if rng.chance(1, 3) {
                fn place(rng: &mut Rng, o: &mut Obj, used: &mut bool) {
                    if (o.class == "QFormLayout" || o.class == "QGridLayout") && o.children.len() >= 2 && rng.chance(2, 3) {
                        let mut rows: Vec<usize> = (0..o.children.len()).collect();
                        rng.shuffle(&mut rows);
                        if o.children.iter().all(|c| matches!(family_of(&c.class), Family::Widget | Family::Layout | Family::Spacer) && !c.class.starts_with("Nope") && c.class != "QButtonGroup") {
                            for (c, r) in o.children.iter_mut().zip(rows) {
                                c.bindings.push(("QLayout.row".into(), r.to_string()));
                                c.bindings.push(("QLayout.column".into(), "0".into()));
                            }
                            *used = true;
                        }
                    }
                    for c in &mut o.children {
                        place(rng, c, used);
                    }
                }
                let mut used = false;
                place(&mut rng, &mut root, &mut used);
                if used {
                    labels.push("explicit-placement".into());
                }
            }
            // explicit actions lists
            if rng.chance(1, 3) {
                let snapshot = root.clone();
                // only objects that survive: an object below an unknown type vanishes with that subtree, and a reference
                // to it is a different error (undefined reference) which this stream does not plant
                fn surviving<'a>(o: &'a Obj, v: &mut Vec<&'a Obj>) {
                    if o.class.starts_with("Nope") {
                        return;
                    }
                    v.push(o);
                    for c in &o.children {
                        surviving(c, v);
                    }
                }
                let mut alive = vec![];
                surviving(&snapshot, &mut alive);
                let acts: Vec<(String, bool)> = alive
                    .iter()
                    .filter(|o| o.class == "QAction" || o.class == "QMenu")
                    .map(|o| (o.id.clone().unwrap(), family_of(&o.class) == Family::Menu))
                    .collect();
                if !acts.is_empty() {
                    labels.push("explicit-actions".into());
                    add_actions(&mut rng, &mut root, &acts);
                }
            }
            if n_sep > 0 {
                labels.push("static-separators".into());
            }
            if n_item > 0 {
                labels.push("item-widget-children".into());
            }
            let snapshot = root.clone();
            let req = encode(&root, &snapshot);
            // the explicit lists as written (the tree carries them resolved: a separator's id is not recoverable from it)
            let lists = node(
                "lists",
                snapshot
                    .pre_order()
                    .into_iter()
                    .filter_map(|o| {
                        let (_, rhs) = o.bindings.iter().find(|(l, _)| l == "actions")?;
                        let mut v = vec![st(o.id.clone().unwrap_or_default())];
                        v.extend(rhs.trim_start_matches('[').trim_end_matches(']').split(',').map(|x| x.trim()).filter(|x| !x.is_empty()).map(st));
                        Some(list(v))
                    })
                    .collect(),
            );
            cases.push(Case { kind: "model", labels: labels.clone(), request: node("formtree", vec![req.clone(), lists.clone()]) });
            cases.push(Case { kind: "spec", labels, request: node("spec-formtree", vec![req, lists]) });
        }
        // explicit lists on objects WITHOUT id (their element name is generated) with references that are not plain ids:
        // the object's own `menuAction()`, another menu's, static separators, tab widgets as owners
        let m = if thorough { 6_000 } else { 400 };
        for k in 0..m {
            cases.push(Case { kind: "oracle", labels: vec!["explicit-list-anonymous-owner".into()], request: node("c11-anon-list", vec![num(seed as usize % 1_000_000), num(k)]) });
        }
        cases
    }

    fn answer(&self, req: &Sexp) -> Sexp {
        let (tag, args) = req.as_node().expect("request node");
        if tag == "c11-anon-list" {
            return anon_list(&self.tm, args[0].as_usize().unwrap() as u64, args[1].as_usize().unwrap() as u64);
        }
        let mut root = decode(&args[0]);
        let snapshot = root.clone();
        match args.get(1).and_then(|l| l.as_node()) {
            Some(("lists", ls)) => {
                fn put(o: &mut Obj, id: &str, rhs: &str) {
                    if o.id.as_deref() == Some(id) {
                        o.bindings.push(("actions".into(), rhs.to_owned()));
                    }
                    for c in &mut o.children {
                        put(c, id, rhs);
                    }
                }
                for l in ls {
                    let l = l.as_list().unwrap();
                    let entries: Vec<&str> = l[1..].iter().map(|x| x.as_str().unwrap()).collect();
                    put(&mut root, l[0].as_str().unwrap(), &format!("[{}]", entries.join(", ")));
                }
            }
            _ => restore_actions(&args[0], &mut root, &snapshot), // requests recorded before the lists were added
        }
        let src = root.to_qml();
        let t = env::translate(&self.tm, &src, "MyType", Mode::Generate);
        if t.syntax_errors > 0 {
            return node("syntax-error", vec![st(src)]);
        }
        let Some(ui) = &t.ui else {
            return node("no-form", vec![]);
        };
        let doc = xml::parse(ui).expect("well-formed ui");
        let w = doc.child("widget").expect("root widget");
        let tree_errors = t
            .diags
            .iter()
            .filter(|d| {
                d.is_error
                    && (d.message.contains("should have no children")
                        || d.message.contains("is not a QAction, QLayout, nor QWidget")
                        || d.message.contains("is not a QLayout, QSpacerItem, nor QWidget")
                        || d.message.ends_with("is not a QWidget"))
            })
            .count();
        node("form", vec![node("errors", vec![num(tree_errors)]), list(vec![skeleton(w).unwrap()])])
    }
}

fn mutate_illegal(rng: &mut Rng, root: &mut Obj) {
    // plant one illegal construct somewhere below the root
    fn visit(rng: &mut Rng, o: &mut Obj, done: &mut bool, depth: usize) {
        if *done {
            return;
        }
        if depth > 0 && rng.chance(1, 4) {
            *done = true;
            match rng.below(5) {
                0 => {
                    // unknown type with a subtree
                    o.class = "NopeType".into();
                }
                1 => {
                    // child under an action / spacer
                    let mut a = Obj::new(if rng.chance(1, 2) { "QAction" } else { "QSpacerItem" }).with_id("illegalParent");
                    // also below a STATIC SEPARATOR (which has no element of its own) and with an action as the child
                    if a.class == "QAction" && rng.chance(1, 2) {
                        a.bindings.push(("separator".into(), "true".into()));
                    }
                    a.children.push(Obj::new(if rng.chance(1, 3) { "QAction" } else { "QLabel" }).with_id("illegalChild"));
                    o.children.push(a);
                }
                2 => o.children.push(Obj::new("QSpacerItem").with_id("straySpacer")),
                3 => o.children.push(Obj::new("QAction").with_id("strayAction")),
                _ => o.children.push(Obj::new("QButtonGroup").with_id("notAWidget")),
            }
            return;
        }
        for c in &mut o.children {
            visit(rng, c, done, depth + 1);
        }
    }
    let mut done = false;
    visit(rng, root, &mut done, 0);
    if !done {
        root.children.push(Obj::new("NopeOther").with_id("gone").child(Obj::new("QLabel").with_id("goneChild")));
    }
}

fn add_actions(rng: &mut Rng, o: &mut Obj, acts: &[(String, bool)]) {
    let fam = family_of(&o.class);
    // QButtonGroup is a plain QObject (no `actions` property): the planted non-widget gets no list
    if matches!(fam, Family::Widget | Family::Menu) && !o.class.starts_with("Nope") && o.class != "QTabWidget" && o.class != "QButtonGroup" && rng.chance(1, 4) {
        let k = 1 + rng.below(acts.len().min(4));
        let refs: Vec<String> = (0..k)
            .map(|_| {
                let (id, is_menu) = rng.pick(acts);
                if *is_menu {
                    format!("{id}.menuAction()")
                } else {
                    id.clone()
                }
            })
            .collect();
        o.bindings.push(("actions".into(), format!("[{}]", refs.join(", "))));
    }
    for c in &mut o.children {
        add_actions(rng, c, acts);
    }
}

/// One document: a root widget with 1-2 owners that have NO id (QMenu, QTabWidget, QToolBar-like QWidget) and an explicit
/// `actions` list mixing action ids, static separators, other menus' `menuAction()` and — for menus — the owner's own
/// `menuAction()`.  Oracle on the real form: the `<addaction>` children of each owner are exactly the listed entries in
/// list order (a separator entry is `separator`, a menu entry the menu's name, the own entry the owner's generated name),
/// and every listed object is still declared exactly once.
fn anon_list(tm: &TypeMap, seed: u64, k: u64) -> Sexp {
    let mut rng = Rng::fork(seed, "c11-anon-list", k);
    let n_owners = 1 + rng.below(2);
    let mut text = String::from("import qmluic.QtWidgets\nQWidget {\n    id: top\n");
    // (owner class, expected entries: Some(name) | None = the owner's own name, declared ids)
    let mut owners: Vec<(&str, Vec<Option<String>>, Vec<String>)> = vec![];
    for w in 0..n_owners {
        let class = *rng.pick(&["QMenu", "QMenu", "QTabWidget", "QWidget", "QToolButton"]);
        let mut kids = String::new();
        let mut entries: Vec<(String, Option<String>)> = vec![]; // (source text, expected name)
        let mut declared = vec![];
        for i in 0..(1 + rng.below(4)) {
            match rng.below(3) {
                0 => {
                    let id = format!("act{w}_{i}");
                    kids.push_str(&format!("        QAction {{ id: {id}; text: \"t\" }}\n"));
                    entries.push((id.clone(), Some(id.clone())));
                    declared.push(id);
                }
                1 => {
                    let id = format!("sep{w}_{i}");
                    kids.push_str(&format!("        QAction {{ id: {id}; separator: true }}\n"));
                    entries.push((id.clone(), Some("separator".into())));
                }
                _ => {
                    let id = format!("sub{w}_{i}");
                    kids.push_str(&format!("        QMenu {{ id: {id} }}\n"));
                    entries.push((format!("{id}.menuAction()"), Some(id.clone())));
                    declared.push(id);
                }
            }
        }
        if class == "QMenu" && rng.chance(2, 3) {
            entries.push(("menuAction()".into(), None));
        }
        if class == "QTabWidget" {
            kids.push_str("        QWidget { QTabWidget.title: \"page\" }\n");
        }
        rng.shuffle(&mut entries);
        // an entry may be listed twice
        if rng.chance(1, 5) {
            let e = rng.pick(&entries).clone();
            entries.push(e);
        }
        let list: Vec<&str> = entries.iter().map(|e| e.0.as_str()).collect();
        text.push_str(&format!("    {class} {{\n        actions: [{}]\n{kids}    }}\n", list.join(", ")));
        owners.push((class, entries.into_iter().map(|e| e.1).collect(), declared));
    }
    text.push_str("}\n");
    let t = env::translate(tm, &text, "MyType", Mode::Generate);
    let Some(ui) = &t.ui else { return node("fail", vec![st("no form"), st(text)]) };
    if t.diags.iter().any(|d| d.is_error) {
        return node("fail", vec![st(format!("rejected: {}", t.diags.iter().filter(|d| d.is_error).map(|d| d.message.clone()).collect::<Vec<_>>().join("; "))), st(text)]);
    }
    let doc = xml::parse(ui).expect("well-formed ui");
    let top = doc.child("widget").expect("root widget");
    let found: Vec<&xml::Element> = top.children_named("widget").collect();
    if found.len() != owners.len() {
        return node("fail", vec![st(format!("{} owners expected below the root, {} widget elements found", owners.len(), found.len())), st(text)]);
    }
    for ((class, expected, declared), e) in owners.iter().zip(found) {
        if e.attr("class") != Some(class) {
            return node("fail", vec![st(format!("owner order/class changed: expected {class}, found {:?}", e.attr("class"))), st(text)]);
        }
        let own = e.attr("name").unwrap_or("").to_owned();
        let want: Vec<String> = expected.iter().map(|x| x.clone().unwrap_or(own.clone())).collect();
        let got: Vec<String> = e.children_named("addaction").map(|a| a.attr("name").unwrap_or("").to_owned()).collect();
        if want != got {
            return node("fail", vec![st(format!("explicit list of the anonymous {class} `{own}`: expected <addaction> sequence {want:?}, found {got:?}")), st(text)]);
        }
        for id in declared {
            let n = e.elems().filter(|c| (c.name == "action" || c.name == "widget") && c.attr("name") == Some(id.as_str())).count();
            if n != 1 {
                return node("fail", vec![st(format!("listed object `{id}` is declared {n} times below its owner")), st(text)]);
            }
        }
    }
    node("ok", vec![atom("owners"), num(owners.len())])
}
