//! C07 — totality.  Fuzz/correspondence stream, kind=oracle (the parser and the CST adapters are not modelled in Lean:
//! for them the check can only *test*; see lean/QV/Props/C07.lean for the part a proof carries).
//!
//! Requests
//!   (c07 "text")                      in-process, all three dynamic-binding modes, each under catch_unwind:
//!                                       * no panic;
//!                                       * either `uigen::build` returns a form which serialises, re-parses with the
//!                                         harness's strict XML reader, and whose support header can be written — or there
//!                                         is ≥ 1 syntax error or ≥ 1 error diagnostic;
//!                                       * every syntax-error / diagnostic / label range has start ≤ end ≤ len(text) with both
//!                                         ends on `is_char_boundary`;
//!                                       * rendering every report with codespan-reporting (the way src/reporting.rs and
//!                                         tests/common/mod.rs do) succeeds.
//!   (c07 "text" "TypeName" [dir])     the same with the type name of the document given (the CLI takes it from the file name; it
//!                                     becomes the class name, the include guard and the names of the .ui / header files);
//!                                     `dir`: the document is parsed with a path inside unicode_ids::VIRTUAL_DIR, whose directory
//!                                     module holds QML components with non-ASCII names (all derive QPushButton).  The type map
//!                                     also holds the C++ classes of unicode_ids::foreign_classes (non-ASCII class, property,
//!                                     signal, slot, method, enum and enumerator names).
//!   (c07-twin "text" "TypeName" dir|nodir[-acceptance] "twin text" "TwinTypeName" (n "name" "twin name")…)
//!                                     TWIN ORACLE (part of the tie): the totality oracle of `c07` on the document, and the same
//!                                     document with the listed names replaced consistently by ASCII names of the same
//!                                     upper/lower-case class must behave alike in every mode — syntax errors or none, built or
//!                                     not, the same number of errors and warnings, the same messages (names mapped back;
//!                                     `-acceptance`: messages not compared).  Identifiers are opaque to the translator.
//!   (c07-cli generate|reject[-sub|-up] "text")   (-sub: the document in `sub/é dir/`, -up: above the working directory,
//!                                     given by absolute path — the report names it relative to the working directory)
//!                                     the REAL `qmluic generate-ui` binary built from /repo's working tree (release) on
//!                                     `Main.qml` in a fresh directory under std::env::temp_dir(), 20 s timeout: the exit
//!                                     status must be 0 or 1 (not 101 = panic, not a signal, not a timeout).
//!   (c07-cli HOW "text" "File.qml" (file "Other.qml" "text")…)   the same with the document in `File.qml`, further files next
//!                                     to it (QML components) and the classes of unicode_ids::foreign_classes passed as a second
//!                                     `--foreign-types` file: exit status 0 or 1; status 0 iff `<stem>.ui` was written and, without
//!                                     --no-dynamic-binding, `uisupport_<stem>.h` (names compared ignoring letter case: FileNameRules
//!                                     lower-cases ASCII letters only); status 1 only with a report that names the file.
//!   (c07-set (files (f "dir" "Stem" "text")…) (sources (s "dir/Stem.qml" reject|accept|any)…))
//!                                     COMPONENT SET, in-process: the files are written below a fresh directory under
//!                                     std::env::temp_dir(), ONE type map and document cache is filled by
//!                                     qmldir::populate_directories for all sources (like generate-ui), every source is
//!                                     translated in all three modes under the totality oracle (the project diagnostics too);
//!                                     `reject` (the document instantiates a component whose chain of roots never reaches a Qt
//!                                     class): accepted in no mode; `accept`: accepted in the generate and omit modes.
//!   (c07-cli-set generate|reject (files …) (sources …))   the same set through the real CLI, all sources on one command
//!                                     line: exit 0 or 1 within 20 s, 0 iff every `.ui` was written, 1 only with a report, a
//!                                     `reject` source never written, an `accept` source written whatever happens to the others.
//!   (c07-cli-gen generate|reject KIND N)   same, on a text generated here: KIND ∈ sum | objects | parens | array | ternary |
//!                                     unary | member | block (N nesting levels) — deep inputs are tested ONLY this way
//!                                     (finding F11: stack exhaustion; the in-process inputs keep nesting ≤ 60).
//!   (c07-trivia "base" POS "trivia")  TRIVIA ORACLE (part of the tie, not a clause of C07 proper): comments and blank space are
//!                                     extras of the grammar, so a VALID document with a comment / blank line put in at a token
//!                                     boundary must behave exactly like the document without it — in every mode the same
//!                                     acceptance, the same diagnostics (kind + message multiset), the same .ui and header
//!                                     bytes — and the mutated text must pass the totality oracle of `c07` itself.  The
//!                                     position classes at which the GRAMMAR parses differently (restricted productions /
//!                                     automatic semicolon insertion; all need a line terminator in the trivia) are listed
//!                                     with their reason in c07/trivia.rs; there only totality is demanded.
//!   (c07-trivia-each "base" SEED)     the same at EVERY token boundary of the document (one trivia text without and one with
//!                                     a line terminator per boundary, each in one of the three modes); all failing positions
//!                                     are listed: `(f "class" pos "line:col" "trivia" "what")`.
//!   (c07-trivia-sat "base" "trivia")  the trivia text at every token boundary AT ONCE; on a difference every boundary (and the
//!                                     two boundaries of every gap together) is tried alone, the failing ones are listed and
//!                                     the saturation without them must be equal.
//!   (c07-trivia-scan "text")          debugging aid: the token boundaries with their position classes.
//! Answers: `(ok …stats…)`, `(fail "what" …)`, `(panic "message" (mode m))`.
use crate::env::{self, Mode};
use crate::rng::Rng;
use crate::sexp::{atom, node, num, st, Sexp};
use crate::xml;
use crate::{Case, Stream};
use codespan_reporting::files::SimpleFile;
use codespan_reporting::term;
use qmluic::diagnostic::{DiagnosticKind, Diagnostics};
use qmluic::qmldoc::UiDocument;
use qmluic::qtname::FileNameRules;
use qmluic::typemap::TypeMap;
use qmluic::uigen::{self, BuildContext, XmlWriter};
use qmluic_cli::reporting;
use std::panic::{catch_unwind, AssertUnwindSafe};
use std::time::{Duration, Instant};

mod boundary_consts;
mod component_sets;
mod trivia;
mod unicode_ids;

pub struct C07 {
    tm: TypeMap,
    /// the classes of `tm` (Qt + adversarial + foreign, tweaked): a component-set case fills a type map of its own
    classes: Vec<qmluic::metatype::Class>,
    /// (origin label, text): /repo/examples/*.qml and the r###"…"### blocks of /repo/tests/*.rs
    bases: Vec<(String, String)>,
    /// outcomes of trivia base documents (many trivia cases share one base document)
    base_cache: std::sync::Mutex<std::collections::HashMap<String, std::sync::Arc<Vec<ModeStats>>>>,
}

const MAX_INPROC_DEPTH: usize = 60;
const CLI_TIMEOUT: Duration = Duration::from_secs(20);

const SPECIAL_CHARS: &[&str] = &["é", "中", "😀", "\u{2028}", "\u{FEFF}", "\0", "\u{0301}", "\u{200B}", "\u{10FFFF}"];

const VOCAB: &[&str] = &[
    "import", "qmluic.QtWidgets", "QWidget", "QLabel", "QMenu", "QAction", "QVBoxLayout", "QGridLayout", "QComboBox", "QDialog",
    "QPushButton", "QSpacerItem", "QTabWidget", "id", "text", "windowTitle", "enabled", "actions", "model", "onClicked",
    "QLayout.row", "font.bold", "font", "{", "}", "[", "]", "(", ")", ":", ";", ",", ".", "?", "?.", "??", "=>", "=", "==", "===",
    "!=", "!==", "<", "<=", ">", ">=", "+", "-", "*", "/", "%", "**", "++", "--", "!", "~", "&", "|", "^", "&&", "||", "<<", ">>",
    ">>>", "+=", "-=", "function", "return", "if", "else", "switch", "case", "default", "break", "let", "const", "var", "as", "this",
    "null", "true", "false", "undefined", "typeof", "void", "delete", "new", "in", "instanceof", "for", "while", "do", "continue",
    "throw", "try", "catch", "async", "await", "yield", "class", "property", "signal", "readonly", "required", "component", "enum",
    "pragma", "on", "0", "1", "42", "1.5", "1e3", "0x1f", "0b101", "0o17", "017", "08", "1_000", ".5", "5.", "\"a\"", "'b'",
    "\"\\n\"", "\"\\u00e9\"", "\"\\u{1F600}\"", "\"\\x41\"", "\"\\q\"", "\"unterminated", "`t${x}`", "/re/g", "@Annotation",
    "qsTr(\"x\")", "Qt.AlignLeft", "Qt.AlignLeft | Qt.AlignTop", "QSizePolicy.Expanding", "Math.max(1, 2)", "console.log(\"x\")",
    "menuAction()", "x", "root", "int", "QString", "\n", "\r\n", "//c\n", "/*c*/",
];

const HUGE_NUMBERS: &[&str] = &[
    "99999999999999999999", "18446744073709551615", "18446744073709551616", "9223372036854775808", "-9223372036854775808", "1e999",
    "1e-999", "0xffffffffffffffffffff", "0b11111111111111111111111111111111111111111111111111111111111111111", "0o7777777777777777777777",
    "1_000_000_000_000_000_000_000", ".5e-999", "00000000008", "09", "0o8", "4294967296",
];

/// (label, document): semantic stress — shapes that reach the unwrap_*/expect sites listed in pins/C07_panic_sites.md
fn semantic_stress() -> Vec<(&'static str, String)> {
    let w = |body: &str| format!("import qmluic.QtWidgets\nQWidget {{\n    id: root\n{body}\n}}\n");
    let raw = |s: &str| s.to_owned();
    vec![
        ("buddy-null", w("    QLabel { buddy: null }")),
        ("buddy-self", w("    QLabel { id: l; buddy: l }")),
        ("buddy-this", w("    QLabel { buddy: this }")),
        ("buddy-empty-list", w("    QLabel { buddy: [] }")),
        ("buddy-ternary", w("    QLabel { id: l; buddy: true ? l : null }")),
        ("buddy-as", w("    QLabel { id: l; buddy: (null as QWidget) }")),
        ("actions-empty", w("    actions: []")),
        ("actions-null", w("    actions: null")),
        ("actions-menuaction-noid", raw("import qmluic.QtWidgets\nQMenu { actions: [menuAction()] }\n")),
        ("actions-menuaction-noid-nested", w("    QMenu { actions: [menuAction()] }")),
        ("actions-menuaction-id", w("    QMenu { id: m; actions: [m.menuAction()] }")),
        ("actions-menuaction-this", w("    QMenu { actions: [this.menuAction()] }")),
        ("actions-this", w("    QMenu { actions: [this] }")),
        ("actions-root", w("    actions: [root]")),
        ("actions-unknown", w("    actions: [nosuch]")),
        ("actions-mixed", w("    QAction { id: a }\n    actions: [a, null]")),
        ("actions-strings", w("    actions: [\"a\"]")),
        ("actions-dup", w("    QAction { id: a }\n    actions: [a, a, a]")),
        ("actions-let", w("    QAction { id: a }\n    actions: { let x = [a]; return x }")),
        ("model-empty", w("    QComboBox { model: [] }")),
        ("model-null", w("    QComboBox { model: null }")),
        ("model-objects", w("    QComboBox { id: c; model: [c] }")),
        ("model-ints", w("    QComboBox { model: [1, 2] }")),
        ("model-mixed-tr", w("    QComboBox { model: [\"a\", qsTr(\"b\")] }")),
        ("model-nested", w("    QComboBox { model: [[\"a\"]] }")),
        ("model-string", w("    QComboBox { model: \"a\" }")),
        ("model-on-listview", w("    QListView { model: [\"a\"] }")),
        ("model-map", w("    QComboBox { model.x: 1 }")),
        ("stringlist-empty", w("    QTextBrowser { searchPaths: [] }")),
        ("stringlist-objects", w("    QTextBrowser { searchPaths: [root] }")),
        ("icon-name-int", w("    QPushButton { icon.name: 1 }")),
        ("icon-int", w("    QPushButton { icon: 1 }")),
        ("shortcut-standard-key", w("    QAction { shortcut: QKeySequence.Copy }")),
        ("shortcut-other-enum", w("    QAction { shortcut: Qt.Key_A }")),
        ("shortcut-string", w("    QAction { shortcut: \"Ctrl+A\" }")),
        ("shortcut-tr", w("    QAction { shortcut: qsTr(\"Ctrl+A\") }")),
        ("shortcut-int", w("    QAction { shortcut: 1 }")),
        ("shortcut-or", w("    QAction { shortcut: QKeySequence.Copy | QKeySequence.Paste }")),
        ("shortcut-null", w("    QAction { shortcut: null }")),
        ("shortcut-list", w("    QAction { shortcut: [] }")),
        ("cursor-int", w("    cursor: 1")),
        ("cursor-shape", w("    cursor: Qt.ArrowCursor")),
        ("cursor-other-enum", w("    cursor: Qt.AlignLeft")),
        ("cursor-or", w("    cursor: Qt.ArrowCursor | Qt.WaitCursor")),
        ("cursor-string", w("    cursor: \"arrow\"")),
        ("enum-int", w("    focusPolicy: 1")),
        ("enum-other", w("    focusPolicy: Qt.AlignLeft")),
        ("enum-and", w("    QLabel { alignment: Qt.AlignLeft & Qt.AlignTop }")),
        ("enum-not", w("    QLabel { alignment: ~Qt.AlignLeft }")),
        ("enum-as-int", w("    minimumWidth: Qt.AlignLeft as int")),
        ("int-enum", w("    minimumWidth: Qt.AlignLeft")),
        ("int-list", w("    minimumWidth: []")),
        ("int-null", w("    minimumWidth: null")),
        ("int-object", w("    minimumWidth: root")),
        ("int-this", w("    minimumWidth: this")),
        ("string-list", w("    windowTitle: [\"a\"]")),
        ("string-empty-list", w("    windowTitle: []")),
        ("string-object", w("    windowTitle: root")),
        ("string-enum", w("    windowTitle: Qt.AlignLeft")),
        ("bool-enum-or", w("    enabled: Qt.AlignLeft | Qt.AlignTop")),
        ("pixmap-int", w("    QLabel { pixmap: 1 }")),
        ("pixmap-tr", w("    QLabel { pixmap: qsTr(\"x.png\") }")),
        ("color-int", w("    QGraphicsView { backgroundBrush: 1 }")),
        ("color-tr", w("    QGraphicsView { backgroundBrush: qsTr(\"red\") }")),
        ("color-bad", w("    QGraphicsView { backgroundBrush: \"#12\" }")),
        ("color-enum", w("    QGraphicsView { backgroundBrush: Qt.red }")),
        ("own-id-binding", w("    windowTitle: root.windowTitle")),
        ("own-id-callback", w("    onWindowTitleChanged: root.windowTitle = \"x\"")),
        ("self-ref", w("    windowTitle: windowTitle")),
        ("x-x", w("    x: x")),
        ("self-ref-plus", w("    minimumWidth: minimumWidth + 1")),
        ("cycle", w("    QLabel { id: a; text: b.text }\n    QLabel { id: b; text: a.text }")),
        ("dup-ids", w("    QLabel { id: a }\n    QLabel { id: a }")),
        ("dup-id-root", w("    QLabel { id: root }")),
        ("two-ids", w("    id: other")),
        ("id-number", w("    QLabel { id: 1 }")),
        ("id-string", w("    QLabel { id: \"a\" }")),
        ("id-dotted", w("    QLabel { id: a.b }")),
        ("id-keyword", w("    QLabel { id: this }")),
        ("id-upper", w("    QLabel { id: Label }")),
        ("id-generated-clash", w("    QLabel { id: label1 }\n    QLabel {}\n    QLabel {}")),
        ("ref-generated-name", w("    QLabel {}\n    QLabel { buddy: label }")),
        ("empty-document", raw("")),
        ("blank-document", raw("   \n\t\n")),
        ("only-imports", raw("import qmluic.QtWidgets\nimport QtQuick 2.15\nimport \"dir\" as D\n")),
        ("only-comments", raw("// nothing\n/* at all */\n")),
        ("only-pragma", raw("pragma Singleton\n")),
        ("bom", raw("\u{FEFF}import qmluic.QtWidgets\nQWidget {}\n")),
        ("bom-only", raw("\u{FEFF}")),
        ("crlf", raw("import qmluic.QtWidgets\r\nQWidget {\r\n    windowTitle: \"a\"\r\n    QLabel { text: \"b\" }\r\n}\r\n")),
        ("cr-only", raw("import qmluic.QtWidgets\rQWidget {\r windowTitle: \"a\"\r}\r")),
        ("nul-inside", raw("import qmluic.QtWidgets\nQWidget { windowTitle: \"a\0b\" }\n")),
        ("no-import", raw("QWidget {}\n")),
        ("unknown-import", raw("import No.Such.Module\nQWidget {}\n")),
        ("import-alias", raw("import qmluic.QtWidgets as W\nW.QWidget {}\n")),
        ("import-version", raw("import qmluic.QtWidgets 999.999\nQWidget {}\n")),
        ("import-version-huge", raw("import qmluic.QtWidgets 1.99999999999\nQWidget {}\n")),
        ("import-string", raw("import \"somedir\"\nQWidget {}\n")),
        ("two-roots", raw("import qmluic.QtWidgets\nQWidget {}\nQWidget {}\n")),
        ("root-not-widget", raw("import qmluic.QtWidgets\nQAction {}\n")),
        ("root-layout", raw("import qmluic.QtWidgets\nQVBoxLayout {}\n")),
        ("root-unknown", raw("import qmluic.QtWidgets\nNoSuchType {}\n")),
        ("root-enum", raw("import qmluic.QtWidgets\nQt {}\n")),
        ("root-primitive", raw("import qmluic.QtWidgets\nint {}\n")),
        ("root-dotted", raw("import qmluic.QtWidgets\nQt.AlignLeft {}\n")),
        ("root-lowercase", raw("import qmluic.QtWidgets\nqWidget {}\n")),
        ("annotated-root", raw("import qmluic.QtWidgets\n@Deprecated {}\nQWidget {}\n")),
        ("inline-component", raw("import qmluic.QtWidgets\nQWidget { component C: QLabel {} }\n")),
        ("property-decl", raw("import qmluic.QtWidgets\nQWidget { property int p: 1; signal s(); function f() {} }\n")),
        ("enum-decl", raw("import qmluic.QtWidgets\nQWidget { enum E { A, B } }\n")),
        ("object-binding", w("    QLabel { buddy: QLabel {} }")),
        ("on-binding", w("    QLabel { NumberAnimation on x { } }")),
        ("grouped-dup", w("    font { bold: true }\n    font.bold: false")),
        ("grouped-scalar-clash", w("    font: 1\n    font.bold: false")),
        ("grouped-nested", w("    font { family { x: 1 } }")),
        ("grouped-on-int", w("    minimumWidth { x: 1 }")),
        ("grouped-empty", w("    font {}")),
        ("attached-unknown", w("    NoSuch.row: 1")),
        ("attached-nonattaching", w("    QLabel.row: 1")),
        ("attached-deep", w("    QLayout.row.x: 1")),
        ("attached-grouped", w("    QLayout { row: 1 }")),
        ("attached-callback", w("    QVBoxLayout { QLabel { QLayout.onRowChanged: 1 } }")),
        ("attached-dynamic", w("    QVBoxLayout { QLabel { id: l; QLayout.alignment: l.alignment } }")),
        ("layout-row-huge", w("    QGridLayout { QLabel { QLayout.row: 2147483647 } }")),
        ("layout-row-65535", w("    QGridLayout { QLabel { QLayout.row: 65535; QLayout.column: 65535 } }")),
        ("layout-row-neg", w("    QGridLayout { QLabel { QLayout.row: -1 } }")),
        ("layout-row-float", w("    QGridLayout { QLabel { QLayout.row: 1.5 } }")),
        ("layout-rowspan-zero", w("    QGridLayout { QLabel { QLayout.rowSpan: 0; QLayout.columnSpan: -3 } }")),
        ("layout-columns-zero", w("    QGridLayout { columns: 0; QLabel {} QLabel {} }")),
        ("layout-columns-neg", w("    QGridLayout { columns: -1; QLabel {} }")),
        ("layout-columns-huge", w("    QGridLayout { columns: 2147483647; QLabel {} QLabel {} }")),
        ("layout-flow-int", w("    QGridLayout { flow: 1 }")),
        ("layout-stretch-huge", w("    QVBoxLayout { QLabel { QLayout.rowStretch: 99999999999 } }")),
        ("layout-in-layout-in-action", w("    QAction { QVBoxLayout {} }")),
        ("spacer-child", w("    QSpacerItem { QLabel {} }")),
        ("tab-non-widget", w("    QTabWidget { QAction {} QVBoxLayout {} }")),
        ("tab-title-dynamic", w("    QTabWidget { QWidget { id: p; QTabWidget.title: p.windowTitle } }")),
        ("callback-too-many-params", w("    QPushButton { onClicked: function(a: bool, b: int, c: QString) {} }")),
        ("callback-dup-params", w("    QPushButton { onClicked: function(a: bool, a: bool) {} }")),
        ("callback-untyped", w("    QPushButton { onClicked: function(a) {} }")),
        ("callback-arrow", w("    QPushButton { onClicked: (a: bool) => a }")),
        ("callback-arrow-bare", w("    QPushButton { onClicked: a => a }")),
        ("callback-named", w("    QPushButton { onClicked: function f() {} }")),
        ("callback-async", w("    QPushButton { onClicked: async function() {} }")),
        ("callback-generator", w("    QPushButton { onClicked: function*() {} }")),
        ("callback-void-param", w("    QPushButton { onClicked: function(a: void) {} }")),
        ("callback-map", w("    QPushButton { onClicked.x: 1 }")),
        ("callback-rettype", w("    QPushButton { onClicked: function(): int { return 1 } }")),
        ("callback-overloaded", w("    QComboBox { onActivated: function(i: int) {} }")),
        ("callback-not-signal", w("    QPushButton { onClick: 1 }")),
        ("callback-on", w("    QPushButton { on: 1 }")),
        ("callback-onX-unicode", w("    QPushButton { onÉ: 1 }")),
        ("unreachable-after-switch", w("    windowTitle: { switch (0) { default: break; } let z = 1 }")),
        ("unreachable-after-ifelse", w("    windowTitle: { if (true) { \"a\" } else { \"b\" }; let z = 1 }")),
        ("switch-empty", w("    windowTitle: { switch (0) {} }")),
        ("switch-default-only", w("    windowTitle: { switch (0) { default: return \"a\" } }")),
        ("switch-default-first", w("    windowTitle: { switch (1) { default: \"d\"; case 1: \"a\"; case 2: \"b\" } }")),
        ("switch-two-defaults", w("    windowTitle: { switch (1) { default: \"d\"; default: \"e\" } }")),
        ("switch-comment", w("    windowTitle: { switch (1) { /* c */ case 1: \"a\" } }")),
        ("switch-case-error", w("    windowTitle: { switch (1) { case nosuch: \"a\"; case 2: \"b\"; default: \"c\" } }")),
        ("switch-body-error", w("    windowTitle: { switch (1) { case 1: nosuch; case 2: \"b\"; default: \"c\" } }")),
        ("switch-break-outside", w("    windowTitle: { break }")),
        ("switch-labeled-break", w("    windowTitle: { switch (1) { case 1: break foo } }")),
        ("return-twice", w("    windowTitle: { return \"a\"; return 1 }")),
        ("return-void", w("    windowTitle: { return }")),
        ("return-in-if", w("    windowTitle: { if (enabled) return \"a\"; return \"b\" }")),
        ("if-error-continue", w("    windowTitle: { if (nosuch) { \"a\" } \"b\" }")),
        ("if-cons-error", w("    windowTitle: { if (true) { nosuch } else { \"b\" } let q = 1; \"c\" }")),
        ("empty-block", w("    windowTitle: {}")),
        ("empty-statement", w("    windowTitle: ;")),
        ("let-no-init", w("    windowTitle: { let a: QString; return a }")),
        ("let-void", w("    windowTitle: { let a = console.log(1); \"x\" }")),
        ("const-no-init", w("    windowTitle: { const a; \"x\" }")),
        ("let-shadow", w("    windowTitle: { let a = \"x\"; { let a = 1; } a }")),
        ("let-assign-const", w("    windowTitle: { const a = \"x\"; a = \"y\"; a }")),
        ("let-list", w("    QComboBox { model: { let a: QStringList = []; a } }")),
        ("let-null-ptr", w("    QLabel { buddy: { let a: QWidget = null; a } }")),
        ("ternary-mixed", w("    windowTitle: true ? \"a\" : 1")),
        ("ternary-void", w("    windowTitle: true ? console.log(1) : console.log(2)")),
        ("logical-nonbool", w("    enabled: 1 && 2")),
        ("logical-chain", w("    enabled: true && false || true && !false")),
        ("div-zero", w("    minimumWidth: 1 / 0")),
        ("rem-zero", w("    minimumWidth: 1 % 0")),
        ("float-div-zero", w("    minimumWidth: 1.0 / 0.0")),
        ("shift-huge", w("    minimumWidth: 1 << 64")),
        ("shift-neg", w("    minimumWidth: 1 << -1")),
        ("int-overflow", w("    minimumWidth: 9223372036854775807 + 1")),
        ("int-min-neg", w("    minimumWidth: -(-9223372036854775807 - 1)")),
        ("int-huge", w("    minimumWidth: 18446744073709551615")),
        ("int-too-huge", w("    minimumWidth: 18446744073709551616")),
        ("float-huge", w("    QDoubleSpinBox { maximum: 1e999 }")),
        ("float-nan", w("    QDoubleSpinBox { maximum: 0.0 / 0.0 }")),
        ("uint-neg", w("    QProgressBar { maximum: -1 }")),
        ("string-bad-escape", w("    windowTitle: \"\\q\"")),
        ("string-surrogate", w("    windowTitle: \"\\ud800\"")),
        ("string-big-codepoint", w("    windowTitle: \"\\u{110000}\"")),
        ("string-empty-codepoint", w("    windowTitle: \"\\u{}\"")),
        ("string-x-short", w("    windowTitle: \"\\x4\"")),
        ("string-nonxml", w("    windowTitle: \"a\\u0001b\"")),
        ("string-line-continuation", w("    windowTitle: \"a\\\nb\"")),
        ("string-single-quote", w("    windowTitle: 'a\"b'")),
        ("template-string", w("    windowTitle: `a${1}b`")),
        ("regex", w("    windowTitle: /a/g")),
        ("optional-chain", w("    windowTitle: root?.windowTitle")),
        ("optional-call", w("    QMenu { actions: [menuAction?.()] }")),
        ("optional-subscript", w("    QComboBox { model: [\"a\"]?.[0] }")),
        ("subscript", w("    windowTitle: [\"a\", \"b\"][1]")),
        ("subscript-neg", w("    windowTitle: [\"a\"][-1]")),
        ("subscript-assign", w("    onWindowTitleChanged: { let a = [1]; a[0] = 2 }")),
        ("member-of-null", w("    windowTitle: null.x")),
        ("member-of-cast-null", w("    windowTitle: (null as QWidget).windowTitle")),
        ("member-of-int", w("    windowTitle: (1).x")),
        ("member-of-string", w("    windowTitle: \"a\".length")),
        ("call-non-callable", w("    windowTitle: root()")),
        ("call-type", w("    windowTitle: QWidget()")),
        ("call-wrong-args", w("    windowTitle: qsTr(1, 2, 3)")),
        ("tr-dynamic", w("    windowTitle: qsTr(root.windowTitle)")),
        ("max-mixed", w("    minimumWidth: Math.max(1, \"a\")")),
        ("max-one", w("    minimumWidth: Math.max(1)")),
        ("math-unknown", w("    minimumWidth: Math.nosuch(1)")),
        ("console-in-binding", w("    windowTitle: console.log(\"x\")")),
        ("bare-type", w("    windowTitle: QWidget")),
        ("bare-namespace", w("    windowTitle: Math")),
        ("bare-method", w("    windowTitle: close")),
        ("as-unknown", w("    windowTitle: 1 as NoSuch")),
        ("as-void", w("    windowTitle: 1 as void")),
        ("as-chain", w("    minimumWidth: 1 as int as uint as double as int")),
        ("assign-in-binding", w("    windowTitle: windowTitle = \"a\"")),
        ("assign-rvalue", w("    onWindowTitleChanged: 1 = 2")),
        ("assign-readonly", w("    onWindowTitleChanged: root.isWindow = true")),
        ("update-expr", w("    onWindowTitleChanged: { let a = 1; a++ }")),
        ("compound-assign", w("    onWindowTitleChanged: { let a = 1; a += 1 }")),
        ("comma-expr", w("    windowTitle: (1, \"a\")")),
        ("new-expr", w("    windowTitle: new QString()")),
        ("object-literal", w("    windowTitle: ({a: 1})")),
        ("spread", w("    QComboBox { model: [...[\"a\"]] }")),
        ("array-hole", w("    QComboBox { model: [\"a\", , \"b\"] }")),
        ("unary-typeof", w("    windowTitle: typeof 1")),
        ("unary-void", w("    windowTitle: void 0")),
        ("unary-delete", w("    onWindowTitleChanged: delete root.windowTitle")),
        ("in-instanceof", w("    enabled: (\"a\" in root) || (root instanceof QWidget)")),
        ("nullish", w("    windowTitle: null ?? \"a\"")),
        ("exp", w("    minimumWidth: 2 ** 3")),
        ("ushr", w("    minimumWidth: 8 >>> 1")),
        ("strict-eq", w("    enabled: 1 === 1")),
        ("readonly-prop", w("    isWindow: true")),
        ("unknown-prop", w("    noSuchProperty: 1")),
        ("prop-dotted-unknown", w("    font.noSuch: 1")),
        ("prop-deep", w("    font.bold.x.y: 1")),
        ("dup-binding", w("    windowTitle: \"a\"\n    windowTitle: \"b\"")),
        ("size-policy", w("    sizePolicy.horizontalPolicy: QSizePolicy.Expanding\n    sizePolicy.horizontalStretch: -1")),
        ("size-policy-map-dynamic", w("    sizePolicy.horizontalStretch: root.minimumWidth")),
        ("geometry", w("    geometry { x: 0; y: 0; width: -1; height: 99999999999 }")),
        ("palette", w("    palette.active.window: \"red\"\n    palette.window: \"blue\"")),
        ("palette-bad", w("    palette.active: 1")),
        ("default-button", w("    QPushButton { default_: true }")),
        ("table-header", w("    QTableView { horizontalHeader.visible: false; verticalHeader { defaultSectionSize: 1 } }")),
        ("tree-header-dynamic", w("    QTreeView { id: t; header.visible: t.enabled }")),
        ("separator", w("    QAction { separator: true }\n    QMenu { QAction { separator: true; text: \"x\" } }")),
        ("separator-dynamic", w("    QAction { id: a; separator: a.enabled }")),
        ("variant-prop", w("    QComboBox { currentData: 1 }")),
        // label stress: diagnostics that carry LABEL ranges (operand types, condition types, duplicated ids, assignment
        // types) with multi-byte text before / inside / after the labelled nodes, on one line and spread over several
        ("label-binary-utf8", w("    windowTitle: \"é中😀\" + 1")),
        ("label-binary-utf8-both", w("    windowTitle: /* é */ \"😀\" /* 中 */ - /* \u{301} */ \"é\" // 😀")),
        ("label-binary-multiline", w("    windowTitle: \"é\"\n        +\n\n\t\t1 // 中\n")),
        ("label-compare-utf8", w("    enabled: \"😀\" == 1")),
        ("label-compare-enum", w("    enabled: Qt.AlignLeft == \"é\"")),
        ("label-logical-utf8", w("    enabled: \"é\" && /* 中 */ 1")),
        ("label-not-utf8", w("    enabled: !\"é中\"")),
        ("label-condition-utf8", w("    windowTitle: { if (\"😀\") { \"a\" } else { \"b\" } }")),
        ("label-ternary-utf8", w("    windowTitle: \"é\" ? \"中\" : 1")),
        ("label-ternary-branches", w("    windowTitle: enabled ? \"é中😀\" : /* 😀 */ 1")),
        ("label-pointer-mix", w("    QLabel { id: l1 }\n    QMenu { id: m1 }\n    QLabel { buddy: true ? l1 /* é */ : m1 }")),
        ("label-action-menu", w("    QAction { id: a1 }\n    QMenu { id: m1 }\n    actions: [a1, /* 中 */ m1]")),
        ("label-numeric-mix", w("    QDoubleSpinBox { id: d }\n    minimumWidth: /* é */ d.value + 1")),
        ("label-dup-id-utf8", w("    QLabel { id: é中 }\n    // 😀\n    QLabel { id: é中 }")),
        ("label-dup-id-far", w("    QLabel { id: dup } /* é */ QLabel { text: \"😀😀😀\"; id: dup }\n    QLabel { id: dup }")),
        ("label-assign-utf8", w("    onWindowTitleChanged: { root.windowTitle = /* é */ 1; root.minimumWidth = \"中\" }")),
        ("label-callback-arith", w("    QPushButton { onClicked: function(c: bool) { let é = \"é\" * c; let z = c + \"😀\" } }")),
        ("label-switch-case-type", w("    windowTitle: { switch (\"é\") { case 1: \"a\"; break; case /* 中 */ true: \"b\"; break; default: \"c\" } }")),
        ("label-crlf", raw("import qmluic.QtWidgets\r\nQWidget {\r\n    windowTitle: \"é\" +\r\n        1\r\n}\r\n")),
        ("label-tabs", raw("import qmluic.QtWidgets\nQWidget {\n\twindowTitle:\t\"é\"\t+\t1\t// 中\n}\n")),
        ("label-last-byte", raw("import qmluic.QtWidgets\nQWidget { windowTitle: \"é\" + 1 }")),
        ("label-zero-width", w("    windowTitle: \"a\" + \u{200B}1")),
    ]
}

/// (label, document): control-flow stress, built systematically — switch statements with 0..3 cases and `default` absent /
/// first / in every middle position / last, in a binding (clauses return) and in a callback (clauses assign and break, one
/// falls through), nested switches with and without braces, if / else-if chains of depth 0..3 with and without braces and
/// final else, nested ternaries, let / const with and without type annotation, callbacks with parameters, every call /
/// array / member / cast shape.  All of them are valid documents (the trivia family needs valid bases; the mutation and
/// truncation families break them).
fn control_flow_stress() -> Vec<(String, String)> {
    let doc = |label_text: &str, button_members: &str, extra: &str| {
        format!(
            "import qmluic.QtWidgets\n\nQWidget {{\n    id: root\n    QSpinBox {{ id: spin }}\n    QLineEdit {{ id: edit }}\n    QCheckBox {{ id: check }}\n    QLabel {{\n        id: label\n        text: {label_text}\n    }}\n    QPushButton {{\n        id: button\n{button_members}\n    }}\n{extra}}}\n"
        )
    };
    let mut out: Vec<(String, String)> = vec![];
    // switch: n cases, default at every position or absent
    for n in 0..=3usize {
        let mut dpositions: Vec<Option<usize>> = vec![None];
        dpositions.extend((0..=n).map(Some));
        for dpos in dpositions {
            let mut ret_clauses: Vec<String> = (0..n).map(|i| format!("case {i}: return \"c{i}\";")).collect();
            let mut cb_clauses: Vec<String> = (0..n)
                .map(|i| if i == 1 { format!("case {i}: label.text = \"c{i}\";") } else { format!("case {i}: label.text = \"c{i}\"; break;") })
                .collect();
            if let Some(d) = dpos {
                ret_clauses.insert(d, "default: return \"d\";".to_owned());
                cb_clauses.insert(d, if d == n { "default: edit.text = \"d\"".to_owned() } else { "default: edit.text = \"d\"; break;".to_owned() });
            }
            let tail = if dpos.is_none() { " return \"none\";" } else { "" };
            let binding = format!("{{ switch (spin.value) {{ {} }}{tail} }}", ret_clauses.join(" "));
            let callback = format!(
                "        onClicked: function(checked: bool) {{\n            switch (spin.value) {{\n            {}\n            }}\n        }}",
                cb_clauses.join("\n            ")
            );
            let name = match dpos {
                None => format!("switch-{n}-nodefault"),
                Some(d) => format!("switch-{n}-default-at-{d}"),
            };
            out.push((name, doc(&binding, &callback, "")));
        }
    }
    // nested switches
    out.push((
        "switch-nested-braced".into(),
        doc(
            "{ switch (spin.value) { case 0: { switch (edit.text) { case \"a\": return \"0a\"; default: return \"0\" } } default: return \"d\" } }",
            "        onClicked: { switch (spin.value) { case 0: { switch (edit.text) { default: label.text = \"x\"; break; case \"a\": break } break } case 1: break; default: edit.clear() } }",
            "",
        ),
    ));
    out.push((
        "switch-nested-bare".into(),
        doc(
            "{ switch (spin.value) { default: switch (edit.text) { case \"a\": return \"a\" } return \"d\"; case 1: return \"1\" } }",
            "        onClicked: { switch (spin.value) { case 0: switch (edit.text) { case \"a\": break; default: break } break; default: switch (1) { } } }",
            "",
        ),
    ));
    out.push((
        "switch-completion-values".into(),
        doc("{ switch (spin.value) { case 1: \"a\"; break; case 2: \"b\"; break; default: \"c\" } }", "        onClicked: { switch (check.checked) { case true: case false: edit.clear() } }", ""),
    ));
    // if / else-if chains
    for depth in 0..=3usize {
        for (braces, final_else) in [(true, true), (true, false), (false, true), (false, false)] {
            let wrap = |st: String| if braces { format!("{{ {st} }}") } else { format!("{st};") };
            let mut b = format!("if (spin.value > 0) {}", wrap("return \"p\"".into()));
            let mut c = format!("if (checked) {}", wrap("label.text = \"p\"".into()));
            for i in 0..depth {
                b.push_str(&format!(" else if (spin.value < -{i}) {}", wrap(format!("return \"n{i}\""))));
                c.push_str(&format!(" else if (spin.value < -{i}) {}", wrap(format!("edit.text = \"n{i}\""))));
            }
            if final_else {
                b.push_str(&format!(" else {}", wrap("return \"z\"".into())));
                c.push_str(&format!(" else {}", wrap("edit.clear()".into())));
            }
            out.push((
                format!("if-chain-{depth}-{}-{}", if braces { "braces" } else { "bare" }, if final_else { "else" } else { "noelse" }),
                doc(&format!("{{ {b} return \"after\" }}"), &format!("        onClicked: function(checked: bool) {{ {c} }}"), ""),
            ));
        }
    }
    // ternaries, let / const, callbacks with parameters, call / array / member / cast shapes
    out.push((
        "ternary-nested".into(),
        doc(
            "spin.value > 0 ? spin.value > 1 ? \"two\" : \"one\" : check.checked ? \"zero\" : (edit.text)",
            "        enabled: check.checked ? true : false\n        onClicked: label.text = check.checked ? qsTr(\"on\") : \"off\"",
            "",
        ),
    ));
    out.push((
        "let-const".into(),
        doc(
            "{ let s: QString = edit.text; const n = spin.value * 2, m: int = 1; let t: QString; t = \"!\"; if (n > m) { s = s + t } return s }",
            "        onClicked: { let a = 1; const b: int = a + 2; { let a = \"inner\"; label.text = a } spin.value = a + b }",
            "",
        ),
    ));
    out.push((
        "callback-parameters".into(),
        doc(
            "\"x\"",
            "        checkable: true\n        onToggled: function(on: bool) { label.text = on ? \"on\" : \"off\" }\n        onClicked: function() { edit.clear() }\n        onPressed: edit.clear()\n        onReleased: { edit.clear(); label.clear() }",
            "    QSpinBox { id: spin2; onValueChanged: function(v: int) { label.text = v > 0 ? \"p\" : \"n\"; spin.value = v } }\n    QLineEdit { id: edit2; onTextChanged: function(t: QString) { label.text = t } }\n    QComboBox { id: combo; onCurrentIndexChanged: function(i: int) { let k = i + 1; spin.value = k } }\n",
        ),
    ));
    out.push((
        "expression-shapes".into(),
        doc(
            "qsTr(\"%1 of %2\").arg(spin.value).arg(Math.max(1, spin.value, 3)) + [\"a\", \"b\", edit.text][0] + (spin.value as double > 1.5 ? \"\" : \"-\")",
            "        enabled: !check.checked && (spin.value >= -1 || edit.text != \"\") && this.enabled\n        onClicked: { console.log(\"a\", spin.value, [1, 2, 3][1]); root.windowTitle = edit.text + \"/* no comment */\" + '// neither'; spin.value = -spin.value + ~1 - (2 << 1) % 3 }",
            "    QComboBox { model: [\"a\", qsTr(\"b\"), \"*/\", \"/*\", \"//\"]; currentIndex: -1 + (2 as int) }\n    actions: [act1, act2]\n    QAction { id: act1; text: \"*/ not a comment // either /* nor this\" }\n    QAction { id: act2; shortcut: QKeySequence.Copy }\n",
        ),
    ));
    out.push((
        "object-member-shapes".into(),
        "import qmluic.QtWidgets\nimport qmluic.QtWidgets 1.0\n\n// leading comment\n/* and a block */\nQDialog {\n    id: root\n    windowTitle: qsTr(\"t\"); minimumWidth: 10\n    font { bold: true; pointSize: 10 }\n    font.family: \"Sans\"\n    sizePolicy.horizontalPolicy: QSizePolicy.Expanding; sizePolicy.verticalPolicy: QSizePolicy.Fixed\n    QGridLayout {\n        columns: 2\n        QLabel { QLayout.row: 0; QLayout.column: 1; QLayout.alignment: Qt.AlignLeft | Qt.AlignTop; text: \"a\" }\n        QLabel { id: l2; buddy: le; text: \"&b\" }\n        QLineEdit { id: le }\n        QSpacerItem {}\n    }\n    QTabWidget { QWidget { QTabWidget.title: \"one\" } QWidget { QTabWidget.title: qsTr(\"two\") } }\n} // trailing comment\n"
            .to_owned(),
    ));
    out
}

/// (label, document): integer constant folding at the 64-bit (and 32-bit) boundaries — every binary integer operator × every
/// pair of boundary operands (i64::MIN can only be written as an expression), the unary operators, in a binding; a division
/// or remainder `MIN / -1` overflows although the divisor is not zero.
fn int_boundary_stress() -> Vec<(String, String)> {
    const OPERANDS: &[(&str, &str)] = &[
        ("min", "(-9223372036854775807 - 1)"),
        ("min+1", "(-9223372036854775807)"),
        ("-2", "(-2)"),
        ("-1", "(-1)"),
        ("0", "0"),
        ("1", "1"),
        ("63", "63"),
        ("64", "64"),
        ("2^31", "2147483648"),
        ("-2^31", "(-2147483648)"),
        ("2^32", "4294967296"),
        ("max", "9223372036854775807"),
    ];
    const OPS: &[(&str, &str)] = &[("add", "+"), ("sub", "-"), ("mul", "*"), ("div", "/"), ("rem", "%"), ("shl", "<<"), ("shr", ">>"), ("and", "&"), ("or", "|"), ("xor", "^"), ("le", "<="), ("gt", ">"), ("eq", "==")];
    let mut out = vec![];
    for (on, op) in OPS {
        for (an, a) in OPERANDS {
            for (bn, b) in OPERANDS {
                let (prop, expr) = if matches!(*on, "le" | "gt" | "eq") { ("enabled", format!("{a} {op} {b}")) } else { ("minimumWidth", format!("{a} {op} {b}")) };
                out.push((format!("int-boundary:{on}:{an}:{bn}"), format!("import qmluic.QtWidgets\nQWidget {{\n    id: root\n    {prop}: {expr}\n}}\n")));
            }
        }
    }
    for (an, a) in OPERANDS {
        for (on, op) in [("neg", "-"), ("not", "~"), ("plus", "+")] {
            out.push((format!("int-boundary:{on}:{an}"), format!("import qmluic.QtWidgets\nQWidget {{\n    id: root\n    minimumWidth: {op}{a}\n}}\n")));
        }
        // the same operand met by a dynamic value: nothing to fold, the constant goes to C++
        out.push((format!("int-boundary:dyn:{an}"), format!("import qmluic.QtWidgets\nQWidget {{\n    id: root\n    QSpinBox {{ id: spin }}\n    minimumWidth: spin.value / {a} + spin.value % {a}\n    onWindowTitleChanged: spin.value = {a} / -1\n}}\n")));
    }
    out
}

fn extract_test_snippets(src: &str) -> Vec<String> {
    let mut out = vec![];
    let mut rest = src;
    while let Some(i) = rest.find("r###\"") {
        let after = &rest[i + 5..];
        match after.find("\"###") {
            Some(j) => {
                out.push(dedent(&after[..j]));
                rest = &after[j + 4..];
            }
            None => break,
        }
    }
    out
}

/// like tests/common/mod.rs `dedent`
fn dedent(data: &str) -> String {
    let lines: Vec<&str> = data.lines().collect();
    let indent = lines.iter().filter(|l| !l.trim().is_empty()).map(|l| l.len() - l.trim_start().len()).min().unwrap_or(0);
    let mut s = String::new();
    for l in lines.iter().skip_while(|l| l.trim().is_empty()) {
        if l.len() >= indent && l.is_char_boundary(indent) {
            s.push_str(&l[indent..]);
        } else {
            s.push_str(l.trim_start());
        }
        s.push('\n');
    }
    s
}

impl C07 {
    pub fn new() -> Self {
        let mut bases = vec![];
        let mut names: Vec<_> = std::fs::read_dir(format!("{}/examples", env::REPO))
            .map(|d| d.flatten().map(|e| e.path()).collect())
            .unwrap_or_else(|_| vec![]);
        names.sort();
        for p in names {
            if p.extension().map(|e| e == "qml").unwrap_or(false) {
                if let Ok(s) = std::fs::read_to_string(&p) {
                    bases.push((format!("example:{}", p.file_stem().unwrap().to_string_lossy()), s));
                }
            }
        }
        let mut tests: Vec<_> =
            std::fs::read_dir(format!("{}/tests", env::REPO)).map(|d| d.flatten().map(|e| e.path()).collect()).unwrap_or_else(|_| vec![]);
        tests.sort();
        for p in tests {
            if p.extension().map(|e| e == "rs").unwrap_or(false) {
                if let Ok(s) = std::fs::read_to_string(&p) {
                    for (k, snip) in extract_test_snippets(&s).into_iter().enumerate() {
                        // keep QML-looking snippets (the others are expected outputs / JSON)
                        if snip.contains('{') && !snip.trim_start().starts_with('<') && snip.len() < 6000 {
                            bases.push((format!("test:{}:{k}", p.file_stem().unwrap().to_string_lossy()), snip));
                        }
                    }
                }
            }
        }
        // the adversarially named classes, the classes with non-ASCII names (unicode_ids::foreign_classes) and a directory
        // module of QML components with non-ASCII names (seen only by documents parsed with a path inside VIRTUAL_DIR)
        let mut classes = env::adversarial_classes();
        classes.extend(unicode_ids::foreign_classes());
        let mut all_classes = env::load_qt_classes();
        all_classes.extend(classes.iter().cloned());
        qmluic::metatype_tweak::apply_all(&mut all_classes);
        let mut tm = env::load_type_map_with(classes);
        let mut dir_module = qmluic::typemap::ModuleData::default();
        for name in unicode_ids::virtual_components() {
            let mut data = qmluic::typemap::QmlComponentData::with_super(name, "QPushButton");
            data.import_module(qmluic::typemap::ModuleIdBuf::Named("qmluic.QtWidgets".to_owned()));
            dir_module.push_qml_component(data);
        }
        tm.insert_module(qmluic::typemap::ModuleIdBuf::Directory(unicode_ids::VIRTUAL_DIR.into()), dir_module);
        C07 { tm, classes: all_classes, bases, base_cache: Default::default() }
    }
}

// ---------------------------------------------------------------------------------------------- lexer / mutations

/// Splits a QML/JS text into tokens (white space and comments are tokens too); concatenating the tokens gives the text.
pub fn lex(src: &str) -> Vec<&str> {
    const OPS: [&str; 34] = [
        ">>>=", "...", "===", "!==", "**=", "<<=", ">>=", ">>>", "&&=", "||=", "??=", "=>", "==", "!=", "<=", ">=", "&&", "||", "??", "?.",
        "++", "--", "+=", "-=", "*=", "/=", "%=", "&=", "|=", "^=", "<<", ">>", "**", "//",
    ];
    let b = src.as_bytes();
    let mut out = vec![];
    let mut i = 0;
    let is_id = |c: char| c.is_alphanumeric() || c == '_' || c == '$';
    while i < src.len() {
        let c = src[i..].chars().next().unwrap();
        let start = i;
        if c.is_whitespace() {
            while i < src.len() && src[i..].chars().next().unwrap().is_whitespace() {
                i += src[i..].chars().next().unwrap().len_utf8();
            }
        } else if src[i..].starts_with("//") {
            i = src[i..].find('\n').map(|k| i + k).unwrap_or(src.len());
        } else if src[i..].starts_with("/*") {
            i = src[i + 2..].find("*/").map(|k| i + 2 + k + 2).unwrap_or(src.len());
        } else if c == '"' || c == '\'' || c == '`' {
            i += 1;
            while i < src.len() {
                let d = src[i..].chars().next().unwrap();
                if d == '\\' {
                    i += 1;
                    if i < src.len() {
                        i += src[i..].chars().next().unwrap().len_utf8();
                    }
                    continue;
                }
                i += d.len_utf8();
                if d == c || (d == '\n' && c != '`') {
                    break;
                }
            }
        } else if c.is_ascii_digit() {
            while i < src.len() {
                let d = src[i..].chars().next().unwrap();
                if d.is_ascii_alphanumeric() || d == '.' || d == '_' {
                    i += 1;
                } else {
                    break;
                }
            }
        } else if is_id(c) {
            while i < src.len() && is_id(src[i..].chars().next().unwrap()) {
                i += src[i..].chars().next().unwrap().len_utf8();
            }
        } else if let Some(op) = OPS.iter().find(|op| src[i..].starts_with(**op) && **op != "//") {
            i += op.len();
        } else {
            i += c.len_utf8();
        }
        let _ = b;
        out.push(&src[start..i]);
    }
    out
}

fn is_blank(t: &str) -> bool {
    t.chars().all(|c| c.is_whitespace())
}

fn char_positions(s: &str) -> Vec<usize> {
    let mut v: Vec<usize> = s.char_indices().map(|(i, _)| i).collect();
    v.push(s.len());
    v
}

/// One token-level mutation of `src`; returns (label, text).
fn mutate(rng: &mut Rng, src: &str) -> (&'static str, String) {
    let toks = lex(src);
    let solid: Vec<usize> = (0..toks.len()).filter(|&i| !is_blank(toks[i])).collect();
    if solid.is_empty() {
        return ("soup", token_soup(rng, 12));
    }
    let pick = |rng: &mut Rng| solid[rng.below(solid.len())];
    let join = |v: &[String]| v.concat();
    let mut v: Vec<String> = toks.iter().map(|t| (*t).to_owned()).collect();
    match rng.below(17) {
        16 => {
            // multi-byte characters everywhere (strings, comments, extra comments), then usually one more mutation: any
            // byte-count arithmetic on a range (clipping, offsets) then lands inside a character
            let dense = densify(rng, src);
            if rng.chance(3, 4) {
                let (_, again) = mutate(rng, &dense);
                ("utf8-dense", again)
            } else {
                ("utf8-dense", dense)
            }
        }
        0 => {
            let i = pick(rng);
            v.remove(i);
            ("del-token", join(&v))
        }
        1 => {
            let i = pick(rng);
            let t = v[i].clone();
            v.insert(i, t);
            ("dup-token", join(&v))
        }
        2 => {
            let (i, j) = (pick(rng), pick(rng));
            v.swap(i, j);
            ("swap-tokens", join(&v))
        }
        3 => {
            let i = pick(rng);
            v[i] = (*rng.pick(VOCAB)).to_owned();
            ("replace-token", join(&v))
        }
        4 => {
            let i = pick(rng);
            v.insert(i, format!("{} ", rng.pick(VOCAB)));
            ("insert-token", join(&v))
        }
        5 => {
            // unbalance: drop one bracket or quote character
            let brs: Vec<usize> = solid.iter().copied().filter(|&i| matches!(toks[i], "{" | "}" | "[" | "]" | "(" | ")")).collect();
            if !brs.is_empty() && rng.chance(2, 3) {
                let i = *rng.pick(&brs);
                v.remove(i);
                ("unbalance-del-bracket", join(&v))
            } else {
                let strs: Vec<usize> = solid.iter().copied().filter(|&i| toks[i].starts_with('"') || toks[i].starts_with('\'')).collect();
                if strs.is_empty() {
                    let i = pick(rng);
                    v.insert(i, "\"".to_owned());
                    ("unbalance-add-quote", join(&v))
                } else {
                    let i = *rng.pick(&strs);
                    let t = &toks[i];
                    v[i] = if rng.chance(1, 2) { t[..t.len() - 1].to_owned() } else { t[1..].to_owned() };
                    ("unbalance-del-quote", join(&v))
                }
            }
        }
        6 => {
            let i = pick(rng);
            let b = *rng.pick(&["{", "}", "[", "]", "(", ")", "\"", "'", "`", "/*", "*/", "${"]);
            v.insert(i, b.to_owned());
            ("unbalance-add-bracket", join(&v))
        }
        7 => {
            // stray multi-byte character at a random character position of the whole text
            let pos = char_positions(src);
            let p = *rng.pick(&pos);
            let mut s = src.to_owned();
            s.insert_str(p, *rng.pick(SPECIAL_CHARS));
            ("utf8-anywhere", s)
        }
        8 => {
            // … inside an identifier, a string or a number
            let cands: Vec<usize> = solid
                .iter()
                .copied()
                .filter(|&i| {
                    let c = toks[i].chars().next().unwrap();
                    c.is_alphanumeric() || c == '"' || c == '\'' || c == '_'
                })
                .collect();
            if cands.is_empty() {
                return ("soup", token_soup(rng, 12));
            }
            let i = *rng.pick(&cands);
            let pos = char_positions(&v[i]);
            let p = *rng.pick(&pos);
            let ch = *rng.pick(SPECIAL_CHARS);
            v[i].insert_str(p, ch);
            let c0 = toks[i].chars().next().unwrap();
            (if c0.is_ascii_digit() { "utf8-in-number" } else if c0 == '"' || c0 == '\'' { "utf8-in-string" } else { "utf8-in-identifier" }, join(&v))
        }
        9 => {
            let nums: Vec<usize> = solid.iter().copied().filter(|&i| toks[i].chars().next().unwrap().is_ascii_digit()).collect();
            let i = if nums.is_empty() { pick(rng) } else { *rng.pick(&nums) };
            v[i] = (*rng.pick(HUGE_NUMBERS)).to_owned();
            ("huge-number", join(&v))
        }
        10 => {
            // delete a run of tokens
            let i = pick(rng);
            let n = 1 + rng.below(8);
            let end = (i + n).min(v.len());
            v.drain(i..end);
            ("del-run", join(&v))
        }
        11 => {
            // duplicate a run of tokens somewhere else
            let i = pick(rng);
            let n = 1 + rng.below(10);
            let end = (i + n).min(v.len());
            let run: Vec<String> = v[i..end].to_vec();
            let at = pick(rng).min(v.len());
            for (k, t) in run.into_iter().enumerate() {
                v.insert((at + k).min(v.len()), t);
            }
            ("dup-run", join(&v))
        }
        12 => {
            // wrap one token in up to MAX_INPROC_DEPTH brackets
            let i = pick(rng);
            let d = 1 + rng.below(MAX_INPROC_DEPTH);
            let (o, c) = *rng.pick(&[("(", ")"), ("[", "]"), ("{", "}"), ("!(", ")"), ("-(", ")"), ("(true ? ", " : 0)")]);
            v[i] = format!("{}{}{}", o.repeat(d), v[i], c.repeat(d));
            ("wrap-deep", join(&v))
        }
        13 => {
            // line-ending / blank changes
            let s = match rng.below(4) {
                0 => src.replace('\n', "\r\n"),
                1 => src.replace('\n', "\r"),
                2 => src.replace(' ', "\t"),
                _ => src.replace('\n', " "),
            };
            ("line-endings", s)
        }
        14 => {
            // replace a token by a keyword-ish neighbour: case flip of the first letter
            let i = pick(rng);
            let t = v[i].clone();
            let mut cs: Vec<char> = t.chars().collect();
            if cs[0].is_lowercase() {
                cs[0] = cs[0].to_uppercase().next().unwrap();
            } else {
                cs[0] = cs[0].to_lowercase().next().unwrap();
            }
            v[i] = cs.into_iter().collect();
            ("case-flip", join(&v))
        }
        _ => {
            // two mutations
            let (_, once) = mutate(rng, src);
            let (_, twice) = mutate(rng, &once);
            ("double", twice)
        }
    }
}

/// The text with the letters, digits and blanks inside string literals and comments replaced (every other one) by 2-, 3- and
/// 4-byte characters, and a multi-byte comment put into some of the gaps between tokens.
fn densify(rng: &mut Rng, src: &str) -> String {
    const WIDE: &[char] = &['é', '中', '😀', 'ß', '→', '𝄞'];
    let mut out = String::with_capacity(src.len() * 2);
    for t in lex(src) {
        let first = t.chars().next().unwrap_or(' ');
        if first == '"' || first == '\'' || t.starts_with("//") || t.starts_with("/*") {
            let cs: Vec<char> = t.chars().collect();
            let (lo, hi) = if t.starts_with('/') { (2, cs.len().saturating_sub(if t.starts_with("/*") { 2 } else { 0 })) } else { (1, cs.len().saturating_sub(1)) };
            let mut escaped = false;
            for (i, c) in cs.iter().enumerate() {
                if i >= lo && i < hi && !escaped && (c.is_ascii_alphanumeric() || *c == ' ') && rng.chance(1, 2) {
                    out.push(*rng.pick(WIDE));
                } else {
                    out.push(*c);
                }
                escaped = !escaped && *c == '\\';
            }
        } else if is_blank(t) && !t.contains('\n') && rng.chance(1, 6) {
            out.push_str(" /* ");
            for _ in 0..1 + rng.below(40) {
                out.push(*rng.pick(WIDE));
            }
            out.push_str(" */ ");
        } else {
            out.push_str(t);
        }
    }
    out
}

fn token_soup(rng: &mut Rng, max: usize) -> String {
    let n = 1 + rng.below(max);
    let mut s = String::new();
    for _ in 0..n {
        s.push_str(*rng.pick(VOCAB));
        s.push_str(*rng.pick(&[" ", " ", " ", "\n", "", "\t"]));
    }
    s
}

/// Deeply nested text of one kind (`n` levels).
pub fn nested(kind: &str, n: usize) -> String {
    let w = |body: &str| format!("import qmluic.QtWidgets\nQWidget {{\n{body}\n}}\n");
    match kind {
        "sum" => w(&format!("    minimumWidth: {}", vec!["1"; n.max(1)].join("+"))),
        "objects" => {
            let mut s = String::from("import qmluic.QtWidgets\n");
            for _ in 0..n {
                s.push_str("QWidget { ");
            }
            s.push_str(&"}".repeat(n));
            s.push('\n');
            s
        }
        "parens" => w(&format!("    minimumWidth: {}1{}", "(".repeat(n), ")".repeat(n))),
        "array" => w(&format!("    QComboBox {{ model: {}\"a\"{} }}", "[".repeat(n), "]".repeat(n))),
        "ternary" => w(&format!("    minimumWidth: {}0", "true ? 1 : ".repeat(n))),
        "unary" => w(&format!("    enabled: {}true", "!".repeat(n))),
        "member" => w(&format!("    windowTitle: root{}", ".parent".repeat(n))),
        "block" => w(&format!("    windowTitle: {}\"a\"{}", "{ ".repeat(n), " }".repeat(n))),
        "if" => w(&format!("    windowTitle: {{ {} \"a\" }}", "if (enabled) ".repeat(n))),
        "grouped" => w(&format!("    {}x: 1{}", "font { ".repeat(n), " }".repeat(n))),
        "dotted" => w(&format!("    font{}: 1", ".bold".repeat(n))),
        "string-concat" => w(&format!("    windowTitle: {}", vec!["\"a\""; n.max(1)].join(" + "))),
        _ => w("    windowTitle: \"?\""),
    }
}

// ---------------------------------------------------------------------------------------------- oracle

fn range_ok(src: &str, s: usize, e: usize) -> bool {
    s <= e && e <= src.len() && src.is_char_boundary(s) && src.is_char_boundary(e)
}

#[derive(Default)]
struct ModeStats {
    syntax_errors: usize,
    built: bool,
    errors: usize,
    warnings: usize,
    labels: usize,
    xml_bytes: usize,
    header_bytes: usize,
    /// `error: message` / `warning: message` of every diagnostic, in report order (trivia oracle)
    messages: Vec<String>,
    ui: Option<String>,
    header: Option<String>,
}

fn render_all(doc: &UiDocument, ds: impl IntoIterator<Item = reporting::ReportableDiagnostic>) -> Result<usize, String> {
    let config = term::Config::default();
    let files = SimpleFile::new("<unknown>", doc.source());
    let mut n = 0;
    for d in ds {
        let mut buf = String::new();
        term::emit_to_string(&mut buf, &config, &files, &d).map_err(|e| format!("codespan rendering failed: {e}"))?;
        if buf.is_empty() {
            return Err("codespan rendered an empty report".into());
        }
        n += buf.len();
    }
    Ok(n)
}

/// How the document is named: the type name (the CLI takes it from the file name) and whether it is parsed with a path
/// inside unicode_ids::VIRTUAL_DIR (then the QML components of that directory module are visible).
#[derive(Clone, Debug)]
struct DocName {
    type_name: String,
    in_virtual_dir: bool,
}

impl Default for DocName {
    fn default() -> Self {
        DocName { type_name: "MyType".to_owned(), in_virtual_dir: false }
    }
}

impl DocName {
    /// from the optional trailing arguments `"TypeName"` and `dir` of a request
    fn from_args(args: &[Sexp]) -> DocName {
        DocName {
            type_name: args.first().and_then(|a| a.as_str()).unwrap_or("MyType").to_owned(),
            in_virtual_dir: args.get(1).and_then(|a| a.as_atom()) == Some("dir"),
        }
    }

    fn path(&self) -> Option<camino::Utf8PathBuf> {
        // a file name must not hold `/` or NUL; the type name proper is passed separately
        let file: String = self.type_name.chars().map(|c| if c == '/' || c == '\0' { '_' } else { c }).collect();
        self.in_virtual_dir.then(|| camino::Utf8PathBuf::from(format!("{}/{file}.qml", unicode_ids::VIRTUAL_DIR)))
    }
}

fn check_mode_as(tm: &TypeMap, src: &str, name: &DocName, mode: Mode) -> Result<ModeStats, String> {
    // (statistics are collected by check_doc)
    // tree-sitter (third-party GLR parser with error recovery) runs inside `UiDocument::parse`
    crate::set_phase("tree-sitter-parse");
    let doc = UiDocument::parse(src, name.type_name.as_str(), name.path());
    crate::set_phase("qmluic");
    if doc.source() != src {
        return Err("document source differs from the input".into());
    }
    check_doc(tm, &doc, mode)
}

/// The totality oracle on a parsed document (one mode).
fn check_doc(tm: &TypeMap, doc: &UiDocument, mode: Mode) -> Result<ModeStats, String> {
    let mut st = ModeStats::default();
    let src = doc.source();
    if doc.has_syntax_error() {
        let errors = doc.collect_syntax_errors();
        if errors.is_empty() {
            return Err("has_syntax_error() but collect_syntax_errors() is empty".into());
        }
        for e in &errors {
            let r = e.byte_range();
            if !range_ok(src, r.start, r.end) {
                return Err(format!("syntax error range {}..{} outside the text (len {}) or not on character boundaries", r.start, r.end, src.len()));
            }
            let _ = e.to_string();
        }
        render_all(doc, reporting::make_reportable_syntax_errors(&errors))?;
        st.syntax_errors = errors.len();
        return Ok(st);
    }
    if !doc.collect_syntax_errors().is_empty() {
        return Err("syntax errors collected although has_syntax_error() is false".into());
    }
    let ctx = BuildContext::prepare(tm, FileNameRules::default(), mode.handling()).map_err(|e| format!("BuildContext: {e}"))?;
    let mut diags = Diagnostics::new();
    let r = uigen::build(&ctx, doc, &mut diags);
    for d in diags.iter() {
        let br = d.byte_range();
        if !range_ok(src, br.start, br.end) || d.start_byte() != br.start || d.end_byte() != br.end {
            return Err(format!(
                "diagnostic range {}..{} outside the text (len {}) or not on character boundaries: {}",
                br.start,
                br.end,
                src.len(),
                d.message()
            ));
        }
        for (lr, msg) in d.labels() {
            st.labels += 1;
            if !range_ok(src, lr.start, lr.end) {
                return Err(format!("label range {}..{} outside the text (len {}) or not on character boundaries: {}", lr.start, lr.end, src.len(), msg));
            }
        }
        match d.kind() {
            DiagnosticKind::Error => {
                st.errors += 1;
                st.messages.push(format!("error: {}", d.message()));
            }
            DiagnosticKind::Warning => {
                st.warnings += 1;
                st.messages.push(format!("warning: {}", d.message()));
            }
        }
    }
    if diags.has_error() != (st.errors > 0) {
        return Err("Diagnostics::has_error disagrees with the diagnostics".into());
    }
    render_all(doc, reporting::make_reportable_diagnostics(&diags))?;
    match r {
        Some((form, sup)) => {
            st.built = true;
            let mut buf = Vec::new();
            form.serialize_to_xml(&mut XmlWriter::new_with_indent(&mut buf, b' ', 1)).map_err(|e| format!("serialize_to_xml failed: {e}"))?;
            let ui = String::from_utf8(buf).map_err(|_| "the .ui is not UTF-8".to_owned())?;
            st.xml_bytes = ui.len();
            // a form produced next to error diagnostics is never written by the CLI; it must still serialise
            xml::parse(&ui).map_err(|e| format!("the produced .ui is not well-formed XML: {e}"))?;
            st.ui = Some(ui);
            if let Some(s) = sup {
                let mut b = Vec::new();
                s.write_header(&mut b).map_err(|e| format!("write_header failed: {e}"))?;
                let h = String::from_utf8(b).map_err(|_| "the header is not UTF-8".to_owned())?;
                st.header_bytes = h.len();
                st.header = Some(h);
            }
        }
        None => {
            if st.errors == 0 {
                return Err("no form and no error diagnostic".into());
            }
        }
    }
    Ok(st)
}

// ---------------------------------------------------------------------------------------------- trivia oracle

/// The text with `trivia` put in at byte `pos` (a token boundary).  `/` directly before `/…` would start or extend a
/// comment, so the two are kept apart by a blank.
fn insert_trivia(base: &str, pos: usize, trivia: &str) -> String {
    let mut s = String::with_capacity(base.len() + trivia.len() + 1);
    s.push_str(&base[..pos]);
    if base[..pos].ends_with('/') && trivia.starts_with('/') {
        s.push(' ');
    }
    s.push_str(trivia);
    s.push_str(&base[pos..]);
    s
}

/// Totality oracle in all three modes; Err = the answer to give (`(fail …)` / `(panic …)`).
fn run_all_modes(tm: &TypeMap, src: &str) -> Result<Vec<ModeStats>, (String, &'static str, bool)> {
    run_modes(tm, src, &Mode::all())
}

fn run_modes(tm: &TypeMap, src: &str, modes: &[Mode]) -> Result<Vec<ModeStats>, (String, &'static str, bool)> {
    run_modes_as(tm, src, &DocName::default(), modes)
}

fn run_modes_as(tm: &TypeMap, src: &str, name: &DocName, modes: &[Mode]) -> Result<Vec<ModeStats>, (String, &'static str, bool)> {
    let mut per_mode = vec![];
    for &mode in modes {
        match catch_unwind(AssertUnwindSafe(|| check_mode_as(tm, src, name, mode))) {
            Ok(Ok(s)) => per_mode.push(s),
            Ok(Err(what)) => return Err((what, mode.name(), false)),
            Err(e) => return Err((panic_text(e), mode.name(), true)),
        }
    }
    Ok(per_mode)
}

fn summary(s: &ModeStats) -> String {
    format!(
        "[{}{} errors={} warnings={}]",
        if s.syntax_errors > 0 { format!("syntax-errors={} ", s.syntax_errors) } else { String::new() },
        if s.built { "built" } else { "not-built" },
        s.errors,
        s.warnings
    )
}

fn first_difference(a: &str, b: &str) -> String {
    let n = a.bytes().zip(b.bytes()).take_while(|(x, y)| x == y).count();
    let cut = |s: &str| {
        let mut lo = n.saturating_sub(30);
        while !s.is_char_boundary(lo) {
            lo -= 1;
        }
        let mut hi = (n + 30).min(s.len());
        while !s.is_char_boundary(hi) {
            hi += 1;
        }
        s[lo..hi].to_owned()
    };
    format!("first difference at byte {n}: {:?} / {:?}", cut(a), cut(b))
}

/// None = the mutated document behaves exactly like the base document (acceptance, diagnostics, .ui and header bytes,
/// in every mode); otherwise a one-line description of the first difference.
fn compare_outcomes(base: &[ModeStats], mutated: &[ModeStats], modes: &[Mode]) -> Option<String> {
    for ((b, m), mode) in modes.iter().map(|m| &base[Mode::all().iter().position(|x| x == m).unwrap()]).zip(mutated).zip(modes.iter().copied()) {
        let mut what = vec![];
        if b.syntax_errors != m.syntax_errors || b.built != m.built || b.errors != m.errors || b.warnings != m.warnings {
            what.push(format!("base={} mutated={}", summary(b), summary(m)));
        }
        let mut only_b: Vec<&String> = vec![];
        let mut rest: Vec<&String> = m.messages.iter().collect();
        for x in &b.messages {
            match rest.iter().position(|y| *y == x) {
                Some(i) => {
                    rest.remove(i);
                }
                None => only_b.push(x),
            }
        }
        for x in only_b {
            what.push(format!("-{x:?}"));
        }
        for x in rest {
            what.push(format!("+{x:?}"));
        }
        if what.is_empty() {
            match (&b.ui, &m.ui) {
                (Some(x), Some(y)) if x != y => what.push(format!("the .ui differs, {}", first_difference(x, y))),
                (Some(_), None) | (None, Some(_)) => what.push("one has a .ui, the other has not".into()),
                _ => {}
            }
            match (&b.header, &m.header) {
                (Some(x), Some(y)) if x != y => what.push(format!("the header differs, {}", first_difference(x, y))),
                (Some(_), None) | (None, Some(_)) => what.push("one has a support header, the other has not".into()),
                _ => {}
            }
        }
        if !what.is_empty() {
            return Some(format!("mode {}: {}", mode.name(), what.join(" ")));
        }
    }
    None
}

enum TriviaVerdict {
    Same,
    /// the position class is one at which the grammar itself parses differently (trivia::grammar_exception)
    Grammar(&'static str, &'static str),
    /// a difference or a totality failure of the mutated text
    Bad(String),
}

struct TriviaBase<'a> {
    tm: &'a TypeMap,
    text: &'a str,
    outcome: std::sync::Arc<Vec<ModeStats>>,
}

impl<'a> TriviaBase<'a> {
    fn judge_text(&self, mutated: &str) -> Result<(), String> {
        match run_all_modes(self.tm, mutated) {
            Ok(m) => match compare_outcomes(&self.outcome, &m, &Mode::all()) {
                None => Ok(()),
                Some(d) => Err(d),
            },
            Err((what, mode, true)) => Err(format!("PANIC in mode {mode}: {what}")),
            Err((what, mode, false)) => Err(format!("totality oracle fails in mode {mode}: {what}")),
        }
    }

    /// `modes`: the dynamic-binding modes the mutated text is translated in (the base outcome has all three)
    fn judge(&self, b: &trivia::Boundary, tr: &str, modes: &[Mode]) -> TriviaVerdict {
        let mutated = insert_trivia(self.text, b.pos, tr);
        match run_modes(self.tm, &mutated, modes) {
            Ok(m) => match compare_outcomes(&self.outcome, &m, modes) {
                None => TriviaVerdict::Same,
                Some(d) => match trivia::grammar_exception(b, tr) {
                    Some(why) => TriviaVerdict::Grammar(why, if m[0].syntax_errors > 0 { "syntax-error" } else { "different-parse" }),
                    None => TriviaVerdict::Bad(d),
                },
            },
            // no exception table excuses a panic or a bad range
            Err((what, mode, true)) => TriviaVerdict::Bad(format!("PANIC in mode {mode}: {what}")),
            Err((what, mode, false)) => TriviaVerdict::Bad(format!("totality oracle fails in mode {mode}: {what}")),
        }
    }
}

fn line_col(text: &str, pos: usize) -> String {
    let line = text[..pos].matches('\n').count() + 1;
    let col = text[..pos].rfind('\n').map(|i| pos - i - 1).unwrap_or(pos) + 1;
    format!("{line}:{col}")
}

/// `(f "class" pos "line:col" "trivia" "what")`
fn trivia_failure(base: &str, b: &trivia::Boundary, tr: &str, what: &str) -> Sexp {
    node("f", vec![st(b.class()), num(b.pos), st(line_col(base, b.pos)), st(tr), st(what)])
}

fn excerpt(text: &str) -> String {
    if text.len() <= 4000 {
        text.to_owned()
    } else {
        let mut hi = 4000;
        while !text.is_char_boundary(hi) {
            hi -= 1;
        }
        format!("{}…", &text[..hi])
    }
}

#[derive(Default)]
struct TriviaTally {
    insertions: usize,
    same: usize,
    grammar: std::collections::BTreeMap<(String, &'static str, &'static str), usize>,
    failures: Vec<Sexp>,
    n_failures: usize,
    first_mutated: Option<String>,
}

impl TriviaTally {
    fn record(&mut self, base: &TriviaBase, b: &trivia::Boundary, tr: &str) {
        self.record_in(base, b, tr, &Mode::all())
    }

    fn record_in(&mut self, base: &TriviaBase, b: &trivia::Boundary, tr: &str, modes: &[Mode]) {
        self.insertions += 1;
        match base.judge(b, tr, modes) {
            TriviaVerdict::Same => self.same += 1,
            TriviaVerdict::Grammar(why, effect) => *self.grammar.entry((b.class(), why, effect)).or_insert(0) += 1,
            TriviaVerdict::Bad(what) => {
                self.n_failures += 1;
                if self.failures.len() < 60 {
                    self.failures.push(trivia_failure(base.text, b, tr, &what));
                }
                if self.first_mutated.is_none() {
                    self.first_mutated = Some(insert_trivia(base.text, b.pos, tr));
                }
            }
        }
    }

    fn answer(self, positions: usize, classes: usize) -> Sexp {
        if self.n_failures > 0 {
            let mut v = vec![st("trivia changes the result"), node("failures", vec![num(self.n_failures)])];
            v.extend(self.failures);
            v.push(node("first-mutated-text", vec![st(excerpt(&self.first_mutated.unwrap_or_default()))]));
            return node("fail", v);
        }
        let g: Vec<Sexp> = self.grammar.into_iter().map(|((c, why, eff), n)| node("g", vec![st(c), st(why), atom(eff), num(n)])).collect();
        node(
            "ok",
            vec![
                node("positions", vec![num(positions)]),
                node("classes", vec![num(classes)]),
                node("insertions", vec![num(self.insertions)]),
                node("same", vec![num(self.same)]),
                node("grammar-exceptions", g),
            ],
        )
    }
}

impl C07 {
    fn trivia_base<'a>(&'a self, text: &'a str) -> Result<(TriviaBase<'a>, Vec<trivia::Boundary>), Sexp> {
        let doc = UiDocument::parse(text, "MyType", None);
        let Some(bs) = trivia::boundaries(&doc) else {
            return Err(node("fail", vec![st("trivia: the base document has syntax errors")]));
        };
        if let Some(outcome) = self.base_cache.lock().unwrap().get(text).cloned() {
            return Ok((TriviaBase { tm: &self.tm, text, outcome }, bs));
        }
        match run_all_modes(&self.tm, text) {
            Ok(outcome) => {
                let outcome = std::sync::Arc::new(outcome);
                self.base_cache.lock().unwrap().insert(text.to_owned(), outcome.clone());
                Ok((TriviaBase { tm: &self.tm, text, outcome }, bs))
            }
            Err((what, mode, true)) => Err(node("panic", vec![st(what), node("mode", vec![atom(mode)]), atom("base-document")])),
            Err((what, mode, false)) => Err(node("fail", vec![st(what), node("mode", vec![atom(mode)]), atom("base-document")])),
        }
    }

    /// `(c07-trivia "base" POS "trivia")`: one insertion
    fn answer_trivia(&self, text: &str, pos: usize, tr: &str) -> Sexp {
        let (base, _) = match self.trivia_base(text) {
            Ok(x) => x,
            Err(a) => return a,
        };
        if pos > text.len() || !text.is_char_boundary(pos) {
            return node("fail", vec![st("trivia: bad position")]);
        }
        let doc = UiDocument::parse(text, "MyType", None);
        let b = trivia::boundary_at(&doc, pos);
        let mut tally = TriviaTally::default();
        tally.record(&base, &b, tr);
        tally.answer(1, 1)
    }

    /// `(c07-trivia-each "base" SEED)`: at EVERY token boundary one trivia text without and one with a line terminator,
    /// each translated in one of the three modes
    fn answer_trivia_each(&self, text: &str, seed: u64) -> Sexp {
        let (base, bs) = match self.trivia_base(text) {
            Ok(x) => x,
            Err(a) => return a,
        };
        let mut tally = TriviaTally::default();
        let classes: std::collections::BTreeSet<String> = bs.iter().map(|b| b.class()).collect();
        for b in &bs {
            // the concrete-syntax adapters a comment can disturb run before the mode is looked at: each insertion is
            // translated in ONE mode (rotating); the single / saturated trivia cases run all three
            let mut rng = Rng::fork(seed, "c07-trivia-each", b.pos as u64);
            let k = rng.below(3);
            tally.record_in(&base, b, *rng.pick(trivia::INLINE), &[Mode::all()[k]]);
            tally.record_in(&base, b, *rng.pick(trivia::WITH_NEWLINE), &[Mode::all()[(k + 1) % 3]]);
            if b.pos == text.len() {
                // a comment that ends with the file
                tally.record(&base, b, "// eof");
                tally.record(&base, b, "/* eof */");
            }
        }
        tally.answer(bs.len(), classes.len())
    }

    /// `(c07-trivia-sat "base" "trivia")`: the trivia text at every token boundary AT ONCE (except where the grammar
    /// itself parses differently).  If that changes the result, every boundary is tried alone: the ones that fail alone
    /// are reported, and the saturation without them must then be equal.
    fn answer_trivia_sat(&self, text: &str, tr: &str) -> Sexp {
        let (base, bs) = match self.trivia_base(text) {
            Ok(x) => x,
            Err(a) => return a,
        };
        let classes: std::collections::BTreeSet<String> = bs.iter().map(|b| b.class()).collect();
        let usable: Vec<&trivia::Boundary> = bs.iter().filter(|b| trivia::grammar_exception(b, tr).is_none()).collect();
        let saturate = |skip: &std::collections::BTreeSet<usize>| {
            let mut s = text.to_owned();
            for b in usable.iter().rev() {
                if !skip.contains(&b.pos) {
                    s = insert_trivia(&s, b.pos, tr);
                }
            }
            s
        };
        let none = std::collections::BTreeSet::new();
        let all = saturate(&none);
        let Err(first) = base.judge_text(&all) else {
            return node(
                "ok",
                vec![
                    node("positions", vec![num(bs.len())]),
                    node("classes", vec![num(classes.len())]),
                    node("insertions", vec![num(usable.len())]),
                    node("skipped-grammar-exceptions", vec![num(bs.len() - usable.len())]),
                    node("bytes", vec![num(all.len())]),
                ],
            );
        };
        // localise
        let mut tally = TriviaTally::default();
        let mut bad = std::collections::BTreeSet::new();
        for b in &usable {
            let before = tally.n_failures;
            tally.record(&base, b, tr);
            if tally.n_failures > before {
                bad.insert(b.pos);
            }
        }
        // … and the two boundaries of one gap between two tokens together (two comments in a row)
        for w in usable.windows(2) {
            let (a, b) = (w[0], w[1]);
            if bad.contains(&a.pos) || bad.contains(&b.pos) || !text[a.pos..b.pos].trim().is_empty() {
                continue;
            }
            let both = insert_trivia(&insert_trivia(text, b.pos, tr), a.pos, tr);
            if let Err(what) = base.judge_text(&both) {
                tally.n_failures += 1;
                tally.failures.push(node("f", vec![st(format!("{} + {}", a.class(), b.class())), num(a.pos), st(line_col(text, a.pos)), st(tr), st(what)]));
                tally.first_mutated.get_or_insert(both);
                bad.insert(b.pos);
            }
        }
        let _ = first;
        let rest = saturate(&bad);
        if let Err(d) = base.judge_text(&rest) {
            return node(
                "fail",
                vec![
                    st("trivia changes the result in combination (beyond the positions that fail alone)"),
                    st(d),
                    node("mutated-text", vec![st(excerpt(&rest))]),
                ],
            );
        }
        tally.answer(bs.len(), classes.len())
    }
}

fn panic_text(e: Box<dyn std::any::Any + Send>) -> String {
    if let Some(s) = e.downcast_ref::<&str>() {
        (*s).to_owned()
    } else if let Some(s) = e.downcast_ref::<String>() {
        s.clone()
    } else {
        "<non-string panic>".to_owned()
    }
}

/// Depth of the concrete syntax tree (iterative walk; run on a thread with a large stack so that nothing in the
/// parser can exhaust it).  None for texts > 256 KiB.
fn cst_depth(src: &str) -> Option<usize> {
    if src.len() > 256 * 1024 {
        return None;
    }
    let text = src.to_owned();
    std::thread::Builder::new()
        .stack_size(512 * 1024 * 1024)
        .spawn(move || {
            let doc = UiDocument::parse(text, "MyType", None);
            let mut cursor = doc.root_node().walk();
            let (mut depth, mut max) = (1usize, 1usize);
            loop {
                if cursor.goto_first_child() {
                    depth += 1;
                    max = max.max(depth);
                    continue;
                }
                loop {
                    if cursor.goto_next_sibling() {
                        break;
                    }
                    if !cursor.goto_parent() {
                        return max;
                    }
                    depth -= 1;
                }
            }
        })
        .ok()?
        .join()
        .ok()
}

/// Where the source file lives relative to the working directory of the CLI run (the report prints the path of the
/// document relative to the working directory: src/reporting.rs make_cwd_relative_path).
#[derive(Clone, Copy, PartialEq)]
enum CliLayout {
    /// `Main.qml` in the working directory
    Flat,
    /// `sub/é dir/Main.qml`, given as that relative path
    Sub,
    /// `<tmp>/src/Main.qml`, given as an absolute path, working directory `<tmp>/cwd/deep` (→ `../../src/Main.qml`)
    Up,
}

fn run_cli(src: &str, reject: bool) -> Sexp {
    run_cli_in(src, reject, CliLayout::Flat)
}

fn run_cli_in(src: &str, reject: bool, layout: CliLayout) -> Sexp {
    run_cli_job(src, reject, layout, &CliJob { main_name: "Main.qml".to_owned(), extra_files: vec![], foreign: false })
}

/// What the CLI run is given beyond the text: the file name of the document (the CLI derives the type name, the `.ui` name
/// and the header name from it), further files written next to it (QML components), and whether the metatypes of
/// unicode_ids::foreign_classes are passed with a second `--foreign-types`.
struct CliJob {
    main_name: String,
    extra_files: Vec<(String, String)>,
    foreign: bool,
}

/// `Name.qml` → `Name` (what camino's file_stem gives for the names used here)
fn qml_stem(file_name: &str) -> &str {
    match file_name.char_indices().rev().find(|(_, c)| *c == '.') {
        Some((i, _)) if i > 0 => &file_name[..i],
        _ => file_name,
    }
}

/// Is there a file in `dir` whose name is `expected` up to (Unicode) letter case?  (FileNameRules lower-cases ASCII letters
/// only; the oracle does not depend on which letters a lower-casing touches.)
fn has_file_ignoring_case(dir: &std::path::Path, expected: &str) -> bool {
    let want = expected.to_lowercase();
    std::fs::read_dir(dir).map(|d| d.flatten().any(|e| e.file_name().to_string_lossy().to_lowercase() == want)).unwrap_or(false)
}

fn run_cli_job(src: &str, reject: bool, layout: CliLayout, job: &CliJob) -> Sexp {
    let bin = env::cli_binary();
    let main_name = job.main_name.as_str();
    if main_name.is_empty() || main_name.contains('/') || main_name.contains('\0') || main_name.len() > 250 {
        return node("bad-request", vec![st("file name")]);
    }
    let dir = match tempfile::Builder::new().prefix("qv-c07-").tempdir_in(std::env::temp_dir()) {
        Ok(d) => d,
        Err(e) => return node("fail", vec![st("tempdir"), st(e.to_string())]),
    };
    let (src_dir, cwd, arg) = match layout {
        // `./` in front: a file name may start with `-`
        CliLayout::Flat => (dir.path().to_owned(), dir.path().to_owned(), if main_name == "Main.qml" { main_name.to_owned() } else { format!("./{main_name}") }),
        CliLayout::Sub => (dir.path().join("sub/é dir"), dir.path().to_owned(), format!("sub/é dir/{main_name}")),
        CliLayout::Up => (dir.path().join("src"), dir.path().join("cwd/deep"), dir.path().join("src").join(main_name).to_string_lossy().into_owned()),
    };
    if let Err(e) = std::fs::create_dir_all(&src_dir).and_then(|_| std::fs::create_dir_all(&cwd)) {
        return node("fail", vec![st("mkdir"), st(e.to_string())]);
    }
    for (name, text) in &job.extra_files {
        if name.is_empty() || name.contains('/') || name.contains('\0') || name == main_name {
            return node("bad-request", vec![st("extra file name")]);
        }
        if let Err(e) = std::fs::write(src_dir.join(name), text) {
            return node("fail", vec![st("write"), st(e.to_string())]);
        }
    }
    let file = src_dir.join(main_name);
    if let Err(e) = std::fs::write(&file, src) {
        return node("fail", vec![st("write"), st(e.to_string())]);
    }
    let foreign_path = dir.path().join("qv-foreign-metatypes.json");
    if job.foreign {
        if let Err(e) = std::fs::write(&foreign_path, unicode_ids::foreign_metatypes_json()) {
            return node("fail", vec![st("write"), st(e.to_string())]);
        }
    }
    let mut cmd = std::process::Command::new(&bin);
    cmd.current_dir(&cwd)
        .env("NO_COLOR", "")
        .env_remove("RUST_BACKTRACE")
        .arg("generate-ui")
        .arg("--foreign-types")
        .arg(format!("{}/contrib/metatypes", env::REPO));
    if job.foreign {
        cmd.arg("--foreign-types").arg(&foreign_path);
    }
    if reject {
        cmd.arg("--no-dynamic-binding");
    }
    // stderr goes to a file: the report of a document with many diagnostics on one long line is megabytes of
    // unbuffered small writes, which through a pipe would dominate the run time
    let err_path = dir.path().join("stderr.txt");
    let err_file = match std::fs::File::create(&err_path) {
        Ok(f) => f,
        Err(e) => return node("fail", vec![st("stderr-file"), st(e.to_string())]),
    };
    cmd.arg(&arg).stdin(std::process::Stdio::null()).stdout(std::process::Stdio::null()).stderr(std::process::Stdio::from(err_file));
    let mut child = match cmd.spawn() {
        Ok(c) => c,
        Err(e) => return node("fail", vec![st("spawn"), st(e.to_string())]),
    };
    let t0 = Instant::now();
    let status = loop {
        match child.try_wait() {
            Ok(Some(s)) => break Some(s),
            Ok(None) => {
                if t0.elapsed() > CLI_TIMEOUT {
                    let _ = child.kill();
                    let _ = child.wait();
                    break None;
                }
                std::thread::sleep(Duration::from_millis(5));
            }
            Err(e) => return node("fail", vec![st("wait"), st(e.to_string())]),
        }
    };
    let stderr = std::fs::read(&err_path).map(|b| String::from_utf8_lossy(&b).into_owned()).unwrap_or_default();
    let stem = qml_stem(main_name);
    let wrote_ui = has_file_ignoring_case(&src_dir, &format!("{stem}.ui"));
    let wrote_header = has_file_ignoring_case(&src_dir, &format!("uisupport_{stem}.h"));
    let Some(status) = status else {
        // where was the time spent?  Run the tree-sitter parse alone on a helper thread with the same budget
        // (the thread is abandoned if it does not finish: it cannot be interrupted)
        let (tx, rx) = std::sync::mpsc::channel();
        let text = src.to_owned();
        std::thread::Builder::new()
            .stack_size(64 * 1024 * 1024)
            .spawn(move || {
                let _ = UiDocument::parse(text, "Main", None);
                let _ = tx.send(());
            })
            .ok();
        let phase = if rx.recv_timeout(CLI_TIMEOUT).is_ok() { "qmluic" } else { "tree-sitter-parse" };
        return node("fail", vec![st("cli-timeout"), node("seconds", vec![num(CLI_TIMEOUT.as_secs())]), node("phase", vec![st(phase)])]);
    };
    match status.code() {
        Some(c @ (0 | 1)) => {
            if (c == 0) != wrote_ui {
                return node("fail", vec![st("cli-exit-vs-output"), node("exit", vec![num(c)]), node("wrote-ui", vec![atom(wrote_ui.to_string())])]);
            }
            // the support header is written with the form, and only when dynamic bindings are generated
            if wrote_header != (c == 0 && !reject) {
                return node("fail", vec![st("cli-exit-vs-header"), node("exit", vec![num(c)]), node("wrote-header", vec![atom(wrote_header.to_string())])]);
            }
            if c == 1 && !stderr.contains("error") {
                return node("fail", vec![st("cli-exit-1-without-report"), st(stderr.chars().take(300).collect::<String>())]);
            }
            // the report names the document relative to the working directory
            let shown = match layout {
                CliLayout::Flat => main_name.to_owned(),
                CliLayout::Sub => format!("sub/é dir/{main_name}"),
                CliLayout::Up => format!("../../src/{main_name}"),
            };
            if c == 1 && (layout != CliLayout::Flat || main_name != "Main.qml") && !stderr.contains(&shown) {
                return node("fail", vec![st("cli-report-does-not-name-the-document"), st(shown), st(stderr.chars().take(300).collect::<String>())]);
            }
            node("ok", vec![node("exit", vec![num(c)]), node("wrote-ui", vec![atom(wrote_ui.to_string())])])
        }
        Some(c) => {
            let msg = stderr.lines().find(|l| l.contains("panicked at")).map(|_| {
                // the line after "panicked at" holds the message
                let mut it = stderr.lines().skip_while(|l| !l.contains("panicked at"));
                it.next();
                it.next().unwrap_or("").trim().to_owned()
            });
            node("fail", vec![st("cli-exit-status"), node("exit", vec![num(c)]), node("panic", vec![st(msg.unwrap_or_default())])])
        }
        None => {
            use std::os::unix::process::ExitStatusExt;
            let sig = status.signal().unwrap_or(0);
            let so = stderr.contains("has overflowed its stack");
            let depth = cst_depth(src).map(|d| d.to_string()).unwrap_or_else(|| "unknown".into());
            node(
                "fail",
                vec![st("cli-abort"), node("signal", vec![num(sig)]), node("stack-overflow", vec![atom(so.to_string())]), node("cst-depth", vec![atom(depth)])],
            )
        }
    }
}

// ---------------------------------------------------------------------------------------------- component sets

/// `(files (f "dir" "Stem" "text")…) (sources (s "dir/Stem.qml" EXPECT)…)`
struct SetRequest {
    files: Vec<(String, String, String)>,
    sources: Vec<(String, String)>,
}

fn parse_set_request(args: &[Sexp]) -> Option<SetRequest> {
    let (ft, fs) = args.first()?.as_node()?;
    let (st_, ss) = args.get(1)?.as_node()?;
    if ft != "files" || st_ != "sources" {
        return None;
    }
    let ok_dir = |d: &str| d.split('/').all(|c| !c.is_empty() && c.chars().all(|x| x.is_ascii_alphanumeric() || x == '_' || x == '-')) || d.is_empty();
    let mut files = vec![];
    for f in fs {
        let (t, a) = f.as_node()?;
        let (dir, stem, text) = (a.first()?.as_str()?, a.get(1)?.as_str()?, a.get(2)?.as_str()?);
        if t != "f" || !ok_dir(dir) || stem.is_empty() || stem.contains('/') || stem.contains('\0') || stem.len() > 200 {
            return None;
        }
        files.push((dir.to_owned(), stem.to_owned(), text.to_owned()));
    }
    let mut sources = vec![];
    for x in ss {
        let (t, a) = x.as_node()?;
        let (path, expect) = (a.first()?.as_str()?, a.get(1)?.as_atom()?);
        let known = files.iter().any(|(d, n, _)| path == if d.is_empty() { format!("{n}.qml") } else { format!("{d}/{n}.qml") });
        if t != "s" || !known || !matches!(expect, "reject" | "accept" | "any") {
            return None;
        }
        sources.push((path.to_owned(), expect.to_owned()));
    }
    Some(SetRequest { files, sources })
}

/// Writes the files below a fresh directory `<tmp>/qv-c07-set-…/o/r` (two levels of our own above the root of the set, so
/// that `import "../lib"` never reaches anything of the machine); returns the guard and the canonical root.
fn materialise_set(req: &SetRequest) -> Result<(tempfile::TempDir, camino::Utf8PathBuf), Sexp> {
    let dir = tempfile::Builder::new().prefix("qv-c07-set-").tempdir_in(std::env::temp_dir()).map_err(|e| node("fail", vec![st("tempdir"), st(e.to_string())]))?;
    let root = dir.path().join("o").join("r");
    let io = |e: std::io::Error| node("fail", vec![st("write"), st(e.to_string())]);
    std::fs::create_dir_all(&root).map_err(io)?;
    let root = camino::Utf8PathBuf::from_path_buf(root.canonicalize().map_err(io)?).map_err(|_| node("fail", vec![st("non-UTF-8 temp dir")]))?;
    if root.starts_with("/repo") || root.starts_with("/verif") {
        return Err(node("fail", vec![st("temp dir inside the trees")]));
    }
    for (d, n, text) in &req.files {
        let dp = if d.is_empty() { root.clone() } else { root.join(d) };
        std::fs::create_dir_all(&dp).map_err(io)?;
        std::fs::write(dp.join(format!("{n}.qml")), text).map_err(io)?;
    }
    Ok((dir, root))
}

fn accepted(s: &ModeStats) -> bool {
    s.syntax_errors == 0 && s.built && s.errors == 0
}

impl C07 {
    fn fresh_type_map(&self) -> TypeMap {
        let mut type_map = TypeMap::with_primitive_types();
        let mut md = qmluic::typemap::ModuleData::with_builtins();
        md.extend(self.classes.clone());
        type_map.insert_module(qmluic::typemap::ModuleId::Named("qmluic.QtWidgets"), md);
        type_map
    }

    /// `(c07-set (files …) (sources …))`: the set is materialised, ONE type map and document cache is filled by
    /// `qmldir::populate_directories` for all sources (like `generate-ui`), then every source is translated in all three
    /// modes under the totality oracle; the project diagnostics of populate_directories are held to the range / rendering
    /// clauses too.  EXPECT `reject`: accepted in no mode; `accept`: accepted in the generate and omit modes.
    fn answer_set(&self, args: &[Sexp]) -> Sexp {
        use qmluic::diagnostic::ProjectDiagnostics;
        use qmluic::qmldoc::UiDocumentsCache;
        let Some(req) = parse_set_request(args) else {
            return node("bad-request", vec![]);
        };
        let (_guard, root) = match materialise_set(&req) {
            Ok(x) => x,
            Err(a) => return a,
        };
        // the documents are small and valid: the time goes to qmluic's own passes
        crate::set_phase("qmluic");
        let mut tm = self.fresh_type_map();
        let mut cache = UiDocumentsCache::new();
        let mut pd = ProjectDiagnostics::new();
        let src_paths: Vec<camino::Utf8PathBuf> = req.sources.iter().map(|(p, _)| root.join(p)).collect();
        match catch_unwind(AssertUnwindSafe(|| qmluic::qmldir::populate_directories(&mut tm, &mut cache, &src_paths, &mut pd))) {
            Ok(Ok(())) => {}
            Ok(Err(e)) => return node("fail", vec![st("populate_directories failed"), st(e.to_string().replace(root.as_str(), ""))]),
            Err(e) => return node("panic", vec![st(panic_text(e)), node("phase", vec![atom("populate_directories")])]),
        }
        for (path, ds) in pd.iter() {
            let Some(doc) = cache.get(path) else {
                return node("fail", vec![st("project diagnostics for a document that is not in the cache"), st(path.as_str().replace(root.as_str(), ""))]);
            };
            for d in ds.iter() {
                let r = d.byte_range();
                if !range_ok(doc.source(), r.start, r.end) || d.labels().iter().any(|(l, _)| !range_ok(doc.source(), l.start, l.end)) {
                    return node("fail", vec![st(format!("project diagnostic range {}..{} outside the text or not on character boundaries: {}", r.start, r.end, d.message()))]);
                }
            }
            if let Err(e) = render_all(doc, reporting::make_reportable_diagnostics(ds)) {
                return node("fail", vec![st(e)]);
            }
        }
        let mut out = vec![node("project-diagnostics", vec![num(pd.iter().map(|(_, ds)| ds.len()).sum::<usize>())])];
        for ((rel, expect), path) in req.sources.iter().zip(&src_paths) {
            let Some(doc) = cache.get(path) else {
                return node("fail", vec![st("source not loaded"), st(rel.clone())]);
            };
            let mut per_mode = vec![];
            for mode in Mode::all() {
                match catch_unwind(AssertUnwindSafe(|| check_doc(&tm, doc, mode))) {
                    Ok(Ok(s)) => per_mode.push(s),
                    Ok(Err(what)) => return node("fail", vec![st(what), node("mode", vec![atom(mode.name())]), node("source", vec![st(rel.clone())])]),
                    Err(e) => return node("panic", vec![st(panic_text(e)), node("mode", vec![atom(mode.name())]), node("source", vec![st(rel.clone())])]),
                }
            }
            let acc: Vec<bool> = per_mode.iter().map(accepted).collect();
            if expect == "reject" && acc.iter().any(|a| *a) {
                return node("fail", vec![st("a document that instantiates a component whose chain of roots never reaches a Qt class is ACCEPTED"), node("source", vec![st(rel.clone())])]);
            }
            if expect == "accept" && !(acc[0] && acc[2]) {
                return node(
                    "fail",
                    vec![st("a document of the set that is valid by construction is refused"), node("source", vec![st(rel.clone())]), st(per_mode[0].messages.join(" | "))],
                );
            }
            out.push(node("s", vec![st(rel.clone()), node("accepted", acc.iter().map(|a| atom(if *a { "y" } else { "n" })).collect()), node("errors", per_mode.iter().map(|s| num(s.errors)).collect())]));
        }
        node("ok", out)
    }
}

/// `(c07-cli-set generate|reject (files …) (sources …))`: the real CLI in the root of the materialised set with all sources
/// on one command line: exit status 0 or 1 within the time limit; status 0 iff every source's `.ui` was written; status 1
/// only with a report; a `reject` source is never written, an `accept` source is written (generate only) whatever happens
/// to the other sources.
fn run_cli_set(reject: bool, req: &SetRequest) -> Sexp {
    let bin = env::cli_binary();
    let (guard, root) = match materialise_set(req) {
        Ok(x) => x,
        Err(a) => return a,
    };
    let mut cmd = std::process::Command::new(&bin);
    cmd.current_dir(root.as_std_path()).env("NO_COLOR", "").env_remove("RUST_BACKTRACE").arg("generate-ui").arg("--foreign-types").arg(format!("{}/contrib/metatypes", env::REPO));
    if reject {
        cmd.arg("--no-dynamic-binding");
    }
    let err_path = guard.path().join("stderr.txt");
    let err_file = match std::fs::File::create(&err_path) {
        Ok(f) => f,
        Err(e) => return node("fail", vec![st("stderr-file"), st(e.to_string())]),
    };
    for (p, _) in &req.sources {
        cmd.arg(format!("./{p}"));
    }
    cmd.stdin(std::process::Stdio::null()).stdout(std::process::Stdio::null()).stderr(std::process::Stdio::from(err_file));
    let mut child = match cmd.spawn() {
        Ok(c) => c,
        Err(e) => return node("fail", vec![st("spawn"), st(e.to_string())]),
    };
    let t0 = Instant::now();
    let status = loop {
        match child.try_wait() {
            Ok(Some(s)) => break Some(s),
            Ok(None) => {
                if t0.elapsed() > CLI_TIMEOUT {
                    let _ = child.kill();
                    let _ = child.wait();
                    break None;
                }
                std::thread::sleep(Duration::from_millis(5));
            }
            Err(e) => return node("fail", vec![st("wait"), st(e.to_string())]),
        }
    };
    let stderr = std::fs::read(&err_path).map(|b| String::from_utf8_lossy(&b).into_owned()).unwrap_or_default();
    let Some(status) = status else {
        // the parse of every file alone, with the same budget, on a helper thread
        let (tx, rx) = std::sync::mpsc::channel();
        let texts: Vec<String> = req.files.iter().map(|(_, _, t)| t.clone()).collect();
        std::thread::Builder::new()
            .stack_size(64 * 1024 * 1024)
            .spawn(move || {
                for t in texts {
                    let _ = UiDocument::parse(t, "Main", None);
                }
                let _ = tx.send(());
            })
            .ok();
        let phase = if rx.recv_timeout(CLI_TIMEOUT).is_ok() { "qmluic" } else { "tree-sitter-parse" };
        return node("fail", vec![st("cli-timeout"), node("seconds", vec![num(CLI_TIMEOUT.as_secs())]), node("phase", vec![st(phase)])]);
    };
    let written: Vec<bool> = req
        .sources
        .iter()
        .map(|(p, _)| {
            let path = root.join(p);
            let stem = qml_stem(path.file_name().unwrap_or(""));
            has_file_ignoring_case(path.parent().map(|d| d.as_std_path()).unwrap_or(root.as_std_path()), &format!("{stem}.ui"))
        })
        .collect();
    let w = || node("written", written.iter().map(|x| atom(if *x { "y" } else { "n" })).collect());
    match status.code() {
        Some(c @ (0 | 1)) => {
            if (c == 0) != written.iter().all(|x| *x) {
                return node("fail", vec![st("cli-exit-vs-output"), node("exit", vec![num(c)]), w()]);
            }
            if c == 1 && !stderr.contains("error") {
                return node("fail", vec![st("cli-exit-1-without-report"), st(stderr.chars().take(300).collect::<String>())]);
            }
            for ((p, expect), wr) in req.sources.iter().zip(&written) {
                if expect == "reject" && *wr {
                    return node("fail", vec![st("a document that instantiates a component whose chain of roots never reaches a Qt class is ACCEPTED"), node("source", vec![st(p.clone())])]);
                }
                if expect == "accept" && !reject && !*wr {
                    return node("fail", vec![st("a document of the set that is valid by construction is refused"), node("source", vec![st(p.clone())]), st(stderr.chars().take(400).collect::<String>())]);
                }
            }
            node("ok", vec![node("exit", vec![num(c)]), w()])
        }
        Some(c) => {
            let msg = stderr.lines().skip_while(|l| !l.contains("panicked at")).nth(1).unwrap_or("").trim().to_owned();
            node("fail", vec![st("cli-exit-status"), node("exit", vec![num(c)]), node("panic", vec![st(msg)])])
        }
        None => {
            use std::os::unix::process::ExitStatusExt;
            node("fail", vec![st("cli-abort"), node("signal", vec![num(status.signal().unwrap_or(0))]), node("stack-overflow", vec![atom(stderr.contains("has overflowed its stack").to_string())])])
        }
    }
}

/// Cases of the family `set` (c07/component_sets.rs); the second list goes to the very end of the run (cases that cost a
/// worker if the code under test hangs).
fn set_cases(seed: u64) -> (Vec<Case>, Vec<Case>) {
    use component_sets as cs;
    let sets = cs::sets(seed);
    let files_sexp = |s: &cs::ComponentSet| node("files", s.files.iter().map(|f| node("f", vec![st(f.dir), st(f.stem.clone()), st(f.text.clone())])).collect());
    let sources_sexp = |fs: &[&cs::SetFile]| node("sources", fs.iter().map(|f| node("s", vec![st(cs::ComponentSet::path_of(f)), atom(f.expect)])).collect());
    let mut cases = vec![];
    let per_set = cs::USAGES.len() * cs::FEATURES.len() + 1;
    for (k, s) in sets.iter().enumerate() {
        let all: Vec<&cs::SetFile> = s.files.iter().collect();
        let cli_labels = |what: &str| {
            let mut l = s.labels();
            l.extend(["cli".to_owned(), "cli:set".to_owned(), format!("set:run:{what}")]);
            l
        };
        // the real CLI: all files of the set on one command line …
        cases.push(Case { kind: "oracle", labels: cli_labels("cli-all"), request: node("c07-cli-set", vec![atom("generate"), files_sexp(s), sources_sexp(&all)]) });
        if k % 3 == (seed % 3) as usize {
            cases.push(Case { kind: "oracle", labels: cli_labels("cli-all-reject"), request: node("c07-cli-set", vec![atom("reject"), files_sexp(s), sources_sexp(&all)]) });
        }
        // … and one at a time (per shape: the extra set and one more chosen by the seed)
        if k % per_set == per_set - 1 || k % per_set == (seed as usize / 3) % (per_set - 1) {
            for f in &all {
                cases.push(Case { kind: "oracle", labels: cli_labels("cli-one"), request: node("c07-cli-set", vec![atom("generate"), files_sexp(s), sources_sexp(&[*f])]) });
            }
        }
        // in-process: the sources whose translation does not walk a cyclic chain of super classes (a hang there would
        // cost a worker for the rest of the run)
        let safe: Vec<&cs::SetFile> = s.files.iter().filter(|f| !f.touches_cycle).collect();
        if !safe.is_empty() {
            let mut l = s.labels();
            l.push("set:run:in-process".to_owned());
            cases.push(Case { kind: "oracle", labels: l, request: node("c07-set", vec![files_sexp(s), sources_sexp(&safe)]) });
        }
    }
    // in-process, the sets WITH a reachable cycle: at most 8 per run (distinct shapes first), chosen by the seed
    let mut rng = Rng::fork(seed, "c07-set-slice", 0);
    let mut cyclic: Vec<usize> = (0..sets.len()).filter(|&k| sets[k].files.iter().any(|f| f.touches_cycle)).collect();
    rng.shuffle(&mut cyclic);
    let mut taken: Vec<usize> = vec![];
    for &k in &cyclic {
        if taken.len() < 8 && !taken.iter().any(|&t| sets[t].shape == sets[k].shape) {
            taken.push(k);
        }
    }
    let mut last = vec![];
    for k in taken {
        let s = &sets[k];
        let all: Vec<&cs::SetFile> = s.files.iter().collect();
        let mut l = s.labels();
        l.push("set:run:in-process-cyclic".to_owned());
        last.push(Case { kind: "oracle", labels: l, request: node("c07-set", vec![files_sexp(s), sources_sexp(&all)]) });
    }
    (cases, last)
}

// ---------------------------------------------------------------------------------------------- identifiers (uid)

impl C07 {
    /// `(c07-twin "text" "TypeName" dir|nodir "twin text" "TwinTypeName" (n "name" "twin name")…)`: the totality oracle on
    /// the document in all three modes, and the TWIN ORACLE (part of the tie): the twin is the same document with the listed
    /// names replaced consistently by ASCII names of the same upper/lower-case class; identifiers are opaque to the
    /// translator, so in every mode both have syntax errors or neither has, both are built or neither is, and the error
    /// and warning diagnostics are the same (kind + message multiset, the names mapped back).
    fn answer_twin(&self, args: &[Sexp]) -> Sexp {
        let (Some(text), Some(type_name), Some(dir), Some(twin_text), Some(twin_type)) =
            (args.first().and_then(|a| a.as_str()), args.get(1).and_then(|a| a.as_str()), args.get(2).and_then(|a| a.as_atom()), args.get(3).and_then(|a| a.as_str()), args.get(4).and_then(|a| a.as_str()))
        else {
            return node("bad-request", vec![]);
        };
        let mut pairs: Vec<(&str, &str)> = vec![];
        for a in &args[5..] {
            match a.as_node() {
                Some(("n", [r, t])) => pairs.push((r.as_str().unwrap_or(""), t.as_str().unwrap_or(""))),
                _ => return node("bad-request", vec![]),
            }
        }
        // longest twin name first: one twin name may be the tail of another
        pairs.sort_by_key(|(_, t)| std::cmp::Reverse(t.len()));
        pairs.retain(|(r, t)| r != t && !t.is_empty());
        // `dir` / `nodir` [+ `-acceptance`: the messages are not compared (unicode_ids::twin_messages_differ_by_design)]
        let in_virtual_dir = dir.starts_with("dir");
        let acceptance_only = dir.ends_with("-acceptance");
        let real = match run_modes_as(&self.tm, text, &DocName { type_name: type_name.to_owned(), in_virtual_dir }, &Mode::all()) {
            Ok(m) => m,
            Err((what, mode, true)) => return node("panic", vec![st(what), node("mode", vec![atom(mode)])]),
            Err((what, mode, false)) => return node("fail", vec![st(what), node("mode", vec![atom(mode)])]),
        };
        let twin = match run_modes_as(&self.tm, twin_text, &DocName { type_name: twin_type.to_owned(), in_virtual_dir }, &Mode::all()) {
            Ok(m) => m,
            Err((what, mode, true)) => return node("panic", vec![st(what), node("mode", vec![atom(mode)]), atom("twin-document")]),
            Err((what, mode, false)) => return node("fail", vec![st(what), node("mode", vec![atom(mode)]), atom("twin-document")]),
        };
        let map_back = |m: &str| {
            let mut s = m.to_owned();
            for (r, t) in &pairs {
                s = s.replace(t, r);
            }
            s
        };
        for ((r, t), mode) in real.iter().zip(&twin).zip(Mode::all()) {
            let mut what = vec![];
            if (r.syntax_errors > 0) != (t.syntax_errors > 0) || r.built != t.built || r.errors != t.errors || r.warnings != t.warnings {
                what.push(format!("document={} twin={}", summary(r), summary(t)));
            } else if !acceptance_only {
                let mut rest: Vec<String> = t.messages.iter().map(|m| map_back(m)).collect();
                for x in &r.messages {
                    match rest.iter().position(|y| y == x) {
                        Some(i) => {
                            rest.remove(i);
                        }
                        None => what.push(format!("-{x:?}")),
                    }
                }
                for x in rest {
                    what.push(format!("+{x:?}"));
                }
            }
            if !what.is_empty() {
                return node("fail", vec![st("the ASCII twin of the document behaves differently"), node("mode", vec![atom(mode.name())]), st(what.join(" "))]);
            }
        }
        let g = &real[0];
        node(
            "ok",
            vec![
                node("syntax-errors", vec![num(g.syntax_errors)]),
                node("built", real.iter().map(|s| atom(if s.built { "y" } else { "n" })).collect()),
                node("errors", real.iter().map(|s| num(s.errors)).collect()),
                node("warnings", vec![num(g.warnings)]),
                atom("twin-equal"),
            ],
        )
    }
}

/// Cases of the family `uid` (identifiers with non-ASCII letters; see c07/unicode_ids.rs).  `pool`: the documents of the
/// mutation pool (origin, text) for the identifier-renaming mutation.
fn uid_cases(seed: u64, scale: usize, pool: &[(&str, &str)]) -> Vec<Case> {
    use unicode_ids as u;
    let mut cases: Vec<Case> = vec![];
    let uppers: Vec<&u::Ident> = u::POOL.iter().filter(|i| i.upper()).collect();
    let core: Vec<&u::Ident> = u::POOL.iter().filter(|i| i.core).collect();
    let shift = (seed % 1_000_003) as usize;
    let twin_req = |r: &u::Built, t: &u::Built, pairs: &[(String, String)]| {
        let mut v = vec![st(r.text.clone()), st(r.type_name.clone()), atom(if r.comps.is_empty() { "nodir" } else { "dir" }), st(t.text.clone()), st(t.type_name.clone())];
        for (a, b) in pairs {
            if a != b && !v[5..].iter().any(|x| x.as_node().map(|(_, xs)| xs[0].as_str() == Some(a.as_str())).unwrap_or(false)) {
                v.push(node("n", vec![st(a.clone()), st(b.clone())]));
            }
        }
        node("c07-twin", v)
    };
    let cli_req = |how: &str, b: &u::Built| {
        let main = if b.type_name == "MyType" { "Main.qml".to_owned() } else { format!("{}.qml", b.type_name) };
        let mut v = vec![atom(how), st(b.text.clone()), st(main)];
        for c in &b.comps {
            v.push(node("file", vec![st(format!("{c}.qml")), st(u::COMPONENT_SOURCE)]));
        }
        node("c07-cli", v)
    };
    let lab = |grid: &str, more: &[String]| {
        let mut v = vec!["uid".to_owned(), format!("uid:grid:{grid}")];
        v.extend(more.iter().cloned());
        v
    };
    // documents fed to the mutation machinery afterwards: (text, type name)
    let mut sample: Vec<(String, String)> = vec![];
    let mut n_grid = 0usize;

    // OBJECT documents: the full grid in-process (with the twin), every (name, feature) / (source, feature) / (source, name)
    // pair of the reduced pool through the CLI
    let comp_for = |k: usize, ident: &u::Ident| {
        let c = uppers[k % uppers.len()];
        if c.text == ident.text { uppers[(k + 1) % uppers.len()] } else { c }
    };
    for (si, source) in u::SOURCES.iter().enumerate() {
        for (fi, feature) in u::FEATURES.iter().enumerate() {
            for (ii, ident) in u::POOL.iter().enumerate() {
                let (rn, tn) = u::names_of(ident, comp_for(si + fi + ii + shift, ident));
                let (Some(r), Some(t)) = (u::object_doc(source, feature, &rn), u::object_doc(source, feature, &tn)) else {
                    continue;
                };
                let labels = lab("object", &[format!("uid:pos:{source}"), format!("uid:feat:{feature}"), format!("uid:first:{}", ident.first)]);
                let pairs = [(rn.n.clone(), tn.n.clone()), (rn.sib.clone(), tn.sib.clone()), (rn.comp.clone(), tn.comp.clone())];
                cases.push(Case { kind: "oracle", labels, request: twin_req(&r, &t, &pairs) });
                n_grid += 1;
                if n_grid % 13 == shift % 13 {
                    sample.push((r.text.clone(), r.type_name.clone()));
                }
            }
        }
    }
    for (fi, feature) in u::FEATURES.iter().enumerate() {
        for (ci, ident) in core.iter().filter(|i| !i.text.is_ascii()).enumerate() {
            // the first source, from a rotating start, for which the combination exists
            for d in 0..u::SOURCES.len() {
                let source = u::SOURCES[(ci + fi + shift + d) % u::SOURCES.len()];
                let (rn, _) = u::names_of(ident, comp_for(ci + fi + shift, ident));
                if let Some(r) = u::object_doc(source, feature, &rn) {
                    let mut labels = lab("object", &[format!("uid:pos:{source}"), format!("uid:feat:{feature}"), format!("uid:first:{}", ident.first)]);
                    labels.push("cli".into());
                    labels.push("cli:uid".into());
                    let how = if (ci + fi + shift) % 5 == 0 { "reject" } else { "generate" };
                    cases.push(Case { kind: "oracle", labels, request: cli_req(how, &r) });
                    break;
                }
            }
        }
    }

    // SYNTAX documents: every template × reduced pool + one more name (seed), in-process with the twin; every template
    // once through the CLI
    for (ti, t) in u::SYNTAX.iter().enumerate() {
        let mut rng = Rng::fork(seed, "c07-uid-syntax", ti as u64);
        let mut names: Vec<&u::Ident> = core.clone();
        let others: Vec<&u::Ident> = u::POOL.iter().filter(|i| !i.core).collect();
        names.push(*rng.pick(&others));
        let cli_pick = rng.below(names.len());
        for (k, ident) in names.iter().enumerate() {
            let labels = lab("syntax", &[format!("uid:pos:{}", t.0), format!("uid:first:{}", ident.first)]);
            let r = u::Built { text: u::syntax_doc(t, ident.text), type_name: "MyType".into(), comps: vec![] };
            let tw = u::Built { text: u::syntax_doc(t, ident.twin), type_name: "MyType".into(), comps: vec![] };
            let mut req = twin_req(&r, &tw, &[(ident.text.to_owned(), ident.twin.to_owned())]);
            if u::twin_messages_differ_by_design(t.0) {
                if let Sexp::List(v) = &mut req {
                    v[3] = atom("nodir-acceptance");
                }
            }
            cases.push(Case { kind: "oracle", labels: labels.clone(), request: req });
            if k == cli_pick {
                let mut l = labels;
                l.push("cli".into());
                l.push("cli:uid".into());
                cases.push(Case { kind: "oracle", labels: l, request: cli_req(if ti % 4 == 3 { "reject" } else { "generate" }, &r) });
                sample.push((r.text.clone(), r.type_name.clone()));
            }
        }
    }

    // FOREIGN documents: classes whose own names are non-ASCII; the object id from the lower-case half of the reduced pool
    let lower_core: Vec<&u::Ident> = core.iter().copied().filter(|i| !i.upper()).collect();
    for (ti, (pos, template)) in u::FOREIGN_TEMPLATES.iter().enumerate() {
        for (k, ident) in lower_core.iter().enumerate() {
            let root_is_foreign = (ti + k + shift) % 4 == 0;
            let labels = lab("foreign", &[format!("uid:pos:foreign-{pos}"), format!("uid:first:{}", ident.first)]);
            let r = u::Built { text: u::foreign_doc(template, &u::FOREIGN, ident.text, root_is_foreign), type_name: "MyType".into(), comps: vec![] };
            let tw = u::Built { text: u::foreign_doc(template, &u::FOREIGN_TWIN, ident.twin, root_is_foreign), type_name: "MyType".into(), comps: vec![] };
            let mut pairs = vec![(ident.text.to_owned(), ident.twin.to_owned())];
            pairs.extend(foreign_pairs());
            cases.push(Case { kind: "oracle", labels: labels.clone(), request: twin_req(&r, &tw, &pairs) });
            if k == (ti + shift) % lower_core.len() {
                let mut l = labels;
                l.push("cli".into());
                l.push("cli:uid".into());
                cases.push(Case { kind: "oracle", labels: l, request: cli_req(if ti % 5 == 4 { "reject" } else { "generate" }, &r) });
                sample.push((r.text.clone(), r.type_name.clone()));
            }
        }
    }

    // FILE-NAME documents: the type name (in-process) / the file name (CLI) from the pool and beyond
    let mut type_names: Vec<(String, String, String)> = u::POOL.iter().map(|i| (i.text.to_owned(), i.twin.to_owned(), i.first.to_owned())).collect();
    type_names.extend(u::ODD_TYPE_NAMES.iter().map(|(a, b, c)| ((*a).to_owned(), (*b).to_owned(), format!("odd-{c}"))));
    for (ni, (name, twin, class)) in type_names.iter().enumerate() {
        for (fi, feature) in u::FILE_FEATURES.iter().enumerate() {
            let plain = u::Names { n: "button".into(), sib: "button2".into(), comp: "Etiquette".into() };
            let mut r = u::object_doc("id-nested", feature, &plain).expect("file-name document");
            let mut t = r.clone();
            r.type_name = name.clone();
            t.type_name = twin.clone();
            let labels = lab("file-name", &["uid:pos:file-name".to_owned(), format!("uid:feat:{feature}"), format!("uid:first:{class}")]);
            cases.push(Case { kind: "oracle", labels: labels.clone(), request: twin_req(&r, &t, &[]) });
            if fi == (ni + shift) % u::FILE_FEATURES.len() {
                let mut l = labels;
                l.push("cli".into());
                l.push("cli:uid".into());
                cases.push(Case { kind: "oracle", labels: l.clone(), request: cli_req(if ni % 6 == 5 { "reject" } else { "generate" }, &r) });
                if ni % 7 == 3 {
                    // upper-case extension
                    let mut req = cli_req("generate", &r);
                    if let Sexp::List(v) = &mut req {
                        v[3] = st(format!("{name}.QML"));
                    }
                    cases.push(Case { kind: "oracle", labels: l, request: req });
                }
            }
        }
    }

    // … and the type name of the document used as an object type: a component that instantiates itself / two components
    // that instantiate each other (the CLI registers every .qml file of the directory as a component named after the file)
    for (k, (a, b)) in [("Étiquette", "Ébouton"), ("Foo", "Bar"), ("中", "𝒳label")].iter().enumerate() {
        let labels = |what: &str| {
            let mut l = lab("file-name", &["uid:pos:component-cycle".to_owned(), format!("uid:feat:{what}")]);
            l.push("cli".into());
            l.push("cli:uid".into());
            l
        };
        let how = if k == 1 { "reject" } else { "generate" };
        let own = |me: &str, other: &str, child: bool| {
            if child {
                format!("import qmluic.QtWidgets\nQDialog {{\n    QLineEdit {{ id: edit }}\n    {other} {{ id: inner; windowTitle: edit.text; onAccepted: {{}} }}\n}}\n")
            } else {
                format!("import qmluic.QtWidgets\n{other} {{\n    id: {}\n    QLineEdit {{ id: edit }}\n    windowTitle: edit.text\n    onAccepted: {{}}\n}}\n", if me == other { "root" } else { "top" })
            }
        };
        cases.push(Case { kind: "oracle", labels: labels("self-root"), request: node("c07-cli", vec![atom(how), st(own(a, a, false)), st(format!("{a}.qml"))]) });
        cases.push(Case { kind: "oracle", labels: labels("self-child"), request: node("c07-cli", vec![atom(how), st(own(a, a, true)), st(format!("{a}.qml"))]) });
        cases.push(Case {
            kind: "oracle",
            labels: labels("mutual-root"),
            request: node("c07-cli", vec![atom(how), st(own(a, b, false)), st(format!("{a}.qml")), node("file", vec![st(format!("{b}.qml")), st(own(b, a, false))])]),
        });
        cases.push(Case {
            kind: "oracle",
            labels: labels("mutual-child"),
            request: node("c07-cli", vec![atom(how), st(own(a, b, true)), st(format!("{a}.qml")), node("file", vec![st(format!("{b}.qml")), st(own(b, a, true))])]),
        });
    }

    // finding F90: names XML 1.0 cannot carry (see unicode_ids::f90_cases: only once the finding is listed)
    if u::f90_cases() {
        for (what, text, type_name, dir) in u::f90_documents() {
            let mut v = vec![st(text), st(type_name)];
            if dir {
                v.push(atom("dir"));
            }
            cases.push(Case { kind: "oracle", labels: lab("f90", &["uid:f90-not-xml-name".to_owned(), format!("uid:pos:f90-{what}")]), request: node("c07", v) });
        }
    }

    // MULTI documents: several subjects and syntax members in one document (random triples and more)
    for k in 0..300 * scale {
        let mut rng = Rng::fork(seed, "c07-uid-multi", k as u64);
        let (more, r, t, pairs) = u::multi_doc(&mut rng);
        let labels = lab("multi", &more);
        cases.push(Case { kind: "oracle", labels: labels.clone(), request: twin_req(&r, &t, &pairs) });
        if k < 24 * scale.min(10) {
            let mut l = labels;
            l.push("cli".into());
            l.push("cli:uid".into());
            cases.push(Case { kind: "oracle", labels: l, request: cli_req(if k % 6 == 5 { "reject" } else { "generate" }, &r) });
        }
        if k % 10 == 0 {
            sample.push((r.text.clone(), r.type_name.clone()));
        }
    }

    // … a sample of all of these through the mutation machinery (token-level mutations, utf8-dense, truncation) and with a
    // comment at every token boundary
    for k in 0..360 * scale {
        let mut rng = Rng::fork(seed, "c07-uid-mut", k as u64);
        let (text, type_name) = rng.pick(&sample).clone();
        let (label, mutated) = match k % 6 {
            5 => {
                let mut p = rng.below(text.len() + 1);
                while !text.is_char_boundary(p) {
                    p -= 1;
                }
                ("truncation", text[..p].to_owned())
            }
            4 => ("utf8-dense", densify(&mut rng, &text)),
            _ => mutate(&mut rng, &text),
        };
        if mutated.len() > 64 * 1024 {
            continue;
        }
        let labels = vec!["uid".to_owned(), "uid:grid:mutated".to_owned(), "mutation".to_owned(), format!("mut:{label}"), "of:uid".to_owned()];
        if k < 16 * scale.min(10) {
            let mut l = labels.clone();
            l.push("cli".into());
            l.push("cli:uid".into());
            cases.push(Case { kind: "oracle", labels: l, request: node("c07-cli", vec![atom("generate"), st(mutated.clone()), st("Étiquette.qml")]) });
        }
        cases.push(Case { kind: "oracle", labels, request: node("c07", vec![st(mutated), st(type_name)]) });
    }
    {
        let mut k = 0;
        for (i, (text, _)) in sample.iter().enumerate() {
            if k >= 40 * scale {
                break;
            }
            let doc = UiDocument::parse(text.as_str(), "MyType", None);
            if trivia::boundaries(&doc).is_some() {
                let mut rng = Rng::fork(seed, "c07-uid-trivia", i as u64);
                let tr = if k % 2 == 0 { *rng.pick(trivia::INLINE) } else { *rng.pick(trivia::WITH_NEWLINE) };
                cases.push(Case {
                    kind: "oracle",
                    labels: vec!["uid".to_owned(), "uid:grid:trivia".to_owned(), "trivia".to_owned(), "trivia:sat".to_owned(), "of:uid".to_owned()],
                    request: node("c07-trivia-sat", vec![st(text.clone()), st(tr)]),
                });
                k += 1;
            }
        }
    }

    // the identifier-renaming mutation on the documents of the pool (examples, test snippets, generated, stress): an object
    // id / any identifier / one occurrence gets a non-ASCII letter of 2, 3 or 4 bytes; half of them are mutated once more
    let examples: Vec<&(&str, &str)> = pool.iter().filter(|(o, _)| *o == "example").collect();
    for k in 0..600 * scale {
        let mut rng = Rng::fork(seed, "c07-uid-rename", k as u64);
        let (origin, base) = if k % 3 == 0 && !examples.is_empty() { **rng.pick(&examples) } else { pool[rng.below(pool.len())] };
        let Some((label, more, mut text)) = u::rename_identifier(&mut rng, base) else {
            continue;
        };
        // more than one identifier
        for _ in 0..rng.below(3) {
            if let Some((_, _, again)) = u::rename_identifier(&mut rng, &text) {
                text = again;
            }
        }
        if k % 2 == 1 {
            text = mutate(&mut rng, &text).1;
        }
        if text.len() > 64 * 1024 {
            continue;
        }
        let mut labels = vec!["uid".to_owned(), "uid:grid:renamed".to_owned(), "mutation".to_owned(), format!("mut:{label}"), format!("of:{origin}")];
        labels.extend(more);
        if k < 36 * scale.min(10) {
            let mut l = labels.clone();
            l.push("cli".into());
            l.push("cli:uid".into());
            cases.push(Case { kind: "oracle", labels: l, request: node("c07-cli", vec![atom(if k % 6 == 5 { "reject" } else { "generate" }), st(text.clone()), st(if k % 2 == 0 { "Main.qml" } else { "Étiquette.qml" })]) });
        }
        let type_name = if k % 4 == 3 { u::POOL[k % u::POOL.len()].text } else { "MyType" };
        cases.push(Case { kind: "oracle", labels, request: node("c07", vec![st(text), st(type_name)]) });
    }
    cases
}

/// (real, twin) of every name of the foreign classes, for mapping the twin's messages back
fn foreign_pairs() -> Vec<(String, String)> {
    let (f, t) = (&unicode_ids::FOREIGN, &unicode_ids::FOREIGN_TWIN);
    let mut v: Vec<(&str, &str)> = vec![
        (f.widget, t.widget),
        (f.int_prop, t.int_prop),
        (f.str_prop, t.str_prop),
        (f.bool_prop, t.bool_prop),
        (f.font_prop, t.font_prop),
        (f.upper_font_prop, t.upper_font_prop),
        (f.ascii_first_prop, t.ascii_first_prop),
        (f.enum_prop, t.enum_prop),
        (f.enum_name, t.enum_name),
        (f.signal, t.signal),
        (f.lower_signal, t.lower_signal),
        (f.slot, t.slot),
        (f.method_int, t.method_int),
        (f.method_str, t.method_str),
        (f.q_label, t.q_label),
        (f.k_button, t.k_button),
        (f.lower_widget, t.lower_widget),
        (f.q_cjk, t.q_cjk),
    ];
    for k in 0..3 {
        v.push((f.enum_values[k], t.enum_values[k]));
    }
    v.into_iter().map(|(a, b)| (a.to_owned(), b.to_owned())).collect()
}

impl Stream for C07 {
    fn generate(&self, seed: u64, thorough: bool) -> Vec<Case> {
        use crate::streams::c08::rich_document;
        let scale = if thorough { 75 } else { 1 };
        let mut cases: Vec<Case> = vec![];
        let mut push = |labels: Vec<String>, text: String| {
            cases.push(Case { kind: "oracle", labels, request: node("c07", vec![st(text)]) });
        };
        // (a0) the operand-type grid: every binary / logical / ternary construct over every PAIR of operand types (well- and
        // ill-typed alike, each operand a property read so that nothing is folded), bound to properties of several types and
        // used in a handler: whatever the verdict, no panic
        {
            let operands: [(&str, &str); 8] = [
                ("bool", "check.checked"), ("int", "spin.value"), ("double", "dspin.value"), ("string", "edit.text"),
                ("enum", "lbl.textFormat"), ("flags", "lbl.alignment"), ("pointer", "lbl.buddy"), ("list", "combo.model"),
            ];
            let ops = ["+", "-", "*", "/", "%", "<<", ">>", "&", "|", "^", "<", "<=", "==", "!=", "&&", "||"];
            let head = "import qmluic.QtWidgets\nQWidget {\n    QCheckBox { id: check }\n    QSpinBox { id: spin }\n    QDoubleSpinBox { id: dspin }\n    QLineEdit { id: edit }\n    QLabel { id: lbl }\n    QComboBox { id: combo }\n";
            for (ln, l) in &operands {
                for (rn, r) in &operands {
                    let mut body = String::from(head);
                    for (k, op) in ops.iter().enumerate() {
                        let target = ["enabled", "toolTip", "minimumWidth", "windowOpacity"][k % 4];
                        body.push_str(&format!("    QWidget {{ {target}: {l} {op} {r} }}\n"));
                    }
                    body.push_str(&format!("    QWidget {{ enabled: {l} ? {r} : {l} }}\n    QWidget {{ toolTip: check.checked ? {l} : {r} }}\n"));
                    body.push_str(&format!("    QPushButton {{ onClicked: {{ let v = {l}; if ({l} && {r}) {{ console.log({l} || {r}, !{r}, -{l}, ~{r}) }} }} }}\n}}\n"));
                    push(vec!["operand-grid".into(), format!("left:{ln}"), format!("right:{rn}")], body);
                }
            }
        }
        // (a) well-formed generated documents, clean and with planted errors
        let mut rich: Vec<String> = vec![];
        for k in 0..300 * scale {
            let mut rng = Rng::fork(seed, "c07-rich", k as u64);
            let with_errors = k % 3 == 2;
            let per = 2 + rng.below(8);
            let (root, _) = rich_document(&mut rng, per, with_errors);
            let text = root.to_qml();
            if rich.len() < 80 {
                rich.push(text.clone());
            }
            push(vec!["wellformed".into(), if with_errors { "planted-errors".into() } else { "clean".into() }], text);
        }
        // the base documents themselves
        for (origin, text) in &self.bases {
            push(vec!["base".into(), origin.split(':').next().unwrap().to_owned()], text.clone());
        }
        // (d) semantic stress + control-flow stress
        let mut stress: Vec<(String, String)> = semantic_stress().into_iter().map(|(n, t)| (n.to_owned(), t)).collect();
        stress.extend(control_flow_stress());
        for (name, text) in &stress {
            push(vec!["stress".into(), format!("stress:{name}")], text.clone());
        }
        // … integer folding at the boundaries (not part of the mutation / trivia pool: 1 800 near-identical documents)
        let int_boundary = int_boundary_stress();
        for (name, text) in &int_boundary {
            let mut it = name.split(':');
            push(vec!["stress".into(), "stress:int-boundary".into(), format!("int-boundary:{}", it.nth(1).unwrap_or(""))], text.clone());
        }
        // (b) token-level mutations of examples, test snippets, generated and stress documents
        let mut pool: Vec<(&str, &str)> = vec![];
        for (origin, text) in &self.bases {
            pool.push((if origin.starts_with("example") { "example" } else { "test" }, text));
        }
        for t in &rich {
            pool.push(("generated", t));
        }
        for (_, t) in &stress {
            pool.push(("stress", t));
        }
        let n_mut = 2300 * scale;
        for k in 0..n_mut {
            let mut rng = Rng::fork(seed, "c07-mut", k as u64);
            // examples are few but rich: give them a third of the budget
            let (origin, base) = if k % 3 == 0 {
                let ex: Vec<&(&str, &str)> = pool.iter().filter(|(o, _)| *o == "example").collect();
                if ex.is_empty() { pool[rng.below(pool.len())] } else { **rng.pick(&ex) }
            } else {
                pool[rng.below(pool.len())]
            };
            let (label, text) = mutate(&mut rng, base);
            if text.len() > 64 * 1024 {
                continue;
            }
            push(vec!["mutation".into(), format!("mut:{label}"), format!("of:{origin}")], text);
        }
        // truncation at every 7th byte (rounded down to a character boundary); quick: a sample per document
        let mut tr = 0;
        for (i, (origin, text)) in pool.iter().enumerate() {
            let mut rng = Rng::fork(seed, "c07-trunc", i as u64);
            let points: Vec<usize> = (0..=text.len() / 7).map(|k| k * 7).collect();
            let take = if thorough { points.len() } else if *origin == "example" { 24 } else { 2 };
            for _ in 0..take.min(points.len()) {
                let mut p = if thorough { points[tr % points.len()] } else { *rng.pick(&points) };
                while !text.is_char_boundary(p) {
                    p -= 1;
                }
                tr += 1;
                push(vec!["truncation".into(), format!("of:{origin}")], text[..p].to_owned());
            }
        }
        // (e) trivia: comments and blank space at EVERY token boundary of the valid documents of the pool
        //     each: every boundary of every valid stress document, one insertion without and one with a line terminator;
        //     single: per position class (parent:prev|next) a sample of boundaries over the whole pool (labelled by class);
        //     sat: every document with one trivia text at all boundaries at once
        {
            let mut valid: Vec<(&str, &str, Vec<trivia::Boundary>)> = vec![];
            for (origin, text) in &pool {
                if text.len() > 16 * 1024 || text.contains('\r') && !text.contains('\n') {
                    continue;
                }
                let doc = UiDocument::parse(*text, "MyType", None);
                if let Some(bs) = trivia::boundaries(&doc) {
                    valid.push((origin, text, bs));
                }
            }
            let mut by_class: std::collections::BTreeMap<String, Vec<(usize, usize)>> = Default::default();
            for (d, (origin, text, bs)) in valid.iter().enumerate() {
                if *origin == "stress" || (thorough && text.len() <= 4096) {
                    cases.push(Case {
                        kind: "oracle",
                        labels: vec!["trivia".into(), "trivia:each".into(), format!("of:{origin}")],
                        request: node("c07-trivia-each", vec![st(*text), num(seed % 1_000_000)]),
                    });
                }
                for (i, b) in bs.iter().enumerate() {
                    by_class.entry(b.class()).or_default().push((d, i));
                }
                let mut rng = Rng::fork(seed, "c07-trivia-sat", d as u64);
                let sat: Vec<&str> = if thorough {
                    trivia::INLINE.iter().chain(trivia::WITH_NEWLINE).copied().collect()
                } else {
                    vec![*rng.pick(trivia::INLINE), *rng.pick(trivia::WITH_NEWLINE)]
                };
                for tr in sat {
                    cases.push(Case {
                        kind: "oracle",
                        labels: vec!["trivia".into(), "trivia:sat".into(), format!("of:{origin}")],
                        request: node("c07-trivia-sat", vec![st(*text), st(tr)]),
                    });
                }
            }
            let per_class = std::env::var("QV_C07_TRIVIA_PER_CLASS").ok().and_then(|v| v.parse().ok()).unwrap_or(if thorough { 80 } else { 3 });
            for (k, (class, places)) in by_class.iter().enumerate() {
                let mut rng = Rng::fork(seed, "c07-trivia-single", k as u64);
                for _ in 0..per_class.min(places.len() * 2) {
                    let (d, i) = *rng.pick(places);
                    let (origin, text, bs) = &valid[d];
                    for tr in [*rng.pick(trivia::INLINE), *rng.pick(trivia::WITH_NEWLINE)] {
                        cases.push(Case {
                            kind: "oracle",
                            labels: vec!["trivia".into(), "trivia:single".into(), format!("pos:{}", bs[i].parent), format!("class:{class}"), format!("of:{origin}")],
                            request: node("c07-trivia", vec![st(*text), num(bs[i].pos), st(tr)]),
                        });
                    }
                }
            }
        }
        let mut push = |labels: Vec<String>, text: String| {
            cases.push(Case { kind: "oracle", labels, request: node("c07", vec![st(text)]) });
        };
        // bounded deep nesting, in-process (≤ 60 levels)
        for kind in ["sum", "objects", "parens", "array", "ternary", "unary", "member", "block", "if", "grouped", "dotted", "string-concat"] {
            for d in [1, 2, 7, 30, MAX_INPROC_DEPTH] {
                push(vec!["nesting".into(), format!("nest:{kind}")], nested(kind, d));
            }
        }
        // (c) token soup: bare, inside an object body, inside a binding, inside a callback
        for k in 0..520 * scale {
            let mut rng = Rng::fork(seed, "c07-soup", k as u64);
            let soup = token_soup(&mut rng, 40);
            let (label, text) = match k % 5 {
                0 => ("soup:bare", soup),
                1 => ("soup:object-body", format!("import qmluic.QtWidgets\nQWidget {{\n{soup}\n}}\n")),
                2 => ("soup:binding", format!("import qmluic.QtWidgets\nQWidget {{\n    windowTitle: {soup}\n}}\n")),
                3 => ("soup:block", format!("import qmluic.QtWidgets\nQWidget {{\n    id: root\n    windowTitle: {{ {soup} }}\n}}\n")),
                _ => ("soup:callback", format!("import qmluic.QtWidgets\nQPushButton {{\n    id: root\n    onClicked: function(x: bool) {{ {soup} }}\n}}\n")),
            };
            push(vec!["soup".into(), label.into()], text);
        }
        // the real CLI binary: every stress document (generate; a third also with --no-dynamic-binding), the two
        // F11 probes, a sample of mutations
        let mut cli = |labels: Vec<String>, req: Sexp| cases.push(Case { kind: "oracle", labels, request: req });
        cli(vec!["cli".into(), "cli:sum300".into()], node("c07-cli-gen", vec![atom("generate"), atom("sum"), num(300)]));
        cli(vec!["cli".into(), "cli:objects200".into()], node("c07-cli-gen", vec![atom("generate"), atom("objects"), num(200)]));
        cli(vec!["cli".into(), "cli:array200".into()], node("c07-cli-gen", vec![atom("reject"), atom("array"), num(200)]));
        cli(vec!["cli".into(), "cli:ternary100".into()], node("c07-cli-gen", vec![atom("generate"), atom("ternary"), num(100)]));
        for (i, (name, text)) in stress.iter().enumerate() {
            cli(vec!["cli".into(), "cli:stress".into(), format!("stress:{name}")], node("c07-cli", vec![atom("generate"), st(text.clone())]));
            if i % 3 == 0 {
                cli(vec!["cli".into(), "cli:stress-reject".into()], node("c07-cli", vec![atom("reject"), st(text.clone())]));
            }
            // the document in a sub-directory with a non-ASCII name / above the working directory (path in the report)
            if i % 8 == 1 {
                cli(vec!["cli".into(), "cli:stress-sub".into()], node("c07-cli", vec![atom("generate-sub"), st(text.clone())]));
            }
            if i % 8 == 5 {
                cli(vec!["cli".into(), "cli:stress-up".into()], node("c07-cli", vec![atom("reject-up"), st(text.clone())]));
            }
        }
        // … every integer operator on (i64::MIN, -1) and (i64::MAX, i64::MAX)
        for (name, text) in int_boundary.iter().filter(|(n, _)| n.ends_with(":min:-1") || n.ends_with(":max:max") || n.ends_with("dyn:min")) {
            cli(vec!["cli".into(), "cli:stress".into(), "stress:int-boundary".into(), format!("stress:{name}")], node("c07-cli", vec![atom("generate"), st(text.clone())]));
        }
        // … and the control-flow stress documents with a comment at a random token boundary / at all of them
        for (i, (name, text)) in stress.iter().enumerate().filter(|(_, (n, _))| n.starts_with("switch-") || n.starts_with("if-chain-1")) {
            let doc = UiDocument::parse(text.as_str(), "MyType", None);
            if let Some(bs) = trivia::boundaries(&doc) {
                let mut rng = Rng::fork(seed, "c07-cli-trivia", i as u64);
                let inner: Vec<&trivia::Boundary> = bs.iter().filter(|b| b.parent.starts_with("switch_") || b.parent == "else_clause" || b.parent == "if_statement").collect();
                let b = if inner.is_empty() { rng.pick(&bs) } else { *rng.pick(&inner) };
                let tr = if rng.chance(1, 2) { "/* c */" } else { "// c\n" };
                cli(
                    vec!["cli".into(), "cli:trivia".into(), format!("stress:{name}")],
                    node("c07-cli", vec![atom("generate"), st(insert_trivia(text, b.pos, tr))]),
                );
                let mut all = text.clone();
                for b in bs.iter().rev().filter(|b| trivia::grammar_exception(b, "/* c */").is_none()) {
                    all = insert_trivia(&all, b.pos, "/* c */");
                }
                cli(vec!["cli".into(), "cli:trivia-sat".into(), format!("stress:{name}")], node("c07-cli", vec![atom("generate"), st(all)]));
            }
        }
        for k in 0..40 * scale.min(10) {
            let mut rng = Rng::fork(seed, "c07-cli-mut", k as u64);
            let (_, base) = pool[rng.below(pool.len())];
            let (label, text) = mutate(&mut rng, base);
            if text.len() <= 64 * 1024 {
                cli(vec!["cli".into(), "cli:mutation".into(), format!("mut:{label}")], node("c07-cli", vec![atom("generate"), st(text)]));
            }
        }
        // (f) identifiers with non-ASCII letters
        cases.extend(uid_cases(seed, scale, &pool));
        // (g) component sets
        let (set_first, set_last) = set_cases(seed);
        cases.extend(set_first);
        // (h) boundary constants under every operator, cast and conversion
        {
            let docs = boundary_consts::documents();
            for i in boundary_consts::cli_sample(&docs, seed, 54) {
                let mut labels = docs[i].labels.clone();
                labels.extend(["cli".to_owned(), "cli:bc".to_owned()]);
                cases.push(Case { kind: "oracle", labels, request: node("c07-cli", vec![atom(if i % 4 == 3 { "reject" } else { "generate" }), st(docs[i].text.clone())]) });
            }
            for d in docs {
                cases.push(Case { kind: "oracle", labels: d.labels, request: node("c07", vec![st(d.text)]) });
            }
        }
        cases.extend(set_last);
        cases
    }

    fn answer(&self, req: &Sexp) -> Sexp {
        let (tag, args) = req.as_node().expect("request node");
        match tag {
            "c07" => {
                let src = args[0].as_str().expect("text");
                let name = DocName::from_args(&args[1..]);
                let mut per_mode = vec![];
                for mode in Mode::all() {
                    match catch_unwind(AssertUnwindSafe(|| check_mode_as(&self.tm, src, &name, mode))) {
                        Ok(Ok(s)) => per_mode.push(s),
                        Ok(Err(what)) => return node("fail", vec![st(what), node("mode", vec![atom(mode.name())])]),
                        Err(e) => return node("panic", vec![st(panic_text(e)), node("mode", vec![atom(mode.name())])]),
                    }
                }
                // the syntax verdict does not depend on the mode
                if per_mode.iter().any(|s| s.syntax_errors != per_mode[0].syntax_errors) {
                    return node("fail", vec![st("syntax errors differ between modes")]);
                }
                let g = &per_mode[0];
                node(
                    "ok",
                    vec![
                        node("syntax-errors", vec![num(g.syntax_errors)]),
                        node("built", per_mode.iter().map(|s| atom(if s.built { "y" } else { "n" })).collect()),
                        node("errors", per_mode.iter().map(|s| num(s.errors)).collect()),
                        node("warnings", vec![num(g.warnings)]),
                        node("labels", vec![num(g.labels)]),
                        node("ui-bytes", vec![num(g.xml_bytes)]),
                        node("header-bytes", vec![num(g.header_bytes)]),
                    ],
                )
            }
            "c07-twin" => self.answer_twin(args),
            "c07-set" => self.answer_set(args),
            "c07-cli-set" => match parse_set_request(&args[1.min(args.len())..]) {
                Some(req) => run_cli_set(args[0].as_atom() == Some("reject"), &req),
                None => node("bad-request", vec![]),
            },
            "c07-trivia" => self.answer_trivia(args[0].as_str().expect("text"), args[1].as_usize().expect("pos"), args[2].as_str().expect("trivia")),
            "c07-trivia-each" => self.answer_trivia_each(args[0].as_str().expect("text"), args[1].as_usize().expect("seed") as u64),
            "c07-trivia-sat" => self.answer_trivia_sat(args[0].as_str().expect("text"), args[1].as_str().expect("trivia")),
            "c07-trivia-scan" => {
                let doc = UiDocument::parse(args[0].as_str().expect("text"), "MyType", None);
                match trivia::boundaries(&doc) {
                    Some(bs) => node("boundaries", bs.iter().map(|b| node("b", vec![num(b.pos), st(b.class())])).collect()),
                    None => node("syntax-error", vec![]),
                }
            }
            "c07-cli" => {
                let how = args[0].as_atom().unwrap_or("generate");
                let reject = how.starts_with("reject");
                let layout = if how.ends_with("-sub") { CliLayout::Sub } else if how.ends_with("-up") { CliLayout::Up } else { CliLayout::Flat };
                match args.get(2).and_then(|a| a.as_str()) {
                    None => run_cli_in(args[1].as_str().expect("text"), reject, layout),
                    // (c07-cli HOW "text" "File.qml" (file "Other.qml" "text")…): named document, component files next to
                    // it, the classes with non-ASCII names as a second metatypes file
                    Some(main_name) => {
                        let mut extra_files = vec![];
                        for a in &args[3..] {
                            match a.as_node() {
                                Some(("file", [n, t])) => extra_files.push((n.as_str().expect("file name").to_owned(), t.as_str().expect("file text").to_owned())),
                                _ => return node("bad-request", vec![]),
                            }
                        }
                        run_cli_job(args[1].as_str().expect("text"), reject, layout, &CliJob { main_name: main_name.to_owned(), extra_files, foreign: true })
                    }
                }
            }
            "c07-cli-gen" => {
                let reject = args[0].as_atom() == Some("reject");
                let kind = args[1].as_atom().expect("kind");
                let n = args[2].as_usize().expect("levels");
                run_cli(&nested(kind, n), reject)
            }
            _ => node("bad-request", vec![]),
        }
    }
}
