//! C17, whole-pipeline cases: member look-ups as documents see them.
//!
//! A small family of classes (on top of Qt's `QWidget`) declares the SAME member name at several levels, each declaration
//! resolvable (`int` / `QString` / `bool`, distinct per level; methods: distinct arity per level), unresolvable (a type name
//! that exists nowhere) or absent.  A document instantiates one class of the family and uses the member — as a property
//! binding, as a property read / method call through `x` or `(x as Ancestor)`, as a signal callback.  What must happen is
//! computed HERE from the class list by the rule of the specification (QV.Spec.GraphMembers.Decides): the declarations that
//! are reached from the queried class without passing another declaration of the name decide; the class's own one first.
//!   * a resolvable declaration decides  → the document is accepted (the value / the arity written fit THAT declaration only);
//!   * an unresolvable declaration decides → rejected with "property|method|signal resolution failed" — never a silent
//!     fall-through to an ancestor's declaration;
//!   * nobody declares the name          → rejected with "unknown property|signal of class" / "not found in type".
use super::{class_sexp, meta_class, parse_class, ClassSpec, MethodSpec, PropSpec};
use crate::env::{self, Mode};
use crate::rng::Rng;
use crate::sexp::{atom, node, st, Sexp};
use crate::Case;
use qmluic::metatype;
use qmluic::metatype_tweak;
use qmluic::typemap::{ModuleData, ModuleId, TypeMap};

pub const PROP: &str = "vLevel";
pub const METHOD: &str = "vPoke";
pub const SIGNAL: &str = "vPoked";

const UNRESOLVABLE: [&str; 7] = ["Nope", "Nope*", "QList<Nope>", "QMap<int,int>", "L0::Nope", "QWidget::Nope", "QVector<Nope*>"];
const LEVEL_TYPES: [&str; 3] = ["int", "QString", "bool"];

#[derive(Clone, Copy, Debug, PartialEq, Eq)]
pub enum St {
    R,
    U,
    A,
}

impl St {
    pub fn all() -> [St; 3] {
        [St::R, St::U, St::A]
    }
    pub fn letter(self) -> char {
        match self {
            St::R => 'R',
            St::U => 'U',
            St::A => 'A',
        }
    }
}

/// every vector in {R,U,A}^n
pub fn status_vectors(n: usize) -> Vec<Vec<St>> {
    let mut out = vec![vec![]];
    for _ in 0..n {
        out = out.into_iter().flat_map(|v: Vec<St>| St::all().into_iter().map(move |s| [v.clone(), vec![s]].concat())).collect();
    }
    out
}

fn type_resolves(ty: &str) -> bool {
    LEVEL_TYPES.contains(&ty) || ty == "void"
}

#[derive(Clone, Copy, Debug, PartialEq, Eq)]
enum Kind {
    PropBind,
    PropRead,
    MethodCall,
    SignalCb,
    /// a type name (`Qt.StrongFocus`) in a binding of the instance: a bare name is looked up as a property and a method of the
    /// object first
    TypeRef,
    /// scoped type names: `let n: A.B = …`, `(… as A.B)` (the request's two names are A and B), and the enumerator `A.V`
    TypeAnnot,
    TypeCast,
    EnumRef,
}

impl Kind {
    fn name(self) -> &'static str {
        match self {
            Kind::PropBind => "prop-bind",
            Kind::PropRead => "prop-read",
            Kind::MethodCall => "method-call",
            Kind::SignalCb => "signal-cb",
            Kind::TypeRef => "type-ref",
            Kind::TypeAnnot => "type-annot",
            Kind::TypeCast => "type-cast",
            Kind::EnumRef => "enum-ref",
        }
    }
    fn parse(s: &str) -> Option<Kind> {
        [Kind::PropBind, Kind::PropRead, Kind::MethodCall, Kind::SignalCb, Kind::TypeRef, Kind::TypeAnnot, Kind::TypeCast, Kind::EnumRef].into_iter().find(|k| k.name() == s)
    }
}

/// (class name, level = distance from the top of the family, public supers)
type FamilyShape = Vec<(&'static str, usize, Vec<&'static str>)>;

fn family_shapes() -> Vec<(&'static str, FamilyShape)> {
    vec![
        ("chain1", vec![("L0", 0, vec!["QWidget"])]),
        ("chain2", vec![("L0", 0, vec!["QWidget"]), ("L1", 1, vec!["L0"])]),
        ("chain3", vec![("L0", 0, vec!["QWidget"]), ("L1", 1, vec!["L0"]), ("L2", 2, vec!["L1"])]),
        ("diamond", vec![("L0", 0, vec!["QWidget"]), ("M1", 1, vec!["L0"]), ("M2", 1, vec!["L0"]), ("D", 2, vec!["M1", "M2"])]),
        // an unresolved super class listed FIRST must not matter for members that are declared (F10)
        ("dangling", vec![("L0", 0, vec!["QWidget"]), ("L1", 1, vec!["NoSuchBase", "L0"]), ("L2", 2, vec!["L1"])]),
        // two classes deriving from each other above a proper base: every walk must end, declared members are found, a name
        // nobody declares is unknown (answered in a child process: see ISOLATION in c17.rs)
        ("cycle", vec![("L0", 0, vec!["QWidget"]), ("L1", 1, vec!["L2", "L0"]), ("L2", 2, vec!["L1"])]),
    ]
}

fn family(rng: &mut Rng, shape: &FamilyShape, kind: Kind, sv: &[St]) -> Vec<ClassSpec> {
    shape
        .iter()
        .zip(sv)
        .map(|((name, level, supers), st)| {
            let mut c = ClassSpec { name: (*name).to_owned(), supers: supers.iter().map(|s| ((*s).to_owned(), "pub")).collect(), ..Default::default() };
            let bad_pick = (*rng.pick(&UNRESOLVABLE)).to_owned();
            let bad = || bad_pick.clone();
            match (kind, st) {
                (_, St::A) | (Kind::TypeRef | Kind::TypeAnnot | Kind::TypeCast | Kind::EnumRef, _) => {}
                (Kind::PropBind | Kind::PropRead, St::R) => c.props.push(PropSpec { name: PROP.into(), ty: Some(LEVEL_TYPES[level % 3].into()) }),
                (Kind::PropBind | Kind::PropRead, St::U) => c.props.push(PropSpec { name: PROP.into(), ty: Some(bad()) }),
                (Kind::MethodCall, St::R) => {
                    c.slots.push(MethodSpec { name: METHOD.into(), access: "pub", nargs: *level, types: Some((vec!["int".into(); *level], "void".into())) })
                }
                (Kind::MethodCall, St::U) => {
                    // the arity of this level, one type (an argument or the return type) unresolvable; sometimes a second,
                    // resolvable overload next to it: one bad overload fails the name
                    let mut args = vec!["int".to_owned(); *level];
                    let mut ret = "void".to_owned();
                    if *level > 0 && rng.chance(2, 3) {
                        let k = rng.below(*level);
                        args[k] = bad();
                    } else {
                        ret = bad();
                    }
                    if rng.chance(1, 3) {
                        c.methods.push(MethodSpec { name: METHOD.into(), access: "pub", nargs: 4, types: Some((vec!["int".into(); 4], "void".into())) });
                    }
                    c.slots.push(MethodSpec { name: METHOD.into(), access: "pub", nargs: *level, types: Some((args, ret)) });
                }
                (Kind::SignalCb, St::R) => c.signals.push(MethodSpec { name: SIGNAL.into(), access: "pub", nargs: 0, types: Some((vec![], "void".into())) }),
                (Kind::SignalCb, St::U) => c.signals.push(MethodSpec { name: SIGNAL.into(), access: "pub", nargs: 1, types: Some((vec![bad()], "void".into())) }),
            }
            c
        })
        .collect()
}

/// class families with nested enums for the scoped-name documents
fn enum_families() -> Vec<(&'static str, Vec<ClassSpec>)> {
    use super::EnumSpec;
    let cls = |name: &str, supers: &[&str], enums: Vec<EnumSpec>| ClassSpec {
        name: name.to_owned(),
        supers: supers.iter().map(|s| ((*s).to_owned(), "pub")).collect(),
        enums,
        ..Default::default()
    };
    let en = |name: &str, scoped: bool, vs: &[&str]| EnumSpec { name: name.to_owned(), scoped, variants: vs.iter().map(|v| (*v).to_owned()).collect() };
    vec![
        (
            "chain-sibling",
            vec![
                cls("L0", &["QWidget"], vec![en("VMode", false, &["VOn", "VOff"])]),
                cls("L1", &["L0"], vec![en("VScoped", true, &["VS"])]),
                cls("L2", &["L1"], vec![en("VKind", false, &["VA", "VB"])]),
                cls("S", &["QWidget"], vec![en("VOther", false, &["VX"])]),
            ],
        ),
        (
            "diamond",
            vec![
                cls("L0", &["QWidget"], vec![en("VMode", false, &["VOn"])]),
                cls("M1", &["L0"], vec![en("VLeft", false, &["VL"])]),
                cls("M2", &["L0"], vec![]),
                cls("D", &["M1", "M2"], vec![en("VKind", false, &["VA"])]),
            ],
        ),
    ]
}

fn scoped_cases(cases: &mut Vec<Case>) {
    let mut k = 0usize;
    for (label, classes) in enum_families() {
        let own: Vec<String> = classes.iter().map(|c| c.name.clone()).collect();
        let heads: Vec<String> = own.iter().cloned().chain(["QWidget", "QPushButton", "QAbstractButton"].map(String::from)).collect();
        let enums: Vec<String> = classes.iter().flat_map(|c| c.enums.iter().map(|e| e.name.clone())).collect();
        let variants: Vec<String> = classes.iter().flat_map(|c| c.enums.iter().flat_map(|e| e.variants.clone())).collect();
        for a in &heads {
            let mut tails: Vec<String> = enums.clone();
            tails.extend(own.iter().cloned());
            tails.extend(["int", "QString", "QLabel", "QWidget", "Nope"].map(String::from));
            tails.extend(variants.iter().take(2).cloned());
            tails.push(a.clone());
            for kind in [Kind::TypeAnnot, Kind::TypeCast, Kind::EnumRef] {
                let names: Vec<String> = if kind == Kind::EnumRef {
                    variants.iter().cloned().chain(enums.iter().take(2).cloned()).chain(["int".to_owned(), own[0].clone()]).collect()
                } else {
                    tails.clone()
                };
                for b in names {
                    k += 1;
                    let args = vec![node("classes", classes.iter().map(class_sexp).collect()), node("use", vec![atom(kind.name()), st(a.clone()), st(b.clone())])];
                    let found = matches!(scoped_expectation(&classes, kind, a, &b), Expect::Found { .. });
                    let labels = vec![
                        "pipeline".to_owned(),
                        "scoped-names".to_owned(),
                        format!("doc:{}", kind.name()),
                        format!("doc-shape:enums-{label}"),
                        if found { "scoped:member".to_owned() } else { "scoped:not-a-member".to_owned() },
                    ];
                    cases.push(Case { kind: "oracle", labels: labels.clone(), request: node("c17-doc", args.clone()) });
                    if k % 10 == 0 {
                        cases.push(Case { kind: "oracle", labels: [labels, vec!["cli".to_owned()]].concat(), request: node("c17-cli", args) });
                    }
                }
            }
        }
    }
}

pub fn generate(seed: u64, thorough: bool) -> Vec<Case> {
    let mut cases = vec![];
    scoped_cases(&mut cases);
    let mut k = 0u64;
    for (label, shape) in family_shapes() {
        // a type name in a binding of an instance of every class of the family
        let mut rng = Rng::fork(seed, "c17-doc-typeref", shape.len() as u64);
        let classes = family(&mut rng, &shape, Kind::TypeRef, &vec![St::A; shape.len()]);
        for (name, _, _) in &shape {
            let args = vec![node("classes", classes.iter().map(class_sexp).collect()), node("use", vec![atom("type-ref"), st(*name), st(*name)])];
            let labels = vec!["pipeline".to_owned(), "doc:type-ref".to_owned(), format!("doc-shape:{label}")];
            cases.push(Case { kind: "oracle", labels: labels.clone(), request: node("c17-doc", args.clone()) });
            if *name != "L0" {
                cases.push(Case { kind: "oracle", labels: [labels, vec!["cli".to_owned()]].concat(), request: node("c17-cli", args) });
            }
        }
        for kind in [Kind::PropBind, Kind::PropRead, Kind::MethodCall, Kind::SignalCb] {
            let mut vectors = status_vectors(shape.len());
            if vectors.len() > 27 && !thorough {
                // the 4-class diamond: a third of the 81 vectors per run, the ones where it matters first
                let mut rng = Rng::fork(seed, "c17-doc-sample", k);
                rng.shuffle(&mut vectors);
                vectors.sort_by_key(|v| !(v[3] != St::R && v.iter().any(|s| *s == St::R)));
                vectors.truncate(27);
            }
            for sv in vectors {
                k += 1;
                let mut rng = Rng::fork(seed, "c17-doc", k);
                let classes = family(&mut rng, &shape, kind, &sv);
                // the instantiated class: the most derived one, and on the chains every class
                let insts: Vec<usize> = if label.starts_with("chain") { (0..shape.len()).collect() } else { vec![shape.len() - 1] };
                for inst in insts {
                    // the class the member is looked up on: the instance's class or (reads and calls) any ancestor in the family
                    let mut through = vec![inst];
                    if matches!(kind, Kind::PropRead | Kind::MethodCall) {
                        through.extend((0..inst).filter(|j| derives(&classes, shape[inst].0, shape[*j].0)));
                    }
                    for a in through {
                        let svs: String = sv.iter().map(|s| s.letter()).collect();
                        let labels = vec![
                            "pipeline".to_owned(),
                            format!("doc:{}", kind.name()),
                            format!("doc-shape:{label}"),
                            format!("doc-status:{svs}"),
                            if a == inst { "doc:direct".to_owned() } else { "doc:as-ancestor".to_owned() },
                        ];
                        let args = vec![
                            node("classes", classes.iter().map(class_sexp).collect()),
                            node("use", vec![atom(kind.name()), st(shape[inst].0), st(shape[a].0)]),
                        ];
                        cases.push(Case { kind: "oracle", labels: labels.clone(), request: node("c17-doc", args.clone()) });
                        // a slice through the real binary (the classes in a --foreign-types file)
                        if k % 9 == 0 && a == inst {
                            let mut l = labels;
                            l.push("cli".to_owned());
                            cases.push(Case { kind: "oracle", labels: l, request: node("c17-cli", args) });
                        }
                    }
                }
            }
        }
    }
    cases
}

/// the class family of a whole-pipeline request holds a cycle of public super classes
pub fn is_cyclic_request(args: &[Sexp]) -> bool {
    match parse(args) {
        Some(p) => p.classes.iter().any(|c| c.supers.iter().any(|(s, a)| *a == "pub" && derives(&p.classes, s, &c.name))),
        None => false,
    }
}

fn effective<'a>(classes: &'a [ClassSpec], name: &str) -> Option<&'a ClassSpec> {
    classes.iter().rev().find(|c| c.name == name)
}

/// reflexive-transitive public inheritance inside the family (plain graph search)
fn derives(classes: &[ClassSpec], from: &str, to: &str) -> bool {
    let mut seen: Vec<String> = vec![];
    let mut stack = vec![from.to_owned()];
    while let Some(n) = stack.pop() {
        if n == to {
            return true;
        }
        if seen.contains(&n) {
            continue;
        }
        seen.push(n.clone());
        if let Some(c) = effective(classes, &n) {
            stack.extend(c.supers.iter().filter(|(_, a)| *a == "pub").map(|(s, _)| s.clone()));
        }
    }
    false
}

/// the classes that declare the member and are reached from `start` without passing another class that declares it
fn deciders<'a>(classes: &'a [ClassSpec], start: &str, declares: &dyn Fn(&ClassSpec) -> bool) -> Vec<&'a ClassSpec> {
    let mut out: Vec<&ClassSpec> = vec![];
    let mut seen: Vec<String> = vec![];
    let mut stack = vec![start.to_owned()];
    while let Some(n) = stack.pop() {
        if seen.contains(&n) {
            continue;
        }
        seen.push(n.clone());
        // a Qt class or an unknown name: declares none of the family's member names
        let Some(c) = effective(classes, &n) else { continue };
        if declares(c) {
            out.push(c);
            continue;
        }
        stack.extend(c.supers.iter().filter(|(_, a)| *a == "pub").map(|(s, _)| s.clone()));
    }
    out
}

/// a public super class name, reachable from `start`, that denotes neither a class of the family nor a Qt class
fn dangling_from(classes: &[ClassSpec], start: &str) -> Option<String> {
    let mut seen: Vec<String> = vec![];
    let mut stack = vec![start.to_owned()];
    while let Some(n) = stack.pop() {
        if seen.contains(&n) {
            continue;
        }
        seen.push(n.clone());
        match effective(classes, &n) {
            Some(c) => stack.extend(c.supers.iter().filter(|(_, a)| *a == "pub").map(|(s, _)| s.clone())),
            None if n.starts_with('Q') => {}
            None => return Some(n),
        }
    }
    None
}

fn public_named<'a>(c: &'a ClassSpec, name: &str) -> Vec<&'a MethodSpec> {
    c.signals.iter().chain(&c.slots).chain(&c.methods).filter(|m| m.name == name && m.access == "pub").collect()
}

#[derive(Debug, PartialEq)]
enum Expect {
    /// accepted; the declaration that decides (its property type / its arity)
    Found { ty: String, arity: usize },
    /// "... resolution failed"
    Failed,
    /// nobody declares the name
    Unknown,
    /// several declarations can decide, some resolve (and agree), some do not: the property does not say which one wins
    Either { ty: String, arity: usize },
    /// several resolvable declarations of different types / arities can decide: nothing is demanded but totality
    Ambiguous,
    /// an unresolved super class is reachable and no PROPERTY of the name is declared: the look-up of the name as a property —
    /// which comes first for calls and handlers too — reports the unresolved class (F10: only when nothing is found); whether
    /// the unknown class declares such a property cannot be known
    SuperUnresolved(String),
}

/// Finding F92 (an unresolved super class, reported by the look-up of the name as a PROPERTY, hides the method / signal / type of
/// that name): as long as the finding is not listed in KNOWN_FINDINGS.json the behaviour of the tool as it is counts as expected
/// (`SuperUnresolved`); once it is listed (known or fixed) the rule of the specification is demanded and the failures carry the
/// mark `f92-…` the finding's matcher looks for.
fn f92_listed() -> bool {
    static LISTED: std::sync::OnceLock<bool> = std::sync::OnceLock::new();
    *LISTED.get_or_init(|| {
        std::fs::read_to_string(concat!(env!("CARGO_MANIFEST_DIR"), "/../KNOWN_FINDINGS.json")).map(|t| t.contains("\"F92\"")).unwrap_or(false)
    })
}

/// (what must happen, is this a case finding F92 changes)
/// `A.B` as a type / `A.V` as an enumerator: found iff `A` or one of its public ancestors DECLARES the enum `B` resp. an
/// unscoped enum listing `V` — not when the name is merely visible from there (a descendant's or sibling's enum, a top-level
/// class, a builtin, `A` itself).  Found: an initialiser of that enum's type (`Owner.Variant`).
fn scoped_expectation(classes: &[ClassSpec], kind: Kind, a: &str, b: &str) -> Expect {
    // `a` and its public ancestors inside the family (Qt classes declare none of the family's names)
    let mut seen: Vec<String> = vec![];
    let mut queue = std::collections::VecDeque::from([a.to_owned()]);
    while let Some(n) = queue.pop_front() {
        if seen.contains(&n) {
            continue;
        }
        seen.push(n.clone());
        let Some(c) = effective(classes, &n) else { continue };
        for e in &c.enums {
            let hit = match kind {
                Kind::EnumRef => !e.scoped && e.variants.iter().any(|v| v == b),
                _ => e.name == b,
            };
            if hit {
                let init = match e.variants.first() {
                    Some(v) if !e.scoped => format!("{}.{v}", c.name),
                    Some(v) => format!("{}.{}.{v}", c.name, e.name),
                    None => "1".to_owned(),
                };
                return Expect::Found { ty: init, arity: 0 };
            }
        }
        queue.extend(c.supers.iter().filter(|(_, acc)| *acc == "pub").map(|(s, _)| s.clone()));
    }
    Expect::Unknown
}

fn expectation_of(p: &Parsed) -> (Expect, bool) {
    match p.kind {
        Kind::TypeAnnot | Kind::TypeCast | Kind::EnumRef => (scoped_expectation(&p.classes, p.kind, &p.inst, &p.through), false),
        _ => expectation(&p.classes, p.kind, &p.through),
    }
}

fn expectation(classes: &[ClassSpec], kind: Kind, through: &str) -> (Expect, bool) {
    let dangling = dangling_from(classes, through);
    if kind == Kind::TypeRef {
        return match dangling {
            Some(d) if !f92_listed() => (Expect::SuperUnresolved(d), true),
            Some(_) => (Expect::Found { ty: String::new(), arity: 0 }, true),
            None => (Expect::Found { ty: String::new(), arity: 0 }, false),
        };
    }
    let (declares, resolves, describe): (Box<dyn Fn(&ClassSpec) -> bool>, Box<dyn Fn(&ClassSpec) -> bool>, Box<dyn Fn(&ClassSpec) -> (String, usize)>) =
        match kind {
            Kind::PropBind | Kind::PropRead | Kind::TypeRef | Kind::TypeAnnot | Kind::TypeCast | Kind::EnumRef => (
                Box::new(|c| c.props.iter().any(|p| p.name == PROP)),
                Box::new(|c| c.props.iter().rev().find(|p| p.name == PROP).map(|p| type_resolves(p.type_name())).unwrap_or(false)),
                Box::new(|c| (c.props.iter().rev().find(|p| p.name == PROP).map(|p| p.type_name().to_owned()).unwrap_or_default(), 0)),
            ),
            Kind::MethodCall | Kind::SignalCb => {
                let name = if kind == Kind::MethodCall { METHOD } else { SIGNAL };
                (
                    Box::new(move |c| !public_named(c, name).is_empty()),
                    Box::new(move |c| public_named(c, name).iter().all(|m| type_resolves(m.ret_type()) && m.arg_types().iter().all(|t| type_resolves(t)))),
                    Box::new(move |c| (String::new(), public_named(c, name).first().map(|m| m.nargs).unwrap_or(0))),
                )
            }
        };
    let ds = deciders(classes, through, &*declares);
    // the name is looked up as a property first (typedexpr.rs / uigen/objcode.rs): property, else method / signal; with an
    // unresolved super class reachable that first look-up reports it when no property of the name is found
    let mut f92 = false;
    if let Some(d) = dangling {
        if ds.is_empty() {
            return (Expect::SuperUnresolved(d), false);
        }
        if matches!(kind, Kind::MethodCall | Kind::SignalCb) {
            f92 = true;
            if !f92_listed() {
                return (Expect::SuperUnresolved(d), true);
            }
        }
    }
    if ds.is_empty() {
        return (Expect::Unknown, f92);
    }
    let ok: Vec<bool> = ds.iter().map(|c| resolves(c)).collect();
    if ok.iter().all(|b| !*b) {
        return (Expect::Failed, f92);
    }
    let descr: Vec<(String, usize)> = ds.iter().zip(&ok).filter(|(_, b)| **b).map(|(c, _)| describe(c)).collect();
    if !descr.windows(2).all(|w| w[0] == w[1]) {
        return (Expect::Ambiguous, f92);
    }
    if ok.iter().all(|b| *b) {
        (Expect::Found { ty: descr[0].0.clone(), arity: descr[0].1 }, f92)
    } else {
        (Expect::Either { ty: descr[0].0.clone(), arity: descr[0].1 }, f92)
    }
}

fn document(kind: Kind, inst: &str, through: &str, expect: &Expect) -> String {
    let (ty, arity) = match expect {
        Expect::Found { ty, arity } | Expect::Either { ty, arity } => (ty.as_str(), *arity),
        _ => ("int", 0),
    };
    let value = match ty {
        "QString" => "\"s\"",
        "bool" => "true",
        _ => "3",
    };
    let x = if through == inst { "x".to_owned() } else { format!("(x as {through})") };
    let args = (1..=arity).map(|i| i.to_string()).collect::<Vec<_>>().join(", ");
    let (member, body) = match kind {
        Kind::PropBind => (format!("; {PROP}: {value}"), String::new()),
        Kind::SignalCb => (format!("; on{}{}: function() {{ }}", &SIGNAL[..1].to_uppercase(), &SIGNAL[1..]), String::new()),
        Kind::PropRead => (String::new(), format!("let v = {x}.{PROP}")),
        Kind::MethodCall => (String::new(), format!("{x}.{METHOD}({args})")),
        Kind::TypeRef => ("; focusPolicy: Qt.StrongFocus".to_owned(), String::new()),
        Kind::TypeAnnot | Kind::TypeCast | Kind::EnumRef => {
            // `ty` is the initialiser here; the document needs no instance of the family
            let init = if matches!(expect, Expect::Found { .. }) { ty } else { "1" };
            let body = match kind {
                Kind::TypeAnnot => format!("let n: {inst}.{through} = {init}"),
                Kind::TypeCast => format!("let n = ({init} as {inst}.{through})"),
                _ => format!("let n = {inst}.{through}"),
            };
            return format!("import qmluic.QtWidgets\nQWidget {{\n    QPushButton {{ onClicked: {{ {body} }} }}\n}}\n");
        }
    };
    format!("import qmluic.QtWidgets\nQWidget {{\n    {inst} {{ id: x{member} }}\n    QPushButton {{ onClicked: {{ {body} }} }}\n}}\n")
}

fn failure_fragment(kind: Kind) -> &'static str {
    match kind {
        Kind::PropBind | Kind::PropRead => "property resolution failed",
        Kind::MethodCall => "method resolution failed",
        Kind::SignalCb => "signal resolution failed",
        Kind::TypeRef | Kind::TypeAnnot | Kind::TypeCast | Kind::EnumRef => "type resolution failed",
    }
}

fn unknown_fragment(kind: Kind) -> &'static str {
    match kind {
        Kind::PropBind => "unknown property of class",
        Kind::SignalCb => "unknown signal of class",
        Kind::PropRead | Kind::MethodCall => "not found in type",
        Kind::TypeRef | Kind::EnumRef => "undefined reference",
        Kind::TypeAnnot | Kind::TypeCast => "undefined type",
    }
}

struct Parsed {
    classes: Vec<ClassSpec>,
    kind: Kind,
    inst: String,
    through: String,
}

fn parse(args: &[Sexp]) -> Option<Parsed> {
    if args.len() != 2 {
        return None;
    }
    let (t, cs) = args[0].as_node()?;
    if t != "classes" {
        return None;
    }
    let classes = cs.iter().map(parse_class).collect::<Option<Vec<_>>>()?;
    let (t, u) = args[1].as_node()?;
    if t != "use" || u.len() != 3 {
        return None;
    }
    Some(Parsed { classes, kind: Kind::parse(u[0].as_atom()?)?, inst: u[1].as_str()?.to_owned(), through: u[2].as_str()?.to_owned() })
}

/// judges what was observed: `accepted`, the error messages
fn verdict(p: &Parsed, expect: &Expect, f92: bool, doc: &str, accepted: bool, messages: &[String], mut extra: Vec<Sexp>) -> Sexp {
    if f92 {
        extra.push(atom("f92-case"));
    }
    let failed = messages.iter().any(|m| m.contains(failure_fragment(p.kind)));
    // `A.B` with B a member enum TYPE, written where a value is expected: the type is found, and refused as a value
    let bare_type = p.kind == Kind::EnumRef && matches!(scoped_expectation(&p.classes, Kind::TypeAnnot, &p.inst, &p.through), Expect::Found { .. });
    let unknown = messages.iter().any(|m| m.contains(if bare_type { "bare type reference" } else { unknown_fragment(p.kind) }));
    let super_reported = |d: &str| messages.iter().any(|m| m.contains("resolution failed") && m.contains(&format!("'{d}'")));
    let what = match expect {
        Expect::SuperUnresolved(_) if accepted => Some("accepted-although-a-super-class-is-unresolved-and-nothing-declares-the-property"),
        Expect::SuperUnresolved(d) if !super_reported(d) => Some("unresolved-super-class-not-reported"),
        Expect::Found { .. } if !accepted => Some("rejected-although-a-resolvable-declaration-decides"),
        Expect::Failed if accepted => Some("accepted-although-the-deciding-declaration-does-not-resolve"),
        Expect::Failed if !failed => Some("deciding-declaration-does-not-resolve-but-no-resolution-error-reported"),
        Expect::Unknown if accepted => Some("accepted-although-nobody-declares-the-member"),
        Expect::Unknown if !unknown => Some("nobody-declares-the-member-but-another-error-reported"),
        Expect::Either { .. } if !accepted && !failed => Some("neither-accepted-nor-resolution-error"),
        _ => None,
    };
    match what {
        None => {
            let mut v = vec![atom(match expect {
                Expect::Found { .. } => "found",
                Expect::Failed => "failed",
                Expect::Unknown => "unknown",
                Expect::Either { .. } => "either",
                Expect::Ambiguous => "ambiguous",
                Expect::SuperUnresolved(_) => "super-unresolved",
            })];
            v.extend(extra);
            node("ok", v)
        }
        Some(w) => node(
            "violation",
            vec![
                // a case finding F92 changes, failing the way the finding describes: the unresolved super class reported
                atom(match dangling_from(&p.classes, &p.through) {
                    Some(d) if f92 && !accepted && super_reported(&d) => format!("f92-unresolved-super-class-hides-the-name:{w}"),
                    _ => w.to_owned(),
                }),
                node("use", vec![atom(p.kind.name()), st(p.inst.clone()), st(p.through.clone())]),
                node("expected", vec![st(format!("{expect:?}"))]),
                node("accepted", vec![atom(if accepted { "true" } else { "false" })]),
                node("messages", messages.iter().map(|m| st(m.clone())).collect()),
                node("document", vec![st(doc)]),
            ],
        ),
    }
}

fn type_map(qt: &[metatype::Class], family: &[ClassSpec]) -> TypeMap {
    let mut classes = qt.to_vec();
    classes.extend(family.iter().map(meta_class));
    metatype_tweak::apply_all(&mut classes);
    let mut type_map = TypeMap::with_primitive_types();
    let mut md = ModuleData::with_builtins();
    md.extend(classes);
    type_map.insert_module(ModuleId::Named("qmluic.QtWidgets"), md);
    type_map
}

pub fn answer_doc(qt: &[metatype::Class], args: &[Sexp]) -> Sexp {
    let Some(p) = parse(args) else { return node("bad-request", vec![]) };
    let (expect, f92) = expectation_of(&p);
    let doc = document(p.kind, &p.inst, &p.through, &expect);
    let tm = type_map(qt, &p.classes);
    let t = env::translate(&tm, &doc, "Main", Mode::Generate);
    if t.syntax_errors > 0 {
        return node("syntax-error", vec![st(doc)]);
    }
    let messages: Vec<String> = t.diags.iter().filter(|d| d.is_error).map(|d| d.message.clone()).collect();
    // which declaration was bound shows in the outputs: the value element of the property resp. the call in the header
    let mut extra = vec![];
    if let (true, Expect::Found { ty, .. }) = (t.accepted(), &expect) {
        match p.kind {
            Kind::PropBind => {
                let elem = match ty.as_str() {
                    "QString" => "<string",
                    "bool" => "<bool>",
                    _ => "<number>",
                };
                let ui = t.ui.clone().unwrap_or_default();
                let ok = ui.split(&format!("<property name=\"{PROP}\">")).nth(1).map(|rest| rest.trim_start().starts_with(elem)).unwrap_or(false);
                if !ok {
                    return node("violation", vec![atom("property-not-written-with-the-deciding-type"), st(ty.clone()), node("document", vec![st(doc)]), node("ui", vec![st(ui)])]);
                }
            }
            Kind::MethodCall => {
                if !t.header.clone().unwrap_or_default().contains(&format!("->{METHOD}(")) {
                    return node("violation", vec![atom("call-not-in-header"), node("document", vec![st(doc)])]);
                }
            }
            Kind::SignalCb => {
                if !t.header.clone().unwrap_or_default().contains(&format!("::{SIGNAL})")) {
                    return node("violation", vec![atom("connect-not-in-header"), node("document", vec![st(doc)])]);
                }
            }
            Kind::PropRead | Kind::TypeRef | Kind::TypeAnnot | Kind::TypeCast | Kind::EnumRef => {}
        }
        extra.push(atom("outputs-checked"));
    }
    verdict(&p, &expect, f92, &doc, t.accepted(), &messages, extra)
}

pub fn answer_cli(args: &[Sexp]) -> Sexp {
    use std::sync::atomic::{AtomicU64, Ordering};
    static COUNTER: AtomicU64 = AtomicU64::new(0);
    let Some(p) = parse(args) else { return node("bad-request", vec![]) };
    let (expect, f92) = expectation_of(&p);
    let doc = document(p.kind, &p.inst, &p.through, &expect);
    let bin = env::cli_binary();
    let dir = std::env::temp_dir().join(format!("qv-c17-{}-{}", std::process::id(), COUNTER.fetch_add(1, Ordering::Relaxed)));
    std::fs::create_dir_all(&dir).unwrap();
    let unit = metatype::CompilationUnit { classes: p.classes.iter().map(meta_class).collect(), ..Default::default() };
    std::fs::write(dir.join("family.json"), serde_json::to_string(&vec![unit]).unwrap()).unwrap();
    std::fs::write(dir.join("Main.qml"), &doc).unwrap();
    let mut cmd = std::process::Command::new(bin);
    cmd.current_dir(&dir).arg("generate-ui").env("NO_COLOR", "1");
    for m in ["core", "gui", "widgets"] {
        cmd.arg("--foreign-types").arg(format!("{}/contrib/metatypes/qt5{m}_metatypes.json", env::REPO));
    }
    cmd.arg("--foreign-types").arg("family.json").arg("Main.qml");
    // 20 s: a look-up that does not terminate must not hang the run
    cmd.stdin(std::process::Stdio::null()).stdout(std::process::Stdio::null()).stderr(std::process::Stdio::piped());
    let out = match cmd.spawn() {
        Ok(mut child) => {
            let mut stderr = child.stderr.take().expect("piped stderr");
            let reader = std::thread::spawn(move || {
                use std::io::Read as _;
                let mut v = vec![];
                let _ = stderr.read_to_end(&mut v);
                v
            });
            let start = std::time::Instant::now();
            let status = loop {
                match child.try_wait() {
                    Ok(Some(s)) => break Some(s),
                    Ok(None) if start.elapsed() > std::time::Duration::from_secs(20) => {
                        let _ = child.kill();
                        let _ = child.wait();
                        break None;
                    }
                    Ok(None) => std::thread::sleep(std::time::Duration::from_millis(5)),
                    Err(_) => break None,
                }
            };
            let stderr = reader.join().unwrap_or_default();
            match status {
                Some(status) => Ok(std::process::Output { status, stdout: vec![], stderr }),
                None => {
                    let _ = std::fs::remove_dir_all(&dir);
                    return node("fail", vec![st("cli-timeout"), node("seconds", vec![atom("20")]), node("document", vec![st(doc)])]);
                }
            }
        }
        Err(e) => Err(e),
    };
    let written = dir.join("main.ui").is_file();
    let _ = std::fs::remove_dir_all(&dir);
    let out = match out {
        Ok(o) => o,
        Err(e) => return node("fail", vec![st(format!("cannot run the binary: {e}"))]),
    };
    let code = out.status.code().unwrap_or(-1);
    if code != 0 && code != 1 {
        return node("violation", vec![atom("cli-exit-status"), atom(code.to_string()), node("document", vec![st(doc)])]);
    }
    if (code == 0) != written {
        return node("violation", vec![atom("exit-status-vs-written-ui"), atom(code.to_string()), node("document", vec![st(doc)])]);
    }
    let stderr = String::from_utf8_lossy(&out.stderr).into_owned();
    let messages: Vec<String> = stderr.lines().filter(|l| l.starts_with("error")).map(str::to_owned).collect();
    verdict(&p, &expect, f92, &doc, code == 0, &messages, vec![atom("cli")])
}
