//! C12 — layout cells and per-row/column arrays, through the real pipeline.
//!   (grid (flow ltr|ttb|_) (columns N|_) (rows N|_) (children (row col rowSpan colSpan rowStretch colStretch rowMinH colMinW)...))
//!   (form (children ...))   (vbox (children ...))   (hbox (children ...))
//! and the same with the `spec-` prefix (compared with QV.Spec.Layout).  Answer:
//!   (layout (cmw ..) (cs ..) (rmh ..) (rs ..) (st ..) (items (row col rowspan colspan)..) (diags "msg"..))
use crate::env::{self, Mode};
use crate::rng::Rng;
use crate::sexp::{atom, list, node, st, Sexp};
use crate::xml;
use crate::{Case, Stream};
use qmluic::typemap::TypeMap;

pub struct C12 {
    tm: TypeMap,
}

impl C12 {
    pub fn new() -> Self {
        C12 { tm: env::load_type_map(&[]) }
    }
}

fn oi(v: Option<i64>) -> Sexp {
    match v {
        None => atom("_"),
        Some(x) => atom(x.to_string()),
    }
}

fn parse_oi(s: &Sexp) -> Option<i64> {
    match s.as_atom() {
        Some("_") | None => None,
        Some(a) => a.parse().ok(),
    }
}

const FIELDS: [&str; 8] = [
    "row", "column", "rowSpan", "columnSpan", "rowStretch", "columnStretch", "rowMinimumHeight", "columnMinimumWidth",
];

fn gen_index(rng: &mut Rng, limit: i64) -> Option<i64> {
    match rng.below(20) {
        0..=9 => None,
        10..=16 => Some(rng.range(0, limit.max(1) + 1)),
        // boundaries of the index limit and of the 32-/64-bit conversions on the way (values beyond i32 must not wrap)
        17 => Some(*rng.pick(&[-1, -2, -2147483648, -2147483649, -4294967295, -4294967297])),
        18 => Some(*rng.pick(&[65535, 65536, 70000, 2147483647, 2147483648, 4294967295, 4294967296, 4294967297, 4294967298, 9223372036854775807])),
        _ => Some(rng.range(0, 9)),
    }
}

fn gen_children(rng: &mut Rng, max_n: usize, limit: i64, style: usize) -> Vec<Sexp> {
    let n = rng.below(max_n + 1);
    (0..n)
        .map(|k| {
            let mut f: Vec<Option<i64>> = vec![None; 8];
            if style != 0 {
                f[0] = gen_index(rng, limit + 2);
                f[1] = gen_index(rng, limit);
            }
            if rng.chance(1, 5) {
                f[2] = Some(rng.range(1, 3));
            }
            if rng.chance(1, 5) {
                f[3] = Some(rng.range(1, 3));
            }
            for i in 4..8 {
                let p = match style {
                    2 => 2, // dense settings: conflicts likely
                    _ => 4,
                };
                if rng.chance(1, p) {
                    f[i] = Some(match style {
                        3 => 10 * (i as i64) + k as i64, // all distinct
                        2 => rng.range(1, 2),
                        _ => rng.range(0, 3) * 10,
                    });
                }
            }
            list(f.into_iter().map(oi).collect())
        })
        .collect()
}

impl Stream for C12 {
    fn generate(&self, seed: u64, thorough: bool) -> Vec<Case> {
        let mut rng = Rng::fork(seed, "c12", 0);
        let mut cases = vec![];
        let push = |cases: &mut Vec<Case>, tag: &str, args: Vec<Sexp>, labels: Vec<String>| {
            cases.push(Case { kind: "model", labels: labels.clone(), request: node(tag, args.clone()) });
            cases.push(Case { kind: "spec", labels, request: node(&format!("spec-{tag}"), args) });
        };
        let n_grid = if thorough { 40_000 } else { 2_500 };
        for k in 0..n_grid {
            let flow = *rng.pick(&["ltr", "ttb", "_", "ltr", "ttb"]);
            let count = |rng: &mut Rng| -> Option<i64> {
                match rng.below(12) {
                    0..=1 => None,
                    2..=9 => Some(rng.range(1, 5)),
                    10 => Some(*rng.pick(&[0, -1, 65536, 65537, 1, 4294967297, 4294967298, 2147483648, -4294967295])),
                    _ => Some(rng.range(1, 3)),
                }
            };
            let columns = count(&mut rng);
            let rows = count(&mut rng);
            let limit = match flow {
                "ttb" => rows.unwrap_or(4),
                _ => columns.unwrap_or(4),
            };
            let style = k % 4;
            let ch = gen_children(&mut rng, 7, limit.clamp(1, 6) - 1, style);
            let labels = vec![
                format!("grid-{flow}"),
                format!("style{style}"),
                format!("children{}", ch.len()),
            ];
            push(
                &mut cases,
                "grid",
                vec![
                    node("flow", vec![atom(flow)]),
                    node("columns", vec![oi(columns)]),
                    node("rows", vec![oi(rows)]),
                    node("children", ch),
                ],
                labels,
            );
        }
        // exhaustive small scope (thorough): ≤ 3 children, explicit positions in 0..=2 or none, 2 columns/rows
        if thorough {
            let opts: [Option<i64>; 4] = [None, Some(0), Some(1), Some(2)];
            for flow in ["ltr", "ttb"] {
                for n in 1..=3usize {
                    let total = 16usize.pow(n as u32);
                    for code in 0..total {
                        let mut c = code;
                        let mut ch = vec![];
                        for k in 0..n {
                            let r = opts[c % 4];
                            let col = opts[(c / 4) % 4];
                            c /= 16;
                            let mut f: Vec<Option<i64>> = vec![None; 8];
                            f[0] = r;
                            f[1] = col;
                            f[4] = Some(10 + k as i64);
                            f[5] = Some(20 + k as i64);
                            f[6] = Some(30 + k as i64);
                            f[7] = Some(40 + k as i64);
                            ch.push(list(f.into_iter().map(oi).collect()));
                        }
                        push(
                            &mut cases,
                            "grid",
                            vec![
                                node("flow", vec![atom(flow)]),
                                node("columns", vec![oi(Some(2))]),
                                node("rows", vec![oi(Some(2))]),
                                node("children", ch),
                            ],
                            vec!["grid-exhaustive-small".into()],
                        );
                    }
                }
            }
        }
        let n_other = if thorough { 6_000 } else { 500 };
        for k in 0..n_other {
            let ch = gen_children(&mut rng, 6, 1, 1 + k % 3);
            push(&mut cases, "form", vec![node("children", ch.clone())], vec!["form".into(), format!("children{}", ch.len())]);
            let ch = gen_children(&mut rng, 6, 1, k % 4);
            let tag = if k % 2 == 0 { "vbox" } else { "hbox" };
            push(&mut cases, tag, vec![node("children", ch.clone())], vec![tag.into(), format!("children{}", ch.len())]);
        }
        cases
    }

    fn answer(&self, req: &Sexp) -> Sexp {
        let (tag, args) = req.as_node().expect("request node");
        let tag = tag.strip_prefix("spec-").or_else(|| tag.strip_prefix("f9-")).unwrap_or(tag);
        let mut src = String::from("import qmluic.QtWidgets\nQWidget {\n");
        let (class, children) = match tag {
            "grid" => ("QGridLayout", &args[3]),
            "form" => ("QFormLayout", &args[0]),
            "vbox" => ("QVBoxLayout", &args[0]),
            "hbox" => ("QHBoxLayout", &args[0]),
            _ => return node("bad-request", vec![]),
        };
        src.push_str(&format!("    {class} {{\n        id: theLayout\n"));
        if tag == "grid" {
            match args[0].as_list().unwrap()[1].as_atom().unwrap() {
                "ltr" => src.push_str("        flow: QGridLayout.LeftToRight\n"),
                "ttb" => src.push_str("        flow: QGridLayout.TopToBottom\n"),
                _ => {}
            }
            if let Some(c) = parse_oi(&args[1].as_list().unwrap()[1]) {
                src.push_str(&format!("        columns: {c}\n"));
            }
            if let Some(r) = parse_oi(&args[2].as_list().unwrap()[1]) {
                src.push_str(&format!("        rows: {r}\n"));
            }
        }
        let (_, kids) = children.as_node().unwrap();
        for (k, kid) in kids.iter().enumerate() {
            let f = kid.as_list().unwrap();
            let cls = ["QLabel", "QPushButton", "QHBoxLayout", "QLineEdit"][k % 4];
            src.push_str(&format!("        {cls} {{\n"));
            for (name, v) in FIELDS.iter().zip(f) {
                if let Some(x) = parse_oi(v) {
                    src.push_str(&format!("            QLayout.{name}: {x}\n"));
                }
            }
            src.push_str("        }\n");
        }
        src.push_str("    }\n}\n");
        let t = env::translate(&self.tm, &src, "MyType", Mode::Reject);
        if t.syntax_errors > 0 || !t.built {
            return node("not-built", vec![st(format!("{:?}", t.diags))]);
        }
        let root = xml::parse(t.ui.as_ref().unwrap()).expect("well-formed ui");
        let root = xml::strip_indent(&root);
        let Some(lay) = root.descendants().into_iter().find(|e| e.name == "layout" && e.attr("name") == Some("theLayout")) else {
            return node("no-layout", vec![]);
        };
        let arr = |tag: &str, attr: &str| -> Sexp {
            let mut v = vec![atom(tag)];
            if let Some(a) = lay.attr(attr) {
                v.extend(a.split(',').map(|x| atom(x.to_owned())));
            }
            list(v)
        };
        let items: Vec<Sexp> = lay
            .children_named("item")
            .map(|it| {
                let g = |n: &str| it.attr(n).map(|x| atom(x.to_owned())).unwrap_or(atom("_"));
                list(vec![g("row"), g("column"), g("rowspan"), g("colspan")])
            })
            .collect();
        let mut msgs: Vec<String> = t.diags.iter().filter(|d| d.is_error).map(|d| d.message.clone()).collect();
        msgs.sort();
        let mut iv = vec![atom("items")];
        iv.extend(items);
        let mut dv = vec![atom("diags")];
        dv.extend(msgs.into_iter().map(st));
        node(
            "layout",
            vec![
                arr("cmw", "columnminimumwidth"),
                arr("cs", "columnstretch"),
                arr("rmh", "rowminimumheight"),
                arr("rs", "rowstretch"),
                arr("st", "stretch"),
                list(iv),
                list(dv),
            ],
        )
    }
}
