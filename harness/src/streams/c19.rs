//! C19 — colour strings.  Requests:
//!   (color "s")      impl: `Color::from_str`                      vs  Model.Color.parse   (kind=model)
//!   (spec-color "s") impl: same                                    vs  Spec.QtColor.readColor (kind=spec)
//!   (colorui "s") / (spec-colorui "s")   impl: `<color>` element of the real .ui for
//!        `QColorDialog { currentColor: "s" }`                      vs  toGadget∘parse / channels∘readColor
//!   (brushui "s") / (spec-brushui "s")   same through a QBrush-typed property
use crate::env::{self, Mode};
use crate::rng::Rng;
use crate::sexp::{atom, node, num, st, Sexp};
use crate::xml;
use crate::{Case, Stream};
use qmluic::color::{Color, ParseColorError};
use qmluic::typemap::TypeMap;

pub struct C19 {
    tm: TypeMap,
}

impl C19 {
    pub fn new() -> Self {
        C19 { tm: env::load_type_map(&[]) }
    }
}

const HEX: &[u8] = b"0123456789abcdef";
const HEXMIX: &[u8] = b"0123456789abcdefABCDEF";

fn both(cases: &mut Vec<Case>, base: &str, s: &str, labels: &[&str]) {
    let labels: Vec<String> = labels.iter().map(|x| x.to_string()).collect();
    cases.push(Case { kind: "model", labels: labels.clone(), request: node(base, vec![st(s)]) });
    cases.push(Case { kind: "spec", labels, request: node(&format!("spec-{base}"), vec![st(s)]) });
}

fn random_case(rng: &mut Rng, s: &str) -> String {
    s.chars()
        .map(|c| if rng.chance(1, 2) { c.to_ascii_uppercase() } else { c.to_ascii_lowercase() })
        .collect()
}

impl Stream for C19 {
    fn generate(&self, seed: u64, thorough: bool) -> Vec<Case> {
        let mut rng = Rng::fork(seed, "c19", 0);
        let mut cases = vec![];
        // exhaustive: every 3- and 4-digit hex colour (lower-case digits)
        for a in 0..16 {
            for b in 0..16 {
                for c in 0..16 {
                    let s3 = format!("#{}{}{}", HEX[a] as char, HEX[b] as char, HEX[c] as char);
                    both(&mut cases, "color", &s3, &["hex3", "exhaustive"]);
                    for d in 0..16 {
                        let s4 = format!("{}{}", s3, HEX[d] as char);
                        both(&mut cases, "color", &s4, &["hex4", "exhaustive"]);
                    }
                }
            }
        }
        // sampled: mixed-case digits of every length 0..=12
        let n_long = if thorough { 400_000 } else { 12_000 };
        for k in 0..n_long {
            let len = match k % 8 {
                0 | 1 | 2 => 6,
                3 | 4 | 5 => 8,
                6 => *rng.pick(&[3usize, 4]),
                _ => *rng.pick(&[0usize, 1, 2, 5, 7, 9, 10, 11, 12, 16, 17]),
            };
            let s: String = std::iter::once('#')
                .chain((0..len).map(|_| *rng.pick(HEXMIX) as char))
                .collect();
            let lab = format!("hex{len}");
            both(&mut cases, "color", &s, &[&lab, "sampled"]);
        }
        // malformed hex: one foreign character planted in an otherwise valid colour
        let foreign = ['g', 'G', '+', '-', '_', ' ', 'x', '#', '.', '\u{ff10}', '\u{0661}', 'é', '\0', '\n', '\u{1d7d8}'];
        let n_bad = if thorough { 40_000 } else { 3_000 };
        for _ in 0..n_bad {
            let len = *rng.pick(&[3usize, 4, 6, 8, 9]);
            let mut cs: Vec<char> = (0..len).map(|_| *rng.pick(HEXMIX) as char).collect();
            let pos = rng.below(len + 1);
            let f = *rng.pick(&foreign);
            if rng.chance(1, 2) && pos < len {
                cs[pos] = f;
            } else {
                cs.insert(pos, f);
            }
            let s: String = std::iter::once('#').chain(cs).collect();
            both(&mut cases, "color", &s, &["hexbad"]);
        }
        // keywords: every SVG keyword in lower, upper, capitalised and random case; near misses
        let kws: Vec<&str> = include_str!("../../data/svg_keywords.txt").lines().filter(|l| !l.is_empty()).collect();
        let non: Vec<&str> = include_str!("../../data/non_svg_names.txt").lines().filter(|l| !l.is_empty()).collect();
        let reps = if thorough { 40 } else { 4 };
        for kw in kws.iter().chain(["transparent"].iter()) {
            both(&mut cases, "color", kw, &["kw-lower"]);
            both(&mut cases, "color", &kw.to_ascii_uppercase(), &["kw-upper"]);
            let mut cap = kw.to_string();
            cap[..1].make_ascii_uppercase();
            both(&mut cases, "color", &cap, &["kw-cap"]);
            // every spelling with exactly ONE capital letter (camelCase spellings of other colour vocabularies, e.g.
            // Qt::GlobalColor's darkGray, are among them: they denote the SVG keyword, case-insensitively)
            for i in 1..kw.len() {
                let mut one = kw.to_string();
                one[i..i + 1].make_ascii_uppercase();
                both(&mut cases, "color", &one, &["kw-one-capital"]);
            }
            for _ in 0..reps {
                both(&mut cases, "color", &random_case(&mut rng, kw), &["kw-random-case"]);
                // near miss
                let mut cs: Vec<char> = kw.chars().collect();
                match rng.below(4) {
                    0 => {
                        cs.remove(rng.below(cs.len()));
                    }
                    1 => cs.insert(rng.below(cs.len() + 1), *rng.pick(&['a', 'e', ' ', 'y', 'ı', 'K'])),
                    2 => {
                        let p = rng.below(cs.len());
                        cs[p] = *rng.pick(&['a', 'e', 'z', 'İ', 'ſ', '\u{212a}']);
                    }
                    _ => cs.push(' '),
                }
                let s: String = cs.into_iter().collect();
                both(&mut cases, "color", &s, &["kw-nearmiss"]);
            }
        }
        for n in &non {
            both(&mut cases, "color", n, &["non-svg-name"]);
        }
        for s in ["", " ", "#", "##", "red ", " red", "Red\n", "rgb(1,2,3)", "0xff0000", "ff0000", "#ｆｆｆ", "TRANSPARENT", "tRaNsPaReNt", "transparent ", "ＲＥＤ"] {
            both(&mut cases, "color", s, &["misc"]);
        }
        // through the real pipeline (.ui output)
        let n_ui = if thorough { 6_000 } else { 600 };
        for k in 0..n_ui {
            // also through the pipeline: the empty string, blanks and other separators at the ends or inside a valid
            // colour (the value pass has its own string handling in front of the parser)
            let s: String = match k % 8 {
                6 => rng.pick(&["", " ", "\t", "#", "##", "red ", " red", "Red\n", "rgb(1,2,3)", "0xff0000", "ff0000", "transparent ", " #fff", "#fff "]).to_string(),
                7 => {
                    let mut cs: Vec<char> = if rng.chance(1, 2) {
                        std::iter::once('#').chain((0..*rng.pick(&[3usize, 4, 6, 8])).map(|_| *rng.pick(HEXMIX) as char)).collect()
                    } else {
                        rng.pick(&kws).chars().collect()
                    };
                    for _ in 0..(1 + rng.below(3)) {
                        let at = rng.below(cs.len() + 1);
                        cs.insert(at, *rng.pick(&[' ', '\t', '\n', '\u{a0}', '_', ',']));
                    }
                    cs.into_iter().collect()
                }
                0 => std::iter::once('#').chain((0..*rng.pick(&[3usize, 4, 6, 8])).map(|_| *rng.pick(HEXMIX) as char)).collect(),
                1 => std::iter::once('#').chain((0..rng.below(11)).map(|_| *rng.pick(HEXMIX) as char)).collect(),
                2 => { let kw = *rng.pick(&kws); random_case(&mut rng, kw) }
                3 => rng.pick(&non).to_string(),
                4 => "transparent".to_owned(),
                _ => {
                    let kw = *rng.pick(&kws);
                    let mut cs: Vec<char> = kw.chars().collect();
                    cs.remove(rng.below(cs.len()));
                    cs.into_iter().collect()
                }
            };
            let base = if k % 2 == 0 { "colorui" } else { "brushui" };
            both(&mut cases, base, &s, &[base]);
        }
        cases
    }

    fn answer(&self, req: &Sexp) -> Sexp {
        let (tag, args) = req.as_node().expect("request node");
        let s = args[0].as_str().expect("string argument");
        let tag = tag.strip_prefix("spec-").unwrap_or(tag);
        match tag {
            "color" => match s.parse::<Color>() {
                Ok(Color::Rgb8(c)) => node("ok", vec![atom("opaque"), num(c.red), num(c.green), num(c.blue), atom("rgb")]),
                Ok(Color::Rgba8(c)) => node("ok", vec![num(c.alpha), num(c.red), num(c.green), num(c.blue), atom("rgba")]),
                Err(ParseColorError::InvalidHex) => node("err", vec![atom("invalidHex")]),
                Err(ParseColorError::UnknownName) => node("err", vec![atom("unknownName")]),
            },
            "colorui" | "brushui" => {
                let lit = env::qml_string_literal(s, (s.len() as u32) % 6);
                let src = if tag == "colorui" {
                    format!("import qmluic.QtWidgets\nQColorDialog {{ currentColor: {lit} }}\n")
                } else {
                    format!("import qmluic.QtWidgets\nQGraphicsView {{ backgroundBrush: {lit} }}\n")
                };
                let t = env::translate(&self.tm, &src, "MyType", Mode::Reject);
                if t.accepted() {
                    let root = xml::parse(t.ui.as_ref().unwrap()).expect("well-formed ui");
                    let colors: Vec<&xml::Element> =
                        root.descendants().into_iter().filter(|e| e.name == "color").collect();
                    if colors.len() != 1 {
                        return node("bad-ui", vec![num(colors.len())]);
                    }
                    let c = colors[0];
                    let get = |n: &str| -> Sexp {
                        let v: Vec<String> = c.children_named(n).map(|e| e.text()).collect();
                        if v.len() == 1 { atom(v[0].clone()) } else { atom(format!("?{}", v.len())) }
                    };
                    let alpha = c.attr("alpha").map(|a| atom(a.to_owned())).unwrap_or(atom("missing"));
                    node("ok", vec![alpha, get("red"), get("green"), get("blue")])
                } else {
                    let msgs: Vec<Sexp> = t.diags.iter().filter(|d| d.is_error).map(|d| st(d.message.clone())).collect();
                    if t.syntax_errors > 0 {
                        return node("syntax-error", vec![]);
                    }
                    node("err", msgs)
                }
            }
            _ => node("bad-request", vec![]),
        }
    }
}
