//! C16 — the support header is self-consistent, valid C++ over the documented Qt API.  Requests:
//!   (c16-compile (doc "Name" "qml")...)   each accepted document's real header + mini-uic ui_*.h is compiled with
//!                                         g++ -std=c++17 -fsyntax-only against declarations generated from the SAME
//!                                         (tweaked) metatypes by tools/gen_mock_decls.py on cxx/qtmock.h        [oracle]
//!   (c16-scan "Name" "qml")               token scan of the real header: calls/definitions, index enum, guard and
//!                                         observer array sizes, includes                                          [oracle]
//!   (c16-inv "qml" "Name" (objs ...))     header inventory of the real header vs the Lean model (Model.CxxEmit)   [model]
//!                                         incl. the name-split families: one identifier split differently between object id
//!                                         and binding path (plain / gadget map / gadget member / callback, with digits)
//!   (c16-literals "s"...)                 every emitted spelling of the source strings is compiled AND RUN: the UTF-16
//!                                         units of QStringLiteral(...) / the bytes of narrow literals = the source  [oracle]
//!   (c16-lit "s")                         spelling of the source string in the real header vs Model.formatStringLiteral [model]
//!   (c16-lit sig "qml" "Name" (sigs …))   the QOverload<…>::of(&Class::signal) spellings of the real header vs the model   [model]
//!   (c16-lit num "qml" pinf|ninf|nan)     spelling of a non-finite double constant vs the model                         [model]
//!   (c16-doubles (d "expr" pos "bits")…)  the double constant spelled in the real header, compiled and RUN, has the bit
//!                                         pattern of the source constant expression (±inf, NaN, -0.0, denormals, max …)  [oracle]
//!   (c16-rejects "qml" "needle")          the document is refused with an error diagnostic containing the needle        [oracle]
//!   (c16-metatypes "path")                helper: dumps the tweaked metatypes used by this stream (for tools/)
use crate::docgen::Obj;
use crate::env::{self, qml_string_literal, Mode};
use crate::rng::Rng;
use crate::sexp::{atom, list, node, num, st, Sexp};
use crate::streams::c08::rich_document;
use crate::{Case, Stream};
use qmluic::metatype;
use qmluic::metatype_tweak;
use qmluic::typemap::TypeMap;
use std::collections::{BTreeMap, BTreeSet, HashMap};
use std::path::{Path, PathBuf};
use std::process::Command;
use std::sync::atomic::{AtomicUsize, Ordering};
use std::sync::OnceLock;

pub struct C16 {
    tm: TypeMap,
    work: OnceLock<Result<Work, String>>,
    counter: AtomicUsize,
}

struct Work {
    dir: tempfile::TempDir,
}

fn verif_root() -> PathBuf {
    Path::new(env!("CARGO_MANIFEST_DIR")).join("..")
}

// ------------------------------------------------------------------------------------------------ type information

fn prop(name: &str, ty: &str, notify: bool) -> metatype::Property {
    let cap = qmluic::qtname::to_ascii_capitalized(name);
    metatype::Property {
        name: name.to_owned(),
        r#type: ty.to_owned(),
        read: Some(name.to_owned()),
        write: Some(format!("set{cap}")),
        notify: if notify { Some(format!("{name}Changed")) } else { None },
        ..Default::default()
    }
}

/// properties whose NOTIFY signal carries the new value: (name, type, kind of the type for `is_const_ref_preferred`)
const SIG_PROPS: &[(&str, &str)] = &[
    ("names", "QStringList"), ("nums", "QList<int>"), ("caption", "QString"), ("count2", "int"), ("face", "QFont"), ("modeN", "WBase::Mode"),
    ("peerN", "WBase*"), ("varN", "QVariant"), ("ratioN", "double"), ("flagsN", "WBase::Flags"), ("onN", "bool"), ("scopedN", "WBase::Scoped"),
];
fn kind_of_type(t: &str) -> &'static str {
    match t {
        "int" | "uint" | "bool" | "double" => "prim",
        "QString" => "qstring",
        "QVariant" => "qvariant",
        t if t.ends_with('*') => "pointer",
        t if t == "QStringList" || t.starts_with("QList<") => "list",
        "WBase::Mode" | "WBase::Flags" | "WBase::Scoped" | "WBase::Level" => "enum",
        _ => "cls",
    }
}
/// plain signals: (name, [(C++ type, QML type annotation if it can be written)])
#[allow(clippy::type_complexity)]
const SIG_PLAIN: &[(&str, &[(&str, Option<&str>)])] = &[
    ("sigList", &[("QStringList", None)]),
    ("sigInts", &[("QList<int>", None)]),
    ("sigFont", &[("QFont", Some("QFont"))]),
    ("sigSize", &[("QSize", Some("QSize"))]),
    ("sigColor", &[("QColor", Some("QColor"))]),
    ("sigGadget", &[("WGadget", Some("WGadget"))]),
    ("sigMix1", &[("int", Some("int")), ("QString", Some("QString"))]),
    ("sigMix2", &[("QStringList", None), ("int", Some("int")), ("WBase*", Some("WBase"))]),
    ("sigMix3", &[("QFont", Some("QFont")), ("bool", Some("bool")), ("QList<int>", None), ("WBase::Mode", Some("WBase.Mode"))]),
    ("sigMix4", &[("QString", Some("QString")), ("QVariant", Some("QVariant")), ("double", Some("double")), ("WBase::Flags", Some("WBase.Flags"))]),
    ("sigMix5", &[("WBase::Scoped", Some("WBase.Scoped")), ("QStringList", None)]),
    ("sigMix6", &[("uint", Some("uint")), ("QColor", Some("QColor")), ("QString", Some("QString")), ("WBase*", Some("WBase")), ("QStringList", None)]),
    ("sigNone", &[]),
];

/// Verification classes of this stream (self-contained: nothing else depends on them).
///   WBase : QWidget — a notifying read/write property of every kind, property names that end in digits or look like
///   `object + property` concatenations, 50 int properties q0..q49, signals with 0–2 arguments, a default-argument
///   pair, a true overload, slots/methods; WGadget/WInner — gadgets with writable members (nested); WDerived : WBase.
pub fn c16_classes() -> Vec<metatype::Class> {
    use metatype::{Class, Enum, Method};
    let mut base = Class::with_supers("WBase", ["QWidget"]);
    base.enums = vec![
        Enum::with_values("Mode", ["ModeA", "ModeB", "ModeC"]),
        Enum::with_values("Flag", ["FlagA", "FlagB", "FlagC"]),
        Enum { name: "Flags".into(), alias: Some("Flag".into()), is_flag: true, values: vec!["FlagA".into(), "FlagB".into(), "FlagC".into()], ..Default::default() },
        // scoped enumerations (`enum class`): the enumerator must be spelled WBase::Scoped::SA
        Enum { name: "Scoped".into(), is_class: true, values: vec!["SA".into(), "SB".into(), "SC".into()], ..Default::default() },
        Enum { name: "Level".into(), is_class: true, values: vec!["Low".into(), "SA".into(), "High".into()], ..Default::default() },
    ];
    let typed: Vec<(&str, &str)> = vec![
        ("i", "int"), ("j", "int"), ("u", "uint"), ("u2", "uint"), ("d", "double"), ("d2", "double"), ("b", "bool"), ("b2", "bool"),
        ("s", "QString"), ("s2", "QString"), ("mode", "WBase::Mode"), ("mode2", "Mode"), ("flags", "WBase::Flags"), ("flags2", "Flags"),
        ("scoped", "WBase::Scoped"), ("scoped2", "Scoped"), ("level", "WBase::Level"),
        ("next", "WBase*"), ("next2", "WBase*"), ("items", "QStringList"), ("items2", "QStringList"), ("ints", "QList<int>"),
        ("ints2", "QList<int>"), ("var", "QVariant"), ("g", "WGadget"), ("g2", "WGadget"),
        ("title", "QString"), ("title1", "QString"), ("windowTitle1", "QString"), ("p1", "int"), ("p11", "int"), ("gBold", "bool"),
        ("bold", "bool"), ("gLabel", "QString"),
        // name-split families (see split_candidates): gadget (QFont) properties, plain properties and signals whose
        // names are concatenations of the words cur/font/bold/family/x/title/changed (+ a digit)
        ("curFont", "QFont"), ("xCurFont", "QFont"), ("curFont1", "QFont"), ("font1", "QFont"),
        ("fontBold", "bool"), ("curFontBold", "bool"), ("xCurFontBold", "bool"), ("bold1", "bool"), ("fontBold1", "bool"),
        ("curFontBold1", "bool"), ("fontFamily", "QString"), ("curFontFamily", "QString"), ("family", "QString"),
        ("xTitle", "QString"), ("changed", "int"), ("boldChanged1", "int"),
    ];
    for (n, t) in &typed {
        base.properties.push(prop(n, t, true));
        base.signals.push(Method::nullary(format!("{n}Changed"), "void"));
    }
    // signal family: notify signals and plain signals whose parameters cover every passing convention
    for (n, t) in SIG_PROPS {
        base.properties.push(prop(n, t, true));
        base.signals.push(Method::with_argument_types(format!("{n}Changed"), "void", [*t]));
    }
    for (n, args) in SIG_PLAIN {
        base.signals.push(Method::with_argument_types(*n, "void", args.iter().map(|(t, _)| *t)));
    }
    for k in 0..50 {
        base.properties.push(prop(&format!("q{k}"), "int", true));
        base.signals.push(Method::nullary(format!("q{k}Changed"), "void"));
    }
    base.signals.extend([
        Method::nullary("fired", "void"),
        Method::with_argument_types("fired2", "void", ["int", "QString"]),
        Method::nullary("defaulted", "void"),
        Method::with_argument_types("defaulted", "void", ["bool"]),
        Method::with_argument_types("over", "void", ["int"]),
        Method::with_argument_types("over", "void", ["QString"]),
        Method::with_argument_types("sigU", "void", ["uint"]),
        Method::with_argument_types("sigD", "void", ["double"]),
        Method::with_argument_types("sigMode", "void", ["WBase::Mode"]),
        Method::with_argument_types("sigFlags", "void", ["WBase::Flags"]),
        Method::with_argument_types("sigScoped", "void", ["WBase::Scoped"]),
        Method::with_argument_types("sigNext", "void", ["WBase*"]),
        Method::with_argument_types("sigItems", "void", ["QStringList"]),
        Method::with_argument_types("sigVar", "void", ["QVariant"]),
        Method::with_argument_types("sigG", "void", ["WGadget"]),
    ]);
    base.slots.extend([
        Method::nullary("reset", "void"),
        Method::with_argument_types("setBoth", "void", ["int", "QString"]),
        Method::with_argument_types("take", "void", ["WBase*"]),
        Method::with_argument_types("takeList", "void", ["QStringList"]),
    ]);
    base.methods.extend([
        Method::nullary("count", "int"),
        Method::with_argument_types("scaled", "double", ["double"]),
        Method::with_argument_types("label", "QString", ["int"]),
        Method::with_argument_types("pick", "WBase*", ["int"]),
        Method::with_argument_types("test", "bool", ["QString", "uint"]),
        Method::nullary("gadget", "WGadget"),
    ]);
    let mut derived = Class::with_supers("WDerived", ["WBase"]);
    derived.properties.push(prop("extra", "int", true));
    derived.signals.push(Method::nullary("extraChanged", "void"));
    let mut gadget = Class::new_gadget("WGadget");
    for (n, t) in [("bold", "bool"), ("size", "int"), ("label", "QString"), ("ratio", "double"), ("inner", "WInner"), ("label1", "QString")] {
        gadget.properties.push(prop(n, t, false));
    }
    let mut inner = Class::new_gadget("WInner");
    for (n, t) in [("depth", "int"), ("tag", "QString")] {
        inner.properties.push(prop(n, t, false));
    }
    vec![base, derived, gadget, inner]
}

fn all_extra_classes() -> Vec<metatype::Class> {
    let mut v = env::adversarial_classes();
    v.extend(c16_classes());
    v
}

/// the metatypes exactly as the translator sees them (after metatype_tweak::apply_all)
fn tweaked_metatypes_json() -> String {
    let mut classes = env::load_qt_classes();
    classes.extend(all_extra_classes());
    metatype_tweak::apply_all(&mut classes);
    let unit = metatype::CompilationUnit { classes, ..Default::default() };
    serde_json::to_string(&vec![unit]).unwrap()
}

// ------------------------------------------------------------------------------------------------ g++ plumbing

impl C16 {
    pub fn new() -> Self {
        C16 { tm: env::load_type_map_with(all_extra_classes()), work: OnceLock::new(), counter: AtomicUsize::new(0) }
    }

    /// per-process work directory under std::env::temp_dir() holding qtdecls.h; removed when the stream is dropped
    fn work(&self) -> Result<&Work, String> {
        self.work
            .get_or_init(|| {
                let dir = tempfile::Builder::new().prefix("qv-c16-").tempdir_in(std::env::temp_dir()).map_err(|e| e.to_string())?;
                let json = dir.path().join("metatypes.json");
                std::fs::write(&json, tweaked_metatypes_json()).map_err(|e| e.to_string())?;
                let out = Command::new("python3")
                    .arg(verif_root().join("tools/gen_mock_decls.py"))
                    .arg("-o")
                    .arg(dir.path().join("qtdecls.h"))
                    .arg(&json)
                    .output()
                    .map_err(|e| format!("python3: {e}"))?;
                if !out.status.success() {
                    return Err(format!("gen_mock_decls failed: {}", String::from_utf8_lossy(&out.stderr)));
                }
                // the declarations themselves must be valid C++
                let tu = dir.path().join("decls_tu.cpp");
                std::fs::write(&tu, "#include \"qtdecls.h\"\n#include <QtDebug>\n").unwrap();
                let errs = run_gxx(dir.path(), &tu, &[]);
                if !errs.is_empty() {
                    return Err(format!("generated declarations do not compile: {}", errs[0].1));
                }
                Ok(Work { dir })
            })
            .as_ref()
            .map_err(|e| e.clone())
    }

    fn batch_dir(&self) -> Result<PathBuf, String> {
        let w = self.work()?;
        let k = self.counter.fetch_add(1, Ordering::Relaxed);
        let d = w.dir.path().join(format!("b{k}"));
        std::fs::create_dir_all(&d).map_err(|e| e.to_string())?;
        Ok(d)
    }
}

/// Runs `g++ -std=c++17 -fsyntax-only`; returns (file name, message) for every `error:` line.
fn run_gxx(decl_dir: &Path, tu: &Path, extra_inc: &[&Path]) -> Vec<(String, String)> {
    let mut cmd = Command::new("g++");
    // canonical messages: ASCII quotes, English
    cmd.env("LC_ALL", "C").env("LANG", "C");
    cmd.args(["-std=c++17", "-fsyntax-only", "-w", "-fno-diagnostics-show-caret", "-fdiagnostics-color=never", "-fmax-errors=400"])
        .arg("-I")
        .arg(verif_root().join("cxx"))
        .arg("-I")
        .arg(decl_dir);
    for i in extra_inc {
        cmd.arg("-I").arg(i);
    }
    cmd.arg(tu);
    let out = match cmd.output() {
        Ok(o) => o,
        Err(e) => return vec![("g++".into(), format!("cannot run g++: {e}"))],
    };
    let text = String::from_utf8_lossy(&out.stderr).into_owned();
    let mut errs = vec![];
    // `required from here` / `In instantiation` lines give the header a static_assert in qtmock.h belongs to
    let mut last_user_file: Option<String> = None;
    for line in text.lines() {
        let file = line.split(':').next().unwrap_or("");
        let base = Path::new(file).file_name().map(|f| f.to_string_lossy().into_owned()).unwrap_or_default();
        if base.starts_with("uisupport_") || base.starts_with("lit") {
            last_user_file = Some(base.clone());
        }
        if let Some(p) = line.find(": error: ").or_else(|| line.find(": fatal error: ")) {
            let msg = line[p + 2..].to_owned();
            let lineno = line[..p].split(':').nth(1).unwrap_or("").to_owned();
            let f = if base.starts_with("uisupport_") || base.starts_with("lit") { base.clone() } else { last_user_file.clone().unwrap_or(base.clone()) };
            errs.push((f, format!("{lineno}: {msg}")));
        }
    }
    if errs.is_empty() && !out.status.success() {
        errs.push(("g++".into(), format!("g++ failed: {}", text.lines().next().unwrap_or(""))));
    }
    errs
}

struct Built {
    name: String,
    header: String,
    ui: String,
}

impl C16 {
    fn translate(&self, name: &str, src: &str) -> Option<Built> {
        let t = env::translate(&self.tm, src, name, Mode::Generate);
        if !t.accepted() {
            return None;
        }
        Some(Built { name: name.to_owned(), header: t.header?, ui: t.ui? })
    }

    /// compile oracle over a batch of documents
    fn compile_batch(&self, docs: &[(String, String)]) -> Sexp {
        let built: Vec<Built> = docs.iter().filter_map(|(n, s)| self.translate(n, s)).collect();
        if built.is_empty() {
            return node("ok", vec![atom("docs"), num(docs.len()), atom("accepted"), num(0), atom("bindings"), num(0)]);
        }
        let dir = match self.batch_dir() {
            Ok(d) => d,
            Err(e) => return node("fail", vec![st(format!("setup: {e}"))]),
        };
        let r = self.compile_in(&dir, docs.len(), &built);
        let _ = std::fs::remove_dir_all(&dir);
        r
    }

    fn compile_in(&self, dir: &Path, ndocs: usize, built: &[Built]) -> Sexp {
        let decl_dir = self.work().unwrap().dir.path().to_owned();
        for b in built {
            let lower = b.name.to_ascii_lowercase();
            std::fs::write(dir.join(format!("{lower}.ui")), &b.ui).unwrap();
            std::fs::write(dir.join(format!("uisupport_{lower}.h")), &b.header).unwrap();
        }
        let out = Command::new("python3").arg(verif_root().join("tools/mini_uic.py")).arg("--dir").arg(dir).output();
        match out {
            Ok(o) if o.status.success() => {}
            Ok(o) => return node("fail", vec![st(format!("mini_uic: {}", String::from_utf8_lossy(&o.stderr)))]),
            Err(e) => return node("fail", vec![st(format!("mini_uic: {e}"))]),
        }
        // headers that do not include <QtDebug> first: a later header must not profit from an earlier include
        let mut order: Vec<&Built> = built.iter().collect();
        order.sort_by_key(|b| b.header.contains("#include <QtDebug>"));
        let mut tu = String::from("#include \"qtdecls.h\"\n");
        for b in &order {
            tu.push_str(&format!("#include \"uisupport_{}.h\"\n", b.name.to_ascii_lowercase()));
        }
        let tu_path = dir.join("tu.cpp");
        std::fs::write(&tu_path, tu).unwrap();
        let t0 = std::time::Instant::now();
        let errs = run_gxx(&decl_dir, &tu_path, &[dir]);
        let ms = t0.elapsed().as_millis();
        let bindings: usize = built.iter().map(|b| b.header.matches("    void update").count()).sum();
        if errs.is_empty() {
            let _ = ms;
            return node("ok", vec![atom("docs"), num(ndocs), atom("accepted"), num(built.len()), atom("bindings"), num(bindings)]);
        }
        let mut per: BTreeMap<String, BTreeSet<String>> = BTreeMap::new();
        for (f, m) in errs {
            // drop the line number from the grouping key but keep the message text
            let msg = m.splitn(2, ": ").nth(1).unwrap_or(&m).to_owned();
            per.entry(f).or_default().insert(msg);
        }
        let mut items = vec![];
        for (f, msgs) in per {
            let name = built
                .iter()
                .find(|b| format!("uisupport_{}.h", b.name.to_ascii_lowercase()) == f)
                .map(|b| b.name.clone())
                .unwrap_or(f);
            let mut v = vec![st(name)];
            v.extend(msgs.into_iter().take(6).map(st));
            items.push(node("doc", v));
        }
        node("fail", items)
    }
}

// ------------------------------------------------------------------------------------------------ header token scan

#[derive(Clone, Debug, PartialEq)]
enum Tok {
    Id(String),
    Num(String),
    /// spelling between the quotes, escapes untouched
    Str(String),
    P(String),
    /// preprocessor line
    Pp(String),
}

fn tokenize(src: &str) -> Result<Vec<Tok>, String> {
    let cs: Vec<char> = src.chars().collect();
    let mut i = 0;
    let mut out = vec![];
    let mut line_start = true;
    while i < cs.len() {
        let c = cs[i];
        if c == '\n' {
            line_start = true;
            i += 1;
            continue;
        }
        if c.is_whitespace() {
            i += 1;
            continue;
        }
        if c == '#' && line_start {
            let s = i;
            while i < cs.len() && cs[i] != '\n' {
                i += 1;
            }
            out.push(Tok::Pp(cs[s..i].iter().collect::<String>().trim().to_owned()));
            continue;
        }
        line_start = false;
        if c == '/' && i + 1 < cs.len() && cs[i + 1] == '/' {
            while i < cs.len() && cs[i] != '\n' {
                i += 1;
            }
            continue;
        }
        if c.is_ascii_alphabetic() || c == '_' {
            let s = i;
            while i < cs.len() && (cs[i].is_ascii_alphanumeric() || cs[i] == '_') {
                i += 1;
            }
            out.push(Tok::Id(cs[s..i].iter().collect()));
            continue;
        }
        if c.is_ascii_digit() {
            let s = i;
            while i < cs.len() {
                let d = cs[i];
                if d.is_ascii_alphanumeric() || d == '.' || d == '_' {
                    i += 1;
                } else if (d == '+' || d == '-') && matches!(cs[i - 1], 'e' | 'E' | 'p' | 'P') {
                    i += 1;
                } else {
                    break;
                }
            }
            out.push(Tok::Num(cs[s..i].iter().collect()));
            continue;
        }
        if c == '"' {
            i += 1;
            let s = i;
            loop {
                if i >= cs.len() || cs[i] == '\n' {
                    return Err("unterminated string literal".into());
                }
                if cs[i] == '\\' {
                    i += 2;
                    continue;
                }
                if cs[i] == '"' {
                    break;
                }
                i += 1;
            }
            out.push(Tok::Str(cs[s..i.min(cs.len())].iter().collect()));
            i += 1;
            continue;
        }
        let two: String = cs[i..(i + 2).min(cs.len())].iter().collect();
        if ["->", "::", "<<", ">>", "&&", "||", "==", "!=", "<=", ">=", "|=", "&=", "+=", "-=", "^="].contains(&two.as_str()) {
            out.push(Tok::P(two));
            i += 2;
            continue;
        }
        out.push(Tok::P(c.to_string()));
        i += 1;
    }
    Ok(out)
}

#[derive(Debug, Default)]
struct Scan {
    includes_sys: Vec<String>,
    includes_quote: Vec<String>,
    class_name: String,
    /// `this->name(` inside `void setup()`, in order
    setup_calls: Vec<String>,
    /// every `this->(setup|update|eval|on)…(` call in the header: (caller function, callee)
    calls: Vec<(String, String)>,
    /// member functions defined at class level, in order (the constructor and `setup` excluded)
    defs: Vec<String>,
    all_defs: Vec<String>,
    index_enum: Vec<String>,
    /// (update function, enumerator used in `static_cast<unsigned>(BindingIndex::X)`)
    index_uses: Vec<(String, String)>,
    guard: Option<usize>,
    guard_decls: usize,
    observers: Vec<(String, usize)>,
    /// (function, alias target, max index used + 1)
    observer_uses: Vec<(String, String, usize)>,
    std_names: BTreeSet<String>,
    uses_qdebug: bool,
    /// string literals in order: (is QStringLiteral argument, spelling), the tr context and the assert text excluded
    lits: Vec<(bool, String)>,
    /// qualified names in operand position inside function bodies (= enumerator operands), in order
    enums: Vec<String>,
    /// occurrences of `static_cast<int>(` inside function bodies
    int_casts: usize,
    guard_index_exprs_ok: bool,
}

fn is_p(t: &Tok, s: &str) -> bool {
    matches!(t, Tok::P(p) if p == s)
}
fn id_of(t: &Tok) -> Option<&str> {
    match t {
        Tok::Id(s) => Some(s),
        _ => None,
    }
}

fn is_generated_fn(name: &str) -> bool {
    ["setup", "update", "eval", "on"].iter().any(|p| name.starts_with(p) && name.len() > p.len())
}

fn scan_header(h: &str) -> Result<Scan, String> {
    let toks = tokenize(h)?;
    let mut sc = Scan { guard_index_exprs_ok: true, ..Default::default() };
    for t in &toks {
        if let Tok::Pp(l) = t {
            if let Some(r) = l.strip_prefix("#include") {
                let r = r.trim();
                if r.starts_with('<') {
                    sc.includes_sys.push(r.trim_matches(|c| c == '<' || c == '>').to_owned());
                } else {
                    sc.includes_quote.push(r.trim_matches('"').to_owned());
                }
            }
        }
    }
    let toks: Vec<Tok> = toks.into_iter().filter(|t| !matches!(t, Tok::Pp(_))).collect();
    let n = toks.len();
    let mut depth = 0usize;
    let mut i = 0;
    let mut cur_fn: Option<(String, usize)> = None; // (name, depth of its body)
    let mut in_enum = false;
    let mut alias: Option<String> = None;
    let mut max_obs: Option<usize> = None;
    while i < n {
        let t = &toks[i];
        match t {
            Tok::P(p) if p == "{" => {
                depth += 1;
            }
            Tok::P(p) if p == "}" => {
                if depth == 0 {
                    return Err("unbalanced braces".into());
                }
                depth -= 1;
                if in_enum && depth == 2 {
                    in_enum = false;
                }
                if let Some((name, d)) = &cur_fn {
                    if depth < *d {
                        if alias.is_some() || max_obs.is_some() {
                            sc.observer_uses.push((name.clone(), alias.clone().unwrap_or_default(), max_obs.map(|m| m + 1).unwrap_or(0)));
                        }
                        cur_fn = None;
                        alias = None;
                        max_obs = None;
                    }
                }
            }
            Tok::Id(s) if s == "class" && depth == 1 && sc.class_name.is_empty() => {
                if let Some(nm) = toks.get(i + 1).and_then(id_of) {
                    sc.class_name = nm.to_owned();
                }
            }
            Tok::Id(s) if s == "enum" && depth == 2 => {
                // enum class BindingIndex : unsigned {
                if toks.get(i + 2).and_then(id_of) == Some("BindingIndex") {
                    let mut j = i;
                    while j < n && !is_p(&toks[j], "{") {
                        j += 1;
                    }
                    j += 1;
                    while j < n && !is_p(&toks[j], "}") {
                        if let Some(e) = id_of(&toks[j]) {
                            sc.index_enum.push(e.to_owned());
                        }
                        j += 1;
                    }
                    i = j + 1; // past `}`
                    continue;
                }
            }
            Tok::Id(s) if depth == 2 && cur_fn.is_none() && toks.get(i + 1).map(|t| is_p(t, "(")).unwrap_or(false) => {
                // member function definition?  name ( ... ) [: inits] {
                let mut j = i + 1;
                let mut pd = 0;
                while j < n {
                    if is_p(&toks[j], "(") {
                        pd += 1;
                    } else if is_p(&toks[j], ")") {
                        pd -= 1;
                        if pd == 0 {
                            break;
                        }
                    }
                    j += 1;
                }
                let after = toks.get(j + 1);
                if after.map(|t| is_p(t, "{") || is_p(t, ":")).unwrap_or(false) {
                    sc.all_defs.push(s.clone());
                    if s != &sc.class_name && s != "setup" {
                        sc.defs.push(s.clone());
                    }
                    cur_fn = Some((s.clone(), 3));
                    // skip a constructor's init list up to the body
                    let mut k = j + 1;
                    while k < n && !is_p(&toks[k], "{") {
                        k += 1;
                    }
                    i = k;
                    continue;
                }
            }
            Tok::Id(s) if depth == 2 && cur_fn.is_none() && s == "bindingGuard_" => {
                sc.guard_decls += 1;
                if is_p(&toks[i + 1], "[") {
                    if let Tok::Num(v) = &toks[i + 2] {
                        sc.guard = v.parse().ok();
                    }
                }
            }
            Tok::Id(s) if depth == 2 && cur_fn.is_none() && s == "PropertyObserver" => {
                // PropertyObserver observedX_[K];
                if let (Some(nm), Some(Tok::P(b)), Some(Tok::Num(v))) = (toks.get(i + 1).and_then(id_of), toks.get(i + 2), toks.get(i + 3)) {
                    if b == "[" {
                        sc.observers.push((nm.to_owned(), v.parse().map_err(|_| "bad observer array size")?));
                    }
                }
            }
            _ => {}
        }
        if let Some((fname, _)) = &cur_fn {
            // this->callee(
            if id_of(t) == Some("this") && toks.get(i + 1).map(|t| is_p(t, "->")).unwrap_or(false) {
                if let (Some(callee), Some(paren)) = (toks.get(i + 2).and_then(id_of), toks.get(i + 3)) {
                    if is_p(paren, "(") && is_generated_fn(callee) {
                        sc.calls.push((fname.clone(), callee.to_owned()));
                        if fname == "setup" {
                            sc.setup_calls.push(callee.to_owned());
                        }
                    }
                }
            }
            if id_of(t) == Some("BindingIndex") && toks.get(i + 1).map(|t| is_p(t, "::")).unwrap_or(false) {
                if let Some(e) = toks.get(i + 2).and_then(id_of) {
                    sc.index_uses.push((fname.clone(), e.to_owned()));
                }
            }
            if id_of(t) == Some("bindingGuard_") {
                // must be indexed by `index >> 5`
                let ok = is_p(&toks[i + 1], "[") && id_of(&toks[i + 2]) == Some("index") && is_p(&toks[i + 3], ">>") && toks[i + 4] == Tok::Num("5".into()) && is_p(&toks[i + 5], "]");
                sc.guard_index_exprs_ok &= ok;
            }
            if id_of(t) == Some("observed") {
                if is_p(&toks[i + 1], "=") {
                    alias = toks.get(i + 2).and_then(id_of).map(|s| s.to_owned());
                } else if is_p(&toks[i + 1], "[") {
                    match &toks[i + 2] {
                        Tok::Num(v) => {
                            let k: usize = v.parse().map_err(|_| "bad observer index")?;
                            max_obs = Some(max_obs.map(|m| m.max(k)).unwrap_or(k));
                        }
                        _ => return Err("non-literal observer index".into()),
                    }
                }
            }
            if id_of(t) == Some("std") && toks.get(i + 1).map(|t| is_p(t, "::")).unwrap_or(false) {
                if let Some(nm) = toks.get(i + 2).and_then(id_of) {
                    sc.std_names.insert(nm.to_owned());
                }
            }
            if let Some(id) = id_of(t) {
                if ["qDebug", "qInfo", "qWarning", "qCritical"].contains(&id) {
                    sc.uses_qdebug = true;
                }
            }
            // A::B(::C)* that is neither a call, a type (declaration, template argument), a pointer to member nor
            // std::/BindingIndex::  — what remains in generated bodies are enumerator operands
            if id_of(t) == Some("static_cast")
                && toks.get(i + 1).map(|t| is_p(t, "<")).unwrap_or(false)
                && toks.get(i + 2).and_then(id_of) == Some("int")
                && toks.get(i + 3).map(|t| is_p(t, ">")).unwrap_or(false)
                && toks.get(i + 4).map(|t| is_p(t, "(")).unwrap_or(false)
            {
                sc.int_casts += 1;
            }
            if let Tok::Id(first) = t {
                let starts = i == 0 || !is_p(&toks[i - 1], "::");
                if starts && toks.get(i + 1).map(|t| is_p(t, "::")).unwrap_or(false) {
                    let mut j = i;
                    let mut parts = vec![first.clone()];
                    while toks.get(j + 1).map(|t| is_p(t, "::")).unwrap_or(false) {
                        match toks.get(j + 2).and_then(id_of) {
                            Some(nm) => {
                                parts.push(nm.to_owned());
                                j += 2;
                            }
                            None => break,
                        }
                    }
                    let next = toks.get(j + 1);
                    let prev = if i >= 1 { Some(&toks[i - 1]) } else { None };
                    let prevprev = if i >= 2 { Some(&toks[i - 2]) } else { None };
                    let is_call = next.map(|t| is_p(t, "(") || is_p(t, "<") || is_p(t, "{")).unwrap_or(false);
                    let is_decl = next.map(|t| matches!(t, Tok::Id(_)) || is_p(t, "*") && matches!(toks.get(j + 2), Some(Tok::Id(_))) && matches!(toks.get(j + 3), Some(Tok::P(p)) if p == ";")).unwrap_or(false);
                    let is_targ = prev.map(|t| is_p(t, "<")).unwrap_or(false) && next.map(|t| is_p(t, ">") || is_p(t, "*")).unwrap_or(false);
                    let is_pmf = prev.map(|t| is_p(t, "&")).unwrap_or(false) && prevprev.map(|t| is_p(t, "(")).unwrap_or(false);
                    let reserved = first == "std" || first == "BindingIndex";
                    if !(is_call || is_decl || is_targ || is_pmf || reserved) {
                        sc.enums.push(parts.join("::"));
                    }
                }
            }
            if let Tok::Str(s) = t {
                let prev = if i >= 2 { id_of(&toks[i - 2]) } else { None };
                let is_ctx = prev == Some("translate") && is_p(&toks[i - 1], "(");
                let is_assert = s == "binding loop detected";
                if !is_ctx && !is_assert {
                    let q = prev == Some("QStringLiteral") && is_p(&toks[i - 1], "(");
                    sc.lits.push((q, s.clone()));
                }
            }
        }
        i += 1;
    }
    if depth != 0 {
        return Err("unbalanced braces at end".into());
    }
    Ok(sc)
}

/// the scan oracle (b)
fn check_scan(sc: &Scan, type_name: &str) -> Result<Sexp, String> {
    let mut seen = BTreeSet::new();
    for d in &sc.all_defs {
        if !seen.insert(d.clone()) {
            return Err(format!("member function {d} is defined twice"));
        }
    }
    for (caller, callee) in &sc.calls {
        let k = sc.all_defs.iter().filter(|d| *d == callee).count();
        if k != 1 {
            return Err(format!("{caller} calls this->{callee}() which has {k} definitions"));
        }
    }
    // every generated function is used: setupX / updateX from setup(), evalX from an update/eval, onX from a setupX
    for d in &sc.defs {
        if !sc.calls.iter().any(|(_, c)| c == d) {
            return Err(format!("member function {d} is never called"));
        }
    }
    let enum_set: BTreeSet<&String> = sc.index_enum.iter().collect();
    if enum_set.len() != sc.index_enum.len() {
        return Err("BindingIndex enumerators are not pairwise distinct".into());
    }
    let updates: Vec<&String> = sc.defs.iter().filter(|d| d.starts_with("update")).collect();
    if updates.len() != sc.index_enum.len() {
        return Err(format!("{} update functions but {} BindingIndex enumerators", updates.len(), sc.index_enum.len()));
    }
    let mut used = BTreeSet::new();
    for (f, e) in &sc.index_uses {
        if !enum_set.contains(e) {
            return Err(format!("{f} uses BindingIndex::{e} which is not declared"));
        }
        if !used.insert(e.clone()) {
            return Err(format!("BindingIndex::{e} is used by two update functions"));
        }
        if f != &format!("update{e}") {
            return Err(format!("{f} uses the index of another binding ({e})"));
        }
    }
    if used.len() != updates.len() {
        return Err("an update function has no binding index".into());
    }
    let n = sc.index_enum.len();
    match (sc.guard, sc.guard_decls) {
        (None, 0) => {
            if n > 0 {
                return Err("bindings exist but no bindingGuard_ is declared".into());
            }
        }
        (Some(g), 1) => {
            if g < 1 {
                return Err("zero-length bindingGuard_ array".into());
            }
            if g * 32 < n {
                return Err(format!("bindingGuard_[{g}] too small for {n} bindings"));
            }
            if g != (n + 31) / 32 {
                return Err(format!("bindingGuard_[{g}] is not ceil({n}/32)"));
            }
        }
        _ => return Err("bindingGuard_ declared more than once or without a size".into()),
    }
    if !sc.guard_index_exprs_ok {
        return Err("bindingGuard_ is indexed by something else than `index >> 5`".into());
    }
    let mut obs_names = BTreeSet::new();
    for (nm, k) in &sc.observers {
        if *k == 0 {
            return Err(format!("zero-length observer array {nm}"));
        }
        if !obs_names.insert(nm.clone()) {
            return Err(format!("observer array {nm} declared twice"));
        }
    }
    let mut aliased = BTreeSet::new();
    for (f, target, need) in &sc.observer_uses {
        let Some((_, size)) = sc.observers.iter().find(|(nm, _)| nm == target) else {
            return Err(format!("{f} uses observer array `{target}` which is not declared"));
        };
        if need > size {
            return Err(format!("{f} uses observed[{}] but {target} has {size} elements", need - 1));
        }
        if target != &format!("observed{}_", f.strip_prefix("eval").unwrap_or(f)) {
            return Err(format!("{f} uses the observer array of another function ({target})"));
        }
        if !aliased.insert(target.clone()) {
            return Err(format!("observer array {target} is shared by two functions"));
        }
    }
    // includes: used ⇒ included (the property); the converse is recorded, not demanded
    let std_table: HashMap<&str, &str> = [("max", "algorithm"), ("min", "algorithm"), ("fmod", "cmath"), ("numeric_limits", "limits")].into_iter().collect();
    for nm in &sc.std_names {
        match std_table.get(nm.as_str()) {
            Some(inc) => {
                if !sc.includes_sys.iter().any(|i| i == inc) {
                    return Err(format!("std::{nm} is used but <{inc}> is not included"));
                }
            }
            None => return Err(format!("std::{nm} is used; the scanner does not know its header")),
        }
    }
    if sc.uses_qdebug && !sc.includes_sys.iter().any(|i| i == "QtDebug" || i == "QDebug") {
        return Err("qDebug()/qInfo()/qWarning()/qCritical() is used but <QtDebug> is not included".into());
    }
    let ui_h = format!("ui_{}.h", type_name.to_ascii_lowercase());
    if sc.includes_quote != vec![ui_h.clone()] {
        return Err(format!("expected exactly #include \"{ui_h}\", found {:?}", sc.includes_quote));
    }
    let superfluous = sc.includes_sys.iter().filter(|i| match i.as_str() {
        "algorithm" => !sc.std_names.contains("max") && !sc.std_names.contains("min"),
        "QtDebug" => !sc.uses_qdebug,
        _ => false,
    }).count();
    Ok(node("ok", vec![atom("bindings"), num(n), atom("defs"), num(sc.all_defs.len()), atom("observers"), num(sc.observers.len()), atom("unused-includes"), num(superfluous)]))
}

fn inventory(sc: &Scan) -> Sexp {
    node("inv", vec![
        node("includes", sc.includes_sys.iter().map(|s| st(s.clone())).collect()),
        node("calls", sc.setup_calls.iter().map(|s| st(s.clone())).collect()),
        node("index", sc.index_enum.iter().map(|s| st(s.clone())).collect()),
        node("defs", sc.defs.iter().map(|s| st(s.clone())).collect()),
        node("guard", vec![sc.guard.map(num).unwrap_or(atom("none"))]),
        node("observers", sc.observers.iter().map(|(n, k)| list(vec![st(n.clone()), num(*k)])).collect()),
        node("lits", sc.lits.iter().map(|(q, s)| node(if *q { "q" } else { "c" }, vec![st(s.clone())])).collect()),
        node("enums", sc.enums.iter().map(|s| st(s.clone())).collect()),
        node("int-casts", vec![num(sc.int_casts)]),
    ])
}

// ------------------------------------------------------------------------------------------------ literals: compile AND run

fn cxx_u16_units(s: &str) -> Vec<u32> {
    s.encode_utf16().map(|u| u as u32).collect()
}

/// Compiles one program holding every spelling on its own line and runs it.  For each (is_u16, spelling) returns
/// Ok(code units / bytes) or Err(first g++ message).  Lines that do not compile are blanked and the rest is rebuilt.
fn gxx_decode(dir: &Path, lits: &[(bool, String)]) -> Result<Vec<Result<Vec<u32>, String>>, String> {
    const PRE: &str = "#include <cstdio>\n#include <cstddef>\ntemplate <size_t N> static void p16(int k, const char16_t (&s)[N]) { printf(\"%d\", k); for (size_t i = 0; i + 1 < N; ++i) printf(\" %x\", (unsigned)s[i]); printf(\"\\n\"); }\ntemplate <size_t N> static void p8(int k, const char (&s)[N]) { printf(\"%d\", k); for (size_t i = 0; i + 1 < N; ++i) printf(\" %x\", (unsigned)(unsigned char)s[i]); printf(\"\\n\"); }\nint main() {\n";
    let pre_lines = PRE.matches('\n').count();
    let mut bad: BTreeMap<usize, String> = BTreeMap::new();
    let src = dir.join("lit.cpp");
    let exe = dir.join("lit.out");
    for _round in 0..3 {
        let mut text = String::from(PRE);
        for (k, (u16_, sp)) in lits.iter().enumerate() {
            if bad.contains_key(&k) {
                text.push('\n');
            } else if *u16_ {
                text.push_str(&format!("p16({k}, u\"\" \"{sp}\");\n"));
            } else {
                text.push_str(&format!("p8({k}, \"{sp}\");\n"));
            }
        }
        text.push_str("return 0; }\n");
        std::fs::write(&src, &text).map_err(|e| e.to_string())?;
        let out = Command::new("g++")
            .env("LC_ALL", "C")
            .env("LANG", "C")
            .args(["-std=c++17", "-pedantic-errors", "-O0", "-fno-diagnostics-show-caret", "-fdiagnostics-color=never", "-fmax-errors=0", "-o"])
            .arg(&exe)
            .arg(&src)
            .output()
            .map_err(|e| format!("cannot run g++: {e}"))?;
        if out.status.success() {
            let run = Command::new(&exe).output().map_err(|e| format!("cannot run literal program: {e}"))?;
            let stdout = String::from_utf8_lossy(&run.stdout).into_owned();
            let mut res: Vec<Result<Vec<u32>, String>> = (0..lits.len()).map(|k| Err(bad.get(&k).cloned().unwrap_or_else(|| "no output".into()))).collect();
            for line in stdout.lines() {
                let mut it = line.split(' ');
                let k: usize = it.next().unwrap().parse().map_err(|_| "bad program output")?;
                res[k] = Ok(it.map(|h| u32::from_str_radix(h, 16).unwrap()).collect());
            }
            return Ok(res);
        }
        let err = String::from_utf8_lossy(&out.stderr).into_owned();
        let mut found = false;
        for line in err.lines() {
            if let Some(p) = line.find(": error: ") {
                let mut parts = line[..p].split(':');
                let _file = parts.next();
                if let Some(Ok(ln)) = parts.next().map(|x| x.parse::<usize>()) {
                    if ln > pre_lines && ln - pre_lines - 1 < lits.len() {
                        bad.entry(ln - pre_lines - 1).or_insert_with(|| line[p + 9..].to_owned());
                        found = true;
                    }
                }
            }
        }
        if !found {
            return Err(format!("literal program does not compile: {}", err.lines().next().unwrap_or("")));
        }
    }
    Err("literal program still does not compile after removing the offending lines".into())
}

fn literal_doc(s: &str, style: u32) -> String {
    let lit = qml_string_literal(s, style);
    let root = Obj::new("QWidget")
        .with_id("root")
        .child(Obj::new("QLineEdit").with_id("le"))
        .child(Obj::new("QPushButton").with_id("pb").bind("onClicked", &format!("console.log({lit})")))
        .child(Obj::new("QLabel").with_id("lb").bind("text", &format!("le.text + {lit}")).bind("toolTip", &format!("qsTr({lit}) + le.text")));
    root.to_qml()
}

fn lit_class(spelling: &str) -> &'static str {
    let cs: Vec<char> = spelling.chars().collect();
    if spelling.contains("\\u{") {
        return "unicode-escape";
    }
    for w in cs.windows(3) {
        if w[0] == '\\' && w[1] == '0' && ('0'..='7').contains(&w[2]) {
            // `\0` must come from a NUL (an escaped backslash is `\\`): count the backslashes before
            return "nul-digit";
        }
    }
    "other"
}

impl C16 {
    fn literals(&self, strings: &[(String, u32)]) -> Sexp {
        let mut lits: Vec<(bool, String)> = vec![];
        let mut owner: Vec<usize> = vec![];
        let mut rejected = 0;
        for (k, (s, style)) in strings.iter().enumerate() {
            let Some(b) = self.translate("Lit", &literal_doc(s, *style)) else {
                rejected += 1;
                continue;
            };
            let sc = match scan_header(&b.header) {
                Ok(sc) => sc,
                Err(e) => return node("fail", vec![node("lit", vec![atom("scan"), st(s.clone()), st(e)])]),
            };
            if sc.lits.len() != 3 {
                return node("fail", vec![node("lit", vec![atom("scan"), st(s.clone()), st(format!("{} literals found, 3 expected", sc.lits.len()))])]);
            }
            for l in sc.lits {
                lits.push(l);
                owner.push(k);
            }
        }
        let dir = match self.batch_dir() {
            Ok(d) => d,
            Err(e) => return node("fail", vec![st(format!("setup: {e}"))]),
        };
        let decoded = gxx_decode(&dir, &lits);
        let _ = std::fs::remove_dir_all(&dir);
        let decoded = match decoded {
            Ok(d) => d,
            Err(e) => return node("fail", vec![node("lit", vec![atom("gxx"), st(""), st(e)])]),
        };
        let mut fails = vec![];
        for (k, ((u16_, sp), d)) in lits.iter().zip(&decoded).enumerate() {
            let src = &strings[owner[k]].0;
            let want: Vec<u32> = if *u16_ { cxx_u16_units(src) } else { src.bytes().map(|b| b as u32).collect() };
            let why = match d {
                Ok(got) if *got == want => continue,
                Ok(got) => format!("denotes {:x?}, source is {:x?}", got, want),
                Err(e) => format!("does not compile: {e}"),
            };
            fails.push(node("lit", vec![atom(lit_class(sp)), st(src.clone()), st(sp.clone()), st(why)]));
        }
        if fails.is_empty() {
            node("ok", vec![atom("strings"), num(strings.len()), atom("rejected"), num(rejected), atom("literals"), num(lits.len())])
        } else {
            fails.truncate(12);
            node("fail", fails)
        }
    }

    /// (spec-cxxlit u16|narrow "spelling"...) → what g++ says each spelling denotes
    fn gxx_spec(&self, u16_: bool, spellings: &[String]) -> Sexp {
        let dir = match self.batch_dir() {
            Ok(d) => d,
            Err(e) => return node("fail", vec![st(format!("setup: {e}"))]),
        };
        let lits: Vec<(bool, String)> = spellings.iter().map(|s| (u16_, s.clone())).collect();
        let decoded = gxx_decode(&dir, &lits);
        let _ = std::fs::remove_dir_all(&dir);
        match decoded {
            Ok(d) => node("decoded", d.into_iter().map(|r| match r {
                Ok(u) => node("units", u.into_iter().map(num).collect()),
                Err(_) => node("ill-formed", vec![]),
            }).collect()),
            Err(e) => node("fail", vec![st(e)]),
        }
    }
}

// ------------------------------------------------------------------------------------------------ generators

fn fixture() -> Vec<Obj> {
    vec![
        Obj::new("QSpinBox").with_id("sb"),
        Obj::new("QSpinBox").with_id("sb2"),
        Obj::new("QDoubleSpinBox").with_id("ds"),
        Obj::new("QCheckBox").with_id("cb"),
        Obj::new("QCheckBox").with_id("cb2"),
        Obj::new("QLineEdit").with_id("le"),
        Obj::new("QLineEdit").with_id("le2"),
        Obj::new("WBase").with_id("v"),
        Obj::new("WBase").with_id("v2"),
        Obj::new("WDerived").with_id("vd"),
    ]
}

fn with_fixture(mut root: Obj) -> Obj {
    for f in fixture() {
        root.children.push(f);
    }
    root
}

/// (type key, dynamic operands, constant operands, target property of a WBase for a value of that type)
const OPERANDS: &[(&str, &[&str], &[&str], &str)] = &[
    ("int", &["sb.value", "v.i"], &["1", "0", "7"], "i"),
    ("uint", &["v.u", "v2.u2"], &["1", "0"], "u"),
    ("double", &["ds.value", "v.d"], &["2.0", "0.5"], "d"),
    ("bool", &["cb.checked", "v.b"], &["true", "false"], "b"),
    ("string", &["le.text", "v.s"], &["\"x\"", "\"\""], "s"),
    ("enum", &["v.mode", "v2.mode2"], &["WBase.ModeA"], "mode"),
    ("flags", &["v.flags", "v2.flags2"], &["WBase.FlagA", "(WBase.FlagA | WBase.FlagB)"], "flags"),
    ("scoped", &["v.scoped", "v2.scoped2"], &["WBase.Scoped.SA", "WBase.Scoped.SC"], "scoped"),
    ("ptr", &["v.next", "v2.next2"], &["null", "v", "vd"], "next"),
    ("slist", &["v.items", "v2.items2"], &["[\"a\"]", "[]"], "items"),
    ("ilist", &["v.ints", "v2.ints2"], &["[1, 2]", "[]"], "ints"),
    ("var", &["v.var"], &[], "var"),
];

const BINARY_OPS: &[(&str, &str)] = &[
    ("+", "same"), ("-", "same"), ("*", "same"), ("/", "same"), ("%", "same"),
    ("&", "same"), ("^", "same"), ("|", "same"),
    (">>", "left"), ("<<", "left"),
    ("&&", "bool"), ("||", "bool"),
    ("==", "bool"), ("!=", "bool"), ("<", "bool"), ("<=", "bool"), (">", "bool"), (">=", "bool"), ("===", "bool"), ("!==", "bool"),
];

/// one probe document per expression: `t.<target>: <expr>` (binding form) or `t.onFired: { let r = <expr> }`
fn probe_doc(expr: &str, target: Option<&str>) -> String {
    let t = match target {
        Some(p) => Obj::new("WBase").with_id("t").bind(p, expr),
        None => Obj::new("WBase").with_id("t").bind("onFired", &format!("function() {{ let r = {expr}; }}")),
    };
    with_fixture(Obj::new("QWidget").with_id("root")).child(t).to_qml()
}

fn stmt_doc(binding: &str, rhs: &str) -> String {
    with_fixture(Obj::new("QWidget").with_id("root")).child(Obj::new("WBase").with_id("t").bind(binding, rhs)).to_qml()
}

fn target_of(ty: &str) -> &'static str {
    OPERANDS.iter().find(|o| o.0 == ty).map(|o| o.3).unwrap_or("i")
}

/// every operator of docs/language.md on every operand type (the type checker decides what is admissible;
/// rejected documents are skipped, accepted ones must compile)
fn operator_probes() -> Vec<(String, String)> {
    let mut v: Vec<(String, String)> = vec![];
    let mut add = |label: String, expr: String, result_ty: Option<&str>| {
        if let Some(t) = result_ty {
            v.push((format!("{label}/binding"), probe_doc(&expr, Some(target_of(t)))));
        }
        v.push((format!("{label}/callback"), probe_doc(&expr, None)));
    };
    for (op, res) in BINARY_OPS {
        for (ty, dynamic, consts, _) in OPERANDS {
            let result = match *res {
                "same" | "left" => *ty,
                _ => "bool",
            };
            let mut pairs: Vec<(String, String)> = vec![];
            if dynamic.len() >= 2 {
                pairs.push((dynamic[0].into(), dynamic[1].into()));
            }
            pairs.push((dynamic[0].into(), dynamic[0].into()));
            for c in *consts {
                pairs.push((dynamic[0].into(), (*c).into()));
                pairs.push(((*c).into(), dynamic[0].into()));
            }
            for (l, r) in pairs {
                add(format!("binary{op}/{ty}"), format!("({l}) {op} ({r})"), Some(result));
            }
        }
        // mixed operand types (mostly rejected by the type checker)
        for (l, r, res_ty) in [
            ("sb.value", "v.u", "int"), ("v.u", "sb.value", "uint"), ("sb.value", "ds.value", "double"), ("v.mode", "v.flags", "flags"),
            ("v.flags", "WBase.FlagB", "flags"), ("v.next", "vd", "ptr"), ("vd", "v.next", "ptr"), ("sb.value", "cb.checked", "int"),
            ("v.u", "3", "uint"), ("(sb.value as uint)", "3", "uint"), ("v.flags", "v.mode", "flags"), ("le.text", "sb.value", "string"),
        ] {
            let result = match *res { "same" | "left" => res_ty, _ => "bool" };
            add(format!("binary{op}/mixed"), format!("({l}) {op} ({r})"), Some(result));
        }
    }
    for op in ["+", "-", "~", "!"] {
        for (ty, dynamic, _, _) in OPERANDS {
            let result = if op == "!" { "bool" } else { *ty };
            add(format!("unary{op}/{ty}"), format!("{op}({})", dynamic[0]), Some(result));
        }
    }
    // casts
    for (ty, dynamic, consts, _) in OPERANDS {
        for (to, to_ty) in [("int", "int"), ("uint", "uint"), ("double", "double"), ("bool", "bool"), ("QString", "string"), ("void", ""), ("QStringList", "slist"), ("WBase", "ptr"), ("QVariant", "var")] {
            let mut xs: Vec<&str> = vec![dynamic[0]];
            xs.extend(consts.iter().take(1));
            for x in xs {
                add(format!("cast/{ty}-as-{to}"), format!("({x}) as {to}"), if to_ty.is_empty() { None } else { Some(to_ty) });
            }
        }
    }
    // ternary
    for (ty, dynamic, consts, _) in OPERANDS {
        let mut alts: Vec<String> = dynamic.iter().map(|s| s.to_string()).collect();
        alts.extend(consts.iter().map(|s| s.to_string()));
        for a in &alts {
            for b in &alts {
                add(format!("ternary/{ty}"), format!("cb.checked ? ({a}) : ({b})"), Some(*ty));
            }
        }
    }
    // Math.max / Math.min
    for f in ["Math.max", "Math.min"] {
        for (ty, dynamic, consts, _) in OPERANDS {
            let mut args: Vec<(String, String)> = vec![(dynamic[0].into(), dynamic[0].into())];
            if dynamic.len() > 1 {
                args.push((dynamic[0].into(), dynamic[1].into()));
            }
            for c in *consts {
                args.push((dynamic[0].into(), (*c).into()));
                args.push(((*c).into(), dynamic[0].into()));
            }
            for (a, b) in args {
                add(format!("{f}/{ty}"), format!("{f}({a}, {b})"), Some(*ty));
            }
        }
        add(format!("{f}/uint-cast"), format!("{f}((sb.value as uint), 1) as int"), Some("int"));
        add(format!("{f}/nested"), format!("{f}({f}(sb.value, 3), v.i)"), Some("int"));
    }
    // console.*
    for lv in ["log", "debug", "info", "warn", "error"] {
        for (ty, dynamic, consts, target) in OPERANDS {
            let mut args: Vec<&str> = vec![dynamic[0]];
            args.extend(consts.iter().take(1));
            v.push((format!("console.{lv}/{ty}/callback"), stmt_doc("onFired", &format!("console.{lv}({})", args.join(", ")))));
            v.push((format!("console.{lv}/{ty}/binding"), stmt_doc(target, &format!("{{ console.{lv}(\"v\", {}); return {} }}", args[0], dynamic[0]))));
        }
        v.push((format!("console.{lv}/empty"), stmt_doc("onFired", &format!("console.{lv}()"))));
    }
    // subscripts, lists, methods
    for (label, target, rhs) in [
        ("subscript", "s", "v.items[0]"), ("subscript", "s", "v.items[sb.value]"), ("subscript", "s", "v.items[v.u]"), ("subscript", "i", "v.ints[sb.value + 1]"),
        ("subscript", "s", "[le.text, \"x\"][sb.value]"),
        ("subscript-assign", "onFired", "{ let l = v.items; l[0] = \"x\"; l[sb.value] = le.text; v.items = l }"),
        ("subscript-assign", "onFired", "{ let l = v.ints; l[v.u] = sb.value; l[1] = 2; v.ints = l }"),
        ("list", "items", "[le.text, \"x\"]"), ("list", "items", "[le.text]"), ("list", "ints", "[sb.value, 1]"), ("list", "items", "cb.checked ? v.items : []"),
        ("list", "onFired", "{ v.items = []; v.ints = []; v.items = [\"a\", \"b\"] }"),
        ("method", "i", "v.count() + sb.value"), ("method", "d", "v.scaled(ds.value)"), ("method", "s", "v.label(sb.value)"), ("method", "next", "v.pick(sb.value)"),
        ("method", "b", "v.test(le.text, v.u)"), ("method", "b", "v.test(\"x\", 1) && cb.checked"), ("method", "s", "le.text.arg(sb.value)"),
        ("method", "s", "qsTr(\"%1 %2\").arg(v.u).arg(ds.value)"), ("method", "s", "\"%1\".arg(le2.text) + le.text"), ("method", "b", "le.text.isEmpty()"),
        ("method", "b", "v.items.isEmpty()"), ("method", "b", "v.ints.isEmpty() || cb.checked"), ("method", "s", "v.gadget().label + le.text"),
        ("method", "onFired", "{ v.reset(); v.setBoth(1, \"x\"); v.setBoth(sb.value, le.text); v.take(vd); v.take(null); v.takeList([]); v.takeList([\"a\"]); v.takeList(v.items) }"),
        ("assign", "onFired", "{ v.next = vd; v.next = null; v.next = v2.next2; v.u = 3; v.u = v2.u2; v.d = ds.value; v.mode = WBase.ModeB; v.flags = WBase.FlagA | WBase.FlagC; v.flags = WBase.FlagA; v.var = v2.var; v.g = v2.g2 }"),
        ("gadget-read", "s", "v.g.label + le.text"), ("gadget-read", "i", "v.g.inner.depth + sb.value"),
        ("gadget-write", "onFired", "{ let g = v.g; g.bold = cb.checked; g.label = le.text; v.g = g }"),
        ("variant", "i", "(v.var as int) + sb.value"), ("variant", "s", "(v.var as QString) + le.text"), ("variant", "d", "v.var as double"), ("variant", "b", "v.var as bool"),
        ("variant", "items", "v.var as QStringList"), ("variant", "next", "v.var as WBase"), ("variant", "mode", "v.var as WBase.Mode"),
        ("float-literal", "d", "ds.value + 1e400"), ("float-literal", "d", "ds.value - 1e400"), ("float-literal", "d", "ds.value + 1e308"), ("float-literal", "d", "ds.value * 5e-324"),
        ("float-literal", "d", "ds.value + 0.1"), ("float-literal", "d", "ds.value * -0.0"), ("float-literal", "d", "ds.value + 1e21"), ("float-literal", "d", "ds.value + 123456789.125"),
        ("float-literal", "d", "ds.value + 1.0"), ("float-literal", "d", "ds.value / 3.0e-5"),
        ("int-literal", "i", "sb.value + 2147483647"), ("int-literal", "i", "sb.value + 4294967295"), ("int-literal", "u", "v.u + 4294967295"), ("int-literal", "i", "sb.value - 2147483648"),
        ("int-literal", "i", "sb.value + 9223372036854775807"), ("int-literal", "i", "sb.value + 0x7fffffff"), ("int-literal", "u", "v.u & 0xffffffff"),
        ("statement", "i", "{ let a = sb.value; const b: int = 2; if (a > b) { return a } else if (a < 0) { return -a } return b }"),
        ("statement", "s", "{ switch (sb.value) { case 0: return \"zero\"; case 1: case 2: return le.text; default: break; } return \"many\" }"),
        ("statement", "onFired", "{ let p = cb.checked ? v : null; if (p !== null) { p.i = 1 } }"),
        ("statement", "onFired", "{ switch (v.mode) { case WBase.ModeA: v.i = 1; break; case WBase.ModeB: v.i = 2; default: v.i = 3 } }"),
        ("gadget-block", "font.pointSize", "{ if (cb.checked) { return 20 } else { return sb.value } }"),
        ("gadget-block", "font.pointSize", "{ if (cb.checked) return 20; return sb.value }"),
        ("gadget-block", "font.family", "{ switch (sb.value) { case 0: return \"a\"; case 1: return le.text + \"b\"; default: return le.text } }"),
        ("gadget-block", "font.bold", "{ let c = cb.checked; if (c) { if (sb.value > 1) return true; return false } return v.b }"),
        ("gadget-block", "sizePolicy.horizontalStretch", "{ if (cb.checked) return sb.value; return Math.min(sb.value, 3) }"),
        ("gadget-block", "font.pointSize", "{ if (cb.checked) return 20; }"),
        ("gadget-block", "font.family", "{ if (cb.checked) { return le.text } }"),
        ("gadget-block", "indent", "{ if (cb.checked) return 20; }"),
        ("observer", "s", "(cb.checked ? le : le2).text"), ("observer", "s", "(cb.checked ? le : le2).text + (cb2.checked ? le2 : le).text + v.next.s"),
        ("observer", "i", "v.next.next.i + (cb.checked ? v : v2).next.i"), ("observer", "b", "{ let w = cb.checked ? v : null; return w !== null ? w.b : false }"),
        ("callback-args", "onFired2", "function(n: int, s: QString) { v.setBoth(n, s) }"), ("callback-args", "onFired2", "function(n: int) { v.i = n }"),
        ("callback-args", "onFired2", "function() { v.i = 0 }"), ("callback-args", "onDefaulted", "function(on: bool) { v.b = on }"), ("callback-args", "onDefaulted", "v.reset()"),
        ("callback-args", "onSigU", "function(u: uint) { v.u = u }"), ("callback-args", "onSigD", "function(d: double) { v.d = d }"),
        ("callback-args", "onSigMode", "function(m: WBase.Mode) { v.mode = m }"), ("callback-args", "onSigFlags", "function(f: WBase.Flags) { v.flags = f }"),
        ("callback-args", "onSigNext", "function(p: WBase) { v.next = p }"), ("callback-args", "onSigItems", "function(l: QStringList) { v.items = l }"),
        ("callback-args", "onSigVar", "function(x: QVariant) { v.var = x }"), ("callback-args", "onSigG", "function(g: WGadget) { v.g = g }"),
        ("callback-args", "onOver", "function(n: int) { v.i = n }"), ("callback-args", "onWindowTitleChanged", "function(t: QString) { v.s = t }"),
        ("tr", "s", "qsTr(\"Hello %1\").arg(le.text)"), ("tr", "s", "cb.checked ? qsTr(\"on\") : qsTr(\"off\")"),
    ] {
        v.push((format!("{label}"), stmt_doc(target, rhs)));
    }
    v
}

fn gen_char(rng: &mut Rng) -> char {
    match rng.below(16) {
        0 => *rng.pick(&['"', '\\', '\'', '?', '%', '/', '{', '}', '$']),
        1 => char::from_u32(rng.range(1, 31) as u32).unwrap(),
        2 => *rng.pick(&['\0', '\t', '\n', '\r', '\u{7f}', '\u{1b}']),
        3 | 4 => char::from_u32(rng.range(0x30, 0x39) as u32).unwrap(),
        5 => char::from_u32(rng.range(0x80, 0xff) as u32).unwrap(),
        6 => *rng.pick(&['\u{301}', '\u{200c}', '\u{200d}', '\u{fe0f}', '\u{ad}', '\u{61c}', '\u{feff}', '\u{2028}', '\u{2029}', '\u{e000}', '\u{ffff}', '\u{fffd}', '\u{3000}', '\u{a0}']),
        7 => *rng.pick(&['\u{10000}', '\u{1f600}', '\u{10ffff}', '\u{e0100}', '\u{1d165}', '\u{2ffff}', '\u{f0000}']),
        8 => char::from_u32(rng.range(0x370, 0x3ff) as u32).unwrap_or('λ'),
        9 => char::from_u32(rng.range(0x4e00, 0x4eff) as u32).unwrap(),
        10 => *rng.pick(&['a', 'b', 'f', 'n', 'r', 't', 'v', 'x', 'u', 'U', 'e']),
        _ => char::from_u32(rng.range(0x20, 0x7e) as u32).unwrap(),
    }
}

fn gen_string(rng: &mut Rng) -> String {
    let n = if rng.chance(1, 12) { 0 } else { 1 + rng.below(7) };
    (0..n).map(|_| gen_char(rng)).collect()
}

fn fixed_strings() -> Vec<String> {
    [
        "", "plain", "q\u{1}z", "\0", "\012", "\08", "\0a", "a\0", "\0\0", "\u{1b}[0m", "tab\there", "line\nbreak", "cr\rlf", "quote\"q", "back\\slash", "\\n", "\\u{1}",
        "it's", "??/", "??=", "%1 %2", "a\u{301}", "\u{301}", "e\u{200d}x", "\u{fe0f}", "\u{ad}", "\u{7f}", "\u{80}", "\u{9f}", "\u{a0}", "é", "日本語", "\u{2028}", "\u{feff}",
        "\u{e000}", "\u{ffff}", "\u{10000}", "\u{1f600}", "\u{10ffff}", "\u{e0100}", "\\", "\"", "\\\"", "\\0", "\\012", "\u{1}2", "\u{7}7", "x\u{0}9",
    ]
    .iter()
    .map(|s| s.to_string())
    .collect()
}

/// spellings for the validation of Spec.CxxLit against g++: what Rust's Debug prints for random strings plus random
/// well- and ill-formed C++ escape sequences
/// numeric escapes whose value does not fit the element type are implementation-defined (g++ truncates with a
/// warning); the specification calls them ill-formed and the generator does not produce them
/// sample spellings in the style of the repaired printer (3-digit octal escapes); only an input of the spec validation
fn octal_style_spelling(s: &str) -> String {
    let mut out = String::new();
    for c in s.chars() {
        match c {
            '"' => out.push_str("\\\""),
            '\\' => out.push_str("\\\\"),
            '\n' => out.push_str("\\n"),
            '\r' => out.push_str("\\r"),
            '\t' => out.push_str("\\t"),
            c if (c as u32) < 0x20 || c as u32 == 0x7f => out.push_str(&format!("\\{:03o}", c as u32)),
            c => out.push(c),
        }
    }
    out
}

fn gen_spelling(rng: &mut Rng, narrow: bool) -> String {
    let max_unit = if narrow { 0x100 } else { 0x10000 };
    let mut out = String::new();
    for _ in 0..(1 + rng.below(5)) {
        match rng.below(12) {
            0 => out.push_str(*rng.pick(&["\\n", "\\t", "\\r", "\\\\", "\\\"", "\\'", "\\?", "\\a", "\\b", "\\f", "\\v"])),
            1 => out.push_str(&format!("\\{:o}", rng.below(if narrow { 256 } else { 512 }))),
            2 => out.push_str(&format!("\\{}", rng.below(8))),
            3 => out.push_str(&format!("\\x{:x}", rng.below(0x100))),
            4 => out.push_str(&format!("\\x{:x}", rng.below(max_unit))),
            5 => out.push_str(&format!("\\u{:04x}", *rng.pick(&[0x41u32, 0xe9, 0x3bb, 0x20ac, 0xd7ff, 0xe000, 0xffff, 0xa0, 0x100, 0x24, 0x40, 0x60]))),
            6 => out.push_str(&format!("\\U{:08x}", *rng.pick(&[0x1f600u32, 0x10000, 0x10ffff, 0xe9, 0x3bb, 0xffff]))),
            7 => out.push_str(&format!("\\u{{{:x}}}", rng.below(0x300))),
            8 => out.push_str(*rng.pick(&["\\u12", "\\U0001f60", "\\ud800", "\\x", "\\udfff"])),
            9 => {
                let s = gen_string(rng);
                if rng.chance(1, 2) {
                    out.push_str(&octal_style_spelling(&s));
                } else {
                    // the former printer (Rust Debug): `\\u{..}` forms must be ill-formed for the spec, too
                    let d = format!("{s:?}");
                    out.push_str(&d[1..d.len() - 1]);
                }
            }
            10 => out.push_str(&format!("\\{:03o}{}", rng.below(128), rng.below(10))),
            _ => out.push(char::from_u32(rng.range(0x20, 0x7e) as u32).filter(|c| *c != '"' && *c != '\\').unwrap_or('a')),
        }
    }
    out
}

fn many_bindings_doc(n: usize, salt: usize) -> String {
    let mut root = with_fixture(Obj::new("QWidget").with_id("root"));
    let mut left = n;
    let mut k = 0;
    while left > 0 {
        let take = left.min(50);
        let mut o = Obj::new("WBase").with_id(&format!("m{k}"));
        for q in 0..take {
            o = o.bind(&format!("q{q}"), &format!("sb.value + {}", q + salt));
        }
        root = root.child(o);
        left -= take;
        k += 1;
    }
    root.to_qml()
}

fn gadget_docs() -> Vec<String> {
    let mk = |bs: &[(&str, &str)]| {
        let mut o = Obj::new("WBase").with_id("foo");
        for (l, r) in bs {
            o = o.bind(l, r);
        }
        with_fixture(Obj::new("QWidget").with_id("root")).child(o).to_qml()
    };
    // NB: uigen supports gadget maps only for the gadget classes it knows (QFont, QSizePolicy, ...)
    vec![
        mk(&[("font.bold", "cb.checked")]),
        mk(&[("font.bold", "cb.checked"), ("font.family", "le.text + \"x\""), ("font.pointSize", "sb.value"), ("font.italic", "true"), ("font.weight", "Math.max(sb.value, 1)")]),
        mk(&[("font.family", "(cb.checked ? le : le2).text"), ("font.bold", "(cb2.checked ? cb : cb2).checked && v.next.b")]),
        mk(&[("font.styleStrategy", "cb.checked ? QFont.PreferAntialias : QFont.NoAntialias"), ("font.kerning", "cb.checked"), ("font.underline", "cb.checked"), ("font.strikeout", "cb.checked")]),
        mk(&[("sizePolicy.horizontalStretch", "sb.value"), ("sizePolicy.horizontalPolicy", "QSizePolicy.Expanding")]),
        mk(&[("sizePolicy.verticalPolicy", "cb.checked ? QSizePolicy.Fixed : QSizePolicy.Expanding"), ("sizePolicy.verticalStretch", "Math.min(sb.value, 255)")]),
        mk(&[("font.bold", "cb.checked"), ("sizePolicy.horizontalStretch", "sb.value"), ("gBold", "cb.checked"), ("bold", "cb2.checked")]),
        mk(&[("g.bold", "cb.checked")]),
    ]
}

fn collision_docs() -> Vec<String> {
    let root = || with_fixture(Obj::new("QWidget").with_id("root"));
    vec![
        root().child(Obj::new("WBase").with_id("foo").bind("windowTitle", "le.text")).child(Obj::new("QGroupBox").with_id("fooWindow").bind("title", "le2.text")).to_qml(),
        root()
            .child(Obj::new("WBase").with_id("foo").bind("windowTitle", "le.text").bind("windowTitle1", "le.text"))
            .child(Obj::new("WBase").with_id("fooWindow").bind("title", "le2.text").bind("title1", "le2.text"))
            .to_qml(),
        root()
            .child(Obj::new("WBase").with_id("fooWindow").bind("title1", "le2.text").bind("title", "le2.text"))
            .child(Obj::new("WBase").with_id("foo").bind("windowTitle1", "le.text").bind("windowTitle", "le.text"))
            .to_qml(),
        root()
            .child(Obj::new("WBase").with_id("foo").bind("font.bold", "cb.checked").bind("font.family", "le.text").bind("windowTitle", "le.text"))
            .child(Obj::new("WBase").with_id("fooFont").bind("bold", "cb.checked").bind("onFired", "v.reset()"))
            .child(Obj::new("WBase").with_id("fooFontBold").bind("i", "sb.value"))
            .to_qml(),
        root()
            .child(Obj::new("WBase").with_id("x").bind("p1", "sb.value").bind("p11", "sb.value").bind("onP1Changed", "v.reset()"))
            .child(Obj::new("WBase").with_id("x1").bind("p1", "sb.value").bind("i", "sb.value"))
            .child(Obj::new("WBase").with_id("xP").bind("i", "sb.value"))
            .to_qml(),
        // a binding and a callback whose names concatenate alike: property `fired`? (none) — object names ending in digits
        root()
            .child(Obj::new("WBase").with_id("w1").bind("q1", "sb.value").bind("q11", "sb.value"))
            .child(Obj::new("WBase").with_id("w11").bind("q1", "sb.value"))
            .child(Obj::new("WBase").with_id("w").bind("q1", "sb.value").bind("q11", "sb.value"))
            .to_qml(),
        with_fixture(Obj::new("QWidget").with_id("foo").bind("windowTitle", "le.text")).child(Obj::new("QGroupBox").with_id("fooWindow").bind("title", "le2.text")).to_qml(),
        // two gadget maps: title + currentFont / titleCurrent + font
        root()
            .child(Obj::new("QFontComboBox").with_id("title").bind("currentFont.bold", "cb.checked"))
            .child(Obj::new("QLabel").with_id("titleCurrent").bind("font.bold", "cb.checked").bind("font.family", "le.text"))
            .to_qml(),
        root()
            .child(Obj::new("QLabel").with_id("titleCurrent").bind("font.italic", "cb.checked"))
            .child(Obj::new("QFontComboBox").with_id("title").bind("currentFont.italic", "cb2.checked").bind("currentFont.family", "le.text"))
            .child(Obj::new("QLabel").with_id("titleCurrentFont").bind("text", "le.text"))
            .to_qml(),
        // anonymous objects get generated names with digits (label, label1)
        root()
            .child(Obj::new("QLabel").bind("font.bold", "cb.checked").bind("text", "le.text"))
            .child(Obj::new("QLabel").bind("font.bold", "cb.checked").bind("text", "le.text"))
            .child(Obj::new("QLabel").with_id("label1Font").bind("text", "le.text").bind("wordWrap", "cb.checked"))
            .to_qml(),
    ]
}

// ------------------------------------------------------------------------------------------------ inventory documents (model)

/// abstract description of one binding's code, as the Lean model takes it
#[derive(Clone, Debug)]
enum Code {
    /// (dynamic?, observers, builtin uses, literals in emission order: (is QString, text))
    Expr(bool, usize, Vec<&'static str>, Vec<(bool, String)>),
    /// … plus the enumerator operands in emission order
    ExprE(bool, usize, Vec<&'static str>, Vec<(bool, String)>, Vec<EnumUse>),
    /// … plus the `static_cast<int>(` the body prints: `as int` casts and bitwise operations on enumeration operands
    /// (unary?, left operand scoped?, right operand scoped?)
    ExprC(bool, Vec<EnumUse>, usize, Vec<(bool, bool, bool)>),
    Gadget(Vec<(String, Code)>),
}

/// an enumerator as the generator knows it from the metatypes: (C++ name of the enumeration's parent, enumeration,
/// `enum class`?, enumerator)
#[derive(Clone, Debug, PartialEq)]
struct EnumUse {
    parent: &'static str,
    enum_name: &'static str,
    scoped: bool,
    variant: &'static str,
}

fn casts_sexp(as_int: usize, bitops: &[(bool, bool, bool)]) -> Sexp {
    let mut v = vec![num(as_int)];
    v.extend(bitops.iter().map(|(u, l, r)| node("bit", vec![atom(if *u { "u" } else { "b" }), crate::sexp::boolean(*l), crate::sexp::boolean(*r)])));
    node("casts", v)
}

fn enums_sexp(es: &[EnumUse]) -> Sexp {
    node("enums", es.iter().map(|e| node("ev", vec![st(e.parent), st(e.enum_name), atom(if e.scoped { "scoped" } else { "unscoped" }), st(e.variant)])).collect())
}

impl Code {
    fn sexp(&self) -> Sexp {
        match self {
            Code::Expr(dynamic, obs, uses, lits) => Code::ExprE(*dynamic, *obs, uses.clone(), lits.clone(), vec![]).sexp(),
            Code::ExprE(dynamic, obs, uses, lits, enums) => node("e", vec![
                atom(if *dynamic { "dyn" } else { "const" }),
                num(*obs),
                node("uses", uses.iter().map(|u| atom(*u)).collect()),
                node("lits", lits.iter().map(|(q, s)| node(if *q { "q" } else { "c" }, vec![st(s.clone())])).collect()),
                enums_sexp(enums),
                casts_sexp(0, &[]),
            ]),
            Code::ExprC(dynamic, enums, as_int, bitops) => node("e", vec![
                atom(if *dynamic { "dyn" } else { "const" }),
                num(0),
                node("uses", vec![]),
                node("lits", vec![]),
                enums_sexp(enums),
                casts_sexp(*as_int, bitops),
            ]),
            Code::Gadget(ms) => node("g", ms.iter().map(|(n, c)| node("p", vec![st(n.clone()), c.sexp()])).collect()),
        }
    }
}

/// (lhs path, rhs, code of the leaf)
fn value_templates(rng: &mut Rng, lit: &dyn Fn(&mut Rng) -> (String, String)) -> Vec<(&'static str, String, Code)> {
    let (l1s, l1) = lit(rng);
    let (l2s, l2) = lit(rng);
    let (l3s, l3) = lit(rng);
    let (l4s, l4) = lit(rng);
    vec![
        ("s", "le.text".into(), Code::Expr(true, 0, vec![], vec![])),
        ("s2", format!("le.text + {l1}"), Code::Expr(true, 0, vec![], vec![(true, l1s)])),
        ("title", "(cb.checked ? le : le2).text".into(), Code::Expr(true, 1, vec![], vec![])),
        ("title1", "(cb.checked ? le : le2).text + (cb2.checked ? le2 : le).text".into(), Code::Expr(true, 2, vec![], vec![])),
        ("windowTitle", "le.text".into(), Code::Expr(true, 0, vec![], vec![])),
        ("windowTitle1", "le2.text".into(), Code::Expr(true, 0, vec![], vec![])),
        ("i", "Math.max(sb.value, 1)".into(), Code::Expr(true, 0, vec!["max"], vec![])),
        ("j", "Math.min(sb.value, sb2.value)".into(), Code::Expr(true, 0, vec!["min"], vec![])),
        ("d", "ds.value % 2.0".into(), Code::Expr(true, 0, vec!["fmod"], vec![])),
        ("d2", "Math.max(ds.value % v.d, 0.5)".into(), Code::Expr(true, 0, vec!["fmod", "max"], vec![])),
        ("p1", "sb.value".into(), Code::Expr(true, 0, vec![], vec![])),
        ("p11", "sb.value + 1".into(), Code::Expr(true, 0, vec![], vec![])),
        ("q0", "sb.value".into(), Code::Expr(true, 0, vec![], vec![])),
        ("q1", "v.next.i".into(), Code::Expr(true, 1, vec![], vec![])),
        ("q11", "v.next.next.i".into(), Code::Expr(true, 2, vec![], vec![])),
        ("b", format!("{{ console.log({l2}); return cb.checked }}"), Code::Expr(true, 0, vec!["log"], vec![(false, l2s)])),
        ("toolTip", format!("qsTr({l3}) + le.text"), Code::Expr(true, 0, vec!["tr"], vec![(false, l3s)])),
        ("gBold", "cb.checked".into(), Code::Expr(true, 0, vec![], vec![])),
        ("bold", "cb2.checked".into(), Code::Expr(true, 0, vec![], vec![])),
        ("gLabel", "le.text".into(), Code::Expr(true, 0, vec![], vec![])),
        ("font.bold", "cb.checked".into(), Code::Expr(true, 0, vec![], vec![])),
        ("font.family", format!("le.text + {l4}"), Code::Expr(true, 0, vec![], vec![(true, l4s)])),
        ("font.pointSize", "3".into(), Code::Expr(false, 0, vec![], vec![])),
        ("font.italic", "(cb.checked ? cb : cb2).checked".into(), Code::Expr(true, 1, vec![], vec![])),
        ("font.weight", "Math.max(sb.value, sb2.value)".into(), Code::Expr(true, 0, vec!["max"], vec![])),
        ("font.kerning", "true".into(), Code::Expr(false, 0, vec![], vec![])),
        ("sizePolicy.horizontalStretch", "sb.value".into(), Code::Expr(true, 0, vec![], vec![])),
        ("sizePolicy.verticalStretch", "Math.min(sb.value, 3)".into(), Code::Expr(true, 0, vec!["min"], vec![])),
    ]
}

fn callback_templates(rng: &mut Rng, lit: &dyn Fn(&mut Rng) -> (String, String)) -> Vec<(&'static str, &'static str, String, Vec<&'static str>, Vec<(bool, String)>)> {
    let (l1s, l1) = lit(rng);
    vec![
        ("onFired", "fired", format!("console.warn({l1})"), vec!["log"], vec![(false, l1s)]),
        ("onFired2", "fired2", "function(n: int, s: QString) { le.text = s }".into(), vec![], vec![]),
        ("onDefaulted", "defaulted", "le.clear()".into(), vec![], vec![]),
        ("onSigU", "sigU", "function(u: uint) { v.u = Math.min(u, v.u) }".into(), vec!["min"], vec![]),
        ("onP1Changed", "p1Changed", "v.reset()".into(), vec![], vec![]),
        ("onTitleChanged", "titleChanged", "v.reset()".into(), vec![], vec![]),
        ("onWindowTitleChanged", "windowTitleChanged", "function(t: QString) { v.s = t }".into(), vec![], vec![]),
    ]
}

// ---- name-split families: every way two DIFFERENT (object, binding path) pairs concatenate to the same identifier

fn camel(words: &[&str]) -> String {
    let mut out = String::new();
    for (k, w) in words.iter().enumerate() {
        if k == 0 {
            out.push_str(w);
        } else {
            out.push_str(&qmluic::qtname::to_ascii_capitalized(w));
        }
    }
    out
}

#[derive(Clone, Debug, PartialEq)]
enum SplitKind {
    /// value type
    Plain(&'static str),
    /// gadget member: value type
    Gadget(&'static str),
    /// signal name
    Callback(String),
}

const SPLIT_PLAIN: &[(&str, &str)] = &[
    ("bold", "bool"), ("bold1", "bool"), ("fontBold", "bool"), ("fontBold1", "bool"), ("curFontBold", "bool"), ("curFontBold1", "bool"),
    ("xCurFontBold", "bool"), ("family", "QString"), ("fontFamily", "QString"), ("curFontFamily", "QString"), ("title", "QString"),
    ("title1", "QString"), ("xTitle", "QString"), ("changed", "int"), ("boldChanged1", "int"),
];
const SPLIT_GADGETS: &[&str] = &["font", "font1", "curFont", "curFont1", "xCurFont"];
const SPLIT_MEMBERS: &[(&str, &str)] = &[("bold", "bool"), ("family", "QString"), ("italic", "bool")];
const SPLIT_SIGNALS: &[&str] = &[
    "boldChanged", "fontBoldChanged", "curFontBoldChanged", "xCurFontBoldChanged", "changedChanged", "titleChanged", "xTitleChanged",
    "familyChanged", "fontFamilyChanged",
];

/// All (object id, left-hand side, kind) whose `Capitalised(object) + Capitalised(path…)` is the concatenation of
/// `words` (optionally followed by the digit 1): the object id takes the first i words, the binding the rest — as a
/// plain property, as gadget property + member (every cut; the digit may end the member or the gadget name), or as a
/// signal callback.
fn split_candidates(words: &[&str], digit: bool) -> Vec<(String, String, SplitKind)> {
    let mut out = vec![];
    let suffix = if digit { "1" } else { "" };
    for i in 1..words.len() {
        let obj = camel(&words[..i]);
        let rem = &words[i..];
        let whole = format!("{}{suffix}", camel(rem));
        if let Some((_, t)) = SPLIT_PLAIN.iter().find(|(n, _)| *n == whole) {
            out.push((obj.clone(), whole.clone(), SplitKind::Plain(t)));
        }
        if !digit && SPLIT_SIGNALS.contains(&whole.as_str()) {
            out.push((obj.clone(), format!("on{}", qmluic::qtname::to_ascii_capitalized(&whole)), SplitKind::Callback(whole.clone())));
        }
        for j in 1..rem.len() {
            let g = camel(&rem[..j]);
            let m = camel(&rem[j..]);
            if !digit {
                if let (true, Some((_, t))) = (SPLIT_GADGETS.contains(&g.as_str()), SPLIT_MEMBERS.iter().find(|(n, _)| *n == m)) {
                    out.push((obj.clone(), format!("{g}.{m}"), SplitKind::Gadget(t)));
                }
            } else {
                // generated `TCurFont1` vs the property `curFont1`
                let g1 = format!("{g}1");
                if let (true, Some((_, t))) = (SPLIT_GADGETS.contains(&g1.as_str()), SPLIT_MEMBERS.iter().find(|(n, _)| *n == m)) {
                    out.push((obj.clone(), format!("{g1}.{m}"), SplitKind::Gadget(t)));
                }
            }
        }
    }
    out
}

/// A document made of several splits of ONE identifier (and of its prefixes), so that the prefixes passed to the
/// name generator collide — across plain bindings, gadget maps, gadget sub-bindings, callbacks and observers.
fn split_family_doc(rng: &mut Rng) -> (String, Sexp) {
    let families: [&[&str]; 8] = [
        &["t", "cur", "font", "bold"],
        &["t", "x", "cur", "font", "bold"],
        &["t", "cur", "font", "family"],
        &["t", "font", "bold", "changed"],
        &["t", "cur", "font", "bold", "changed"],
        &["t", "x", "title", "changed"],
        &["t", "font", "family"],
        &["label1", "font", "bold"],
    ];
    let words = *rng.pick(&families);
    let mut cands: Vec<(String, String, SplitKind)> = vec![];
    // the identifier itself and its proper prefixes (gadget names `T Cur Font`, sub-binding prefixes), without and with digit
    for len in 2..=words.len() {
        for digit in [false, true] {
            for c in split_candidates(&words[..len], digit) {
                if !cands.contains(&c) {
                    cands.push(c);
                }
            }
        }
    }
    rng.shuffle(&mut cands);
    let take = 2 + rng.below(7);
    let lit = |rng: &mut Rng| -> (String, String) {
        let s = gen_string(rng);
        let q = qml_string_literal(&s, rng.below(6) as u32);
        (s, q)
    };
    #[allow(clippy::type_complexity)]
    let mut objs: Vec<(String, Obj, Vec<(String, Code)>, Vec<(String, Vec<&'static str>, Vec<(bool, String)>)>)> = vec![];
    for (obj, lhs, kind) in cands.into_iter().take(take) {
        let idx = match objs.iter().position(|o| o.0 == obj) {
            Some(i) => i,
            None => {
                objs.push((obj.clone(), Obj::new("WBase").with_id(&obj), vec![], vec![]));
                objs.len() - 1
            }
        };
        match &kind {
            SplitKind::Callback(sig) => {
                let (rhs, uses, lits) = if rng.chance(1, 2) {
                    ("v.reset()".to_owned(), vec![], vec![])
                } else {
                    let (ls, lq) = lit(rng);
                    (format!("console.log({lq})"), vec!["log"], vec![(false, ls)])
                };
                objs[idx].1.bindings.push((lhs, rhs));
                objs[idx].3.push((sig.clone(), uses, lits));
            }
            SplitKind::Plain(ty) | SplitKind::Gadget(ty) => {
                let (rhs, code) = match *ty {
                    "bool" => match rng.below(3) {
                        0 => ("cb.checked".to_owned(), Code::Expr(true, 0, vec![], vec![])),
                        1 => ("(cb.checked ? cb : cb2).checked".to_owned(), Code::Expr(true, 1, vec![], vec![])),
                        _ => ("v.next.b && (cb2.checked ? v : v2).b".to_owned(), Code::Expr(true, 2, vec![], vec![])),
                    },
                    "QString" => match rng.below(3) {
                        0 => ("le.text".to_owned(), Code::Expr(true, 0, vec![], vec![])),
                        1 => {
                            let (ls, lq) = lit(rng);
                            (format!("le.text + {lq}"), Code::Expr(true, 0, vec![], vec![(true, ls)]))
                        }
                        _ => ("(cb.checked ? le : le2).text".to_owned(), Code::Expr(true, 1, vec![], vec![])),
                    },
                    _ => ("Math.max(sb.value, sb2.value)".to_owned(), Code::Expr(true, 0, vec!["max"], vec![])),
                };
                objs[idx].1.bindings.push((lhs.clone(), rhs));
                let path: Vec<&str> = lhs.split('.').collect();
                insert_path(&mut objs[idx].2, &path, code);
            }
        }
    }
    rng.shuffle(&mut objs);
    let mut root = Obj::new("QWidget").with_id("root");
    let mut descr = vec![];
    for (name, mut o, props, cbs) in objs {
        rng.shuffle(&mut o.bindings);
        root.children.push(o);
        descr.push(node("o", vec![
            st(name),
            node("props", props.iter().map(|(n, c)| node("p", vec![st(n.clone()), c.sexp()])).collect()),
            node("cbs", cbs.iter().map(|(sig, uses, lits)| node("cb", vec![
                st(sig.clone()),
                node("uses", uses.iter().map(|u| atom(*u)).collect()),
                node("lits", lits.iter().map(|(q, s)| node(if *q { "q" } else { "c" }, vec![st(s.clone())])).collect()),
            ])).collect()),
        ]));
    }
    (with_fixture(root).to_qml(), node("objs", descr))
}

// ---- enumerator spellings: every kind of enumeration x every position an enumerator operand can take

/// (QML spelling prefix, C++ parent, enumeration, scoped?, two enumerators, WBase property of that type if any, label)
#[allow(clippy::type_complexity)]
const ENUMERATIONS: &[(&str, &str, &str, bool, &str, &str, Option<&str>, &str)] = &[
    ("WBase.", "WBase", "Mode", false, "ModeA", "ModeC", Some("mode"), "class-unscoped"),
    ("WBase.Scoped.", "WBase", "Scoped", true, "SA", "SC", Some("scoped"), "class-scoped"),
    ("WBase.Level.", "WBase", "Level", true, "SA", "High", Some("level"), "class-scoped"),
    ("WBase.", "WBase", "Flags", false, "FlagA", "FlagC", Some("flags"), "flag-alias"),
    ("Qt.", "Qt", "Alignment", false, "AlignLeft", "AlignRight", None, "namespace-flag-alias"),
    ("Qt.", "Qt", "TextElideMode", false, "ElideLeft", "ElideRight", None, "namespace-unscoped"),
    ("Qt.", "Qt", "Orientations", false, "Horizontal", "Vertical", None, "namespace-enum-with-flag-alias"),
    ("Qt.HighDpiScaleFactorRoundingPolicy.", "Qt", "HighDpiScaleFactorRoundingPolicy", true, "Round", "Ceil", None, "namespace-scoped"),
    ("QActionGroup.ExclusionPolicy.", "QActionGroup", "ExclusionPolicy", true, "Exclusive", "ExclusiveOptional", None, "qt-class-scoped"),
    ("QAbstractItemModel.CheckIndexOption.", "QAbstractItemModel", "CheckIndexOption", true, "NoOption", "IndexIsValid", None, "qt-class-scoped"),
    ("QCalendar.System.", "QCalendar", "System", true, "Gregorian", "Julian", None, "qt-gadget-scoped"),
    ("QColorSpace.Primaries.", "QColorSpace", "Primaries", true, "SRgb", "Custom", None, "qt-gadget-scoped"),
    ("QColorSpace.TransferFunction.", "QColorSpace", "TransferFunction", true, "SRgb", "Linear", None, "qt-gadget-scoped"),
    ("QHighDpiScaling.DpiAdjustmentPolicy.", "QHighDpiScaling", "DpiAdjustmentPolicy", true, "Enabled", "Unset", None, "qt-gadget-scoped"),
    ("QFont.", "QFont", "StyleStrategy", false, "PreferAntialias", "NoAntialias", None, "qt-gadget-unscoped"),
    ("QSizePolicy.", "QSizePolicy", "Policy", false, "Expanding", "Fixed", None, "qt-gadget-unscoped"),
    ("QLineEdit.", "QLineEdit", "EchoMode", false, "Normal", "Password", None, "qt-class-unscoped"),
    ("QFrame.", "QFrame", "Shape", false, "Box", "Panel", None, "qt-class-unscoped"),
];

/// One binding (or callback) using the two enumerators of `en` at position `ctx`; returns (lhs, rhs, code/callback
/// description) — `None` when the position needs a property of the enumeration's type and WBase has none.
#[allow(clippy::type_complexity)]
fn enum_use(en: &(&'static str, &'static str, &'static str, bool, &'static str, &'static str, Option<&'static str>, &'static str), ctx: usize) -> Option<(String, String, Option<Code>, (Vec<EnumUse>, usize, Vec<(bool, bool, bool)>))> {
    let (pfx, parent, ename, scoped, va, vb, prop, _) = *en;
    let a = format!("{pfx}{va}");
    let b = format!("{pfx}{vb}");
    let ua = EnumUse { parent, enum_name: ename, scoped, variant: va };
    let ub = EnumUse { parent, enum_name: ename, scoped, variant: vb };
    let none = (vec![], 0, vec![]);
    let expr = |es: Vec<EnumUse>, as_int: usize, bit: Vec<(bool, bool, bool)>| Some(Code::ExprC(true, es, as_int, bit));
    Some(match ctx {
        // ternary + cast
        0 => ("i".into(), format!("(cb.checked ? {a} : {b}) as int"), expr(vec![ua.clone(), ub.clone()], 1, vec![]), none),
        // comparison
        1 => ("b".into(), format!("(cb.checked ? {a} : {b}) == {a}"), expr(vec![ua.clone(), ub.clone(), ua.clone()], 0, vec![]), none),
        // switch case labels
        2 => (
            "j".into(),
            format!("{{ switch (cb.checked ? {a} : {b}) {{ case {a}: return 1; case {b}: return 2; default: return sb.value }} }}"),
            expr(vec![ua.clone(), ub.clone(), ua.clone(), ub.clone()], 0, vec![]),
            none,
        ),
        // callback body
        3 => ("onFired".into(), format!("{{ let e = cb2.checked ? {b} : {a}; v.i = e as int }}"), None, (vec![ub.clone(), ua.clone()], 1, vec![])),
        // gadget sub-binding (through a cast: works for every enumeration)
        4 => ("font.pointSize".into(), format!("(cb.checked ? {a} : {b}) as int"), expr(vec![ua.clone(), ub.clone()], 1, vec![]), none),
        // value of the enumeration's own type: ternary of two enumerators / enumerator and property
        5 => (prop?.to_owned(), format!("cb.checked ? {a} : {b}"), expr(vec![ua.clone(), ub.clone()], 0, vec![]), none),
        6 => (prop?.to_owned(), format!("cb.checked ? v.{} : {b}", prop?), expr(vec![ub.clone()], 0, vec![]), none),
        // `!=` with a property and `as uint`
        7 => ("u".into(), format!("(v.{} != {b} ? {a} : {b}) as uint", prop?), expr(vec![ub.clone(), ua.clone(), ub.clone()], 0, vec![]), none),
        // bitwise operators with enumeration operands: property | enumerator, property ^ property, ~property, in a callback
        8 => (prop?.to_owned(), format!("v.{} | {b}", prop?), expr(vec![ub.clone()], 0, vec![(false, scoped, scoped)]), none),
        9 => (prop?.to_owned(), format!("(v.{p} ^ v2.{p}) & ~v.{p}", p = prop?), expr(vec![], 0, vec![(false, scoped, scoped), (true, scoped, false), (false, scoped, scoped)]), none),
        10 => ("onFired".into(), format!("{{ v.{p} = {a} & v2.{p}; v.i = (~v.{p}) as int }}", p = prop?), None, (vec![ua.clone()], 1, vec![(false, scoped, scoped), (true, scoped, false)])),
        _ => return None,
    })
}

/// A document of 2–6 enumerator uses (random enumeration x position), with its description.
fn enum_family_doc(rng: &mut Rng) -> (String, Sexp) {
    let mut root = Obj::new("QWidget").with_id("root");
    let mut descr = vec![];
    let n = 2 + rng.below(5);
    let mut k = 0;
    while root.children.len() < n && k < 40 {
        k += 1;
        let en = rng.pick(ENUMERATIONS);
        let ctx = rng.below(11);
        let Some((lhs, rhs, code, cb_info)) = enum_use(en, ctx) else { continue };
        let id = format!("e{}", root.children.len());
        let mut o = Obj::new("WBase").with_id(&id).bind(&lhs, &rhs);
        let mut props: Vec<(String, Code)> = vec![];
        let mut cbs = vec![];
        match code {
            Some(c) => {
                let path: Vec<&str> = lhs.split('.').collect();
                insert_path(&mut props, &path, c);
                // a constant gadget member spelled with an enumerator is emitted, too
                if lhs.starts_with("font.") && rng.chance(1, 2) {
                    o = o.bind("font.styleStrategy", "QFont.PreferQuality");
                    insert_path(&mut props, &["font", "styleStrategy"], Code::ExprE(false, 0, vec![], vec![], vec![EnumUse { parent: "QFont", enum_name: "StyleStrategy", scoped: false, variant: "PreferQuality" }]));
                }
            }
            None => cbs.push(("fired", cb_info)),
        }
        root.children.push(o);
        descr.push(node("o", vec![
            st(id),
            node("props", props.iter().map(|(n, c)| node("p", vec![st(n.clone()), c.sexp()])).collect()),
            node("cbs", cbs.iter().map(|(sig, (es, as_int, bit))| node("cb", vec![st(*sig), node("uses", vec![]), node("lits", vec![]), enums_sexp(es), casts_sexp(*as_int, bit)])).collect()),
        ]));
    }
    (with_fixture(root).to_qml(), node("objs", descr))
}

/// compile-only positions of enumerators (log streams, callback parameters, lists, method arguments, casts of properties)
fn enum_probes() -> Vec<(String, String)> {
    let mut v = vec![];
    for en in ENUMERATIONS {
        let (pfx, _, _, _, va, vb, prop, label) = *en;
        let a = format!("{pfx}{va}");
        let b = format!("{pfx}{vb}");
        for ctx in 0..11 {
            if let Some((lhs, rhs, _, _)) = enum_use(en, ctx) {
                v.push((format!("enum/{label}/pos{ctx}"), stmt_doc(&lhs, &rhs)));
            }
        }
        v.push((format!("enum/{label}/log"), stmt_doc("onFired", &format!("console.log({a}, cb.checked ? {a} : {b})"))));
        v.push((format!("enum/{label}/nested"), stmt_doc("i", &format!("{{ let e = cb.checked ? {a} : {b}; if (e == {b}) {{ return ({a}) as int }} return (e as int) + sb.value }}"))));
        v.push((format!("enum/{label}/list"), stmt_doc("onFired", &format!("{{ let l = [{a}, {b}]; v.i = l[sb.value] as int }}"))));
        if let Some(p) = prop {
            v.push((format!("enum/{label}/assign"), stmt_doc("onFired", &format!("{{ v.{p} = {a}; v2.{p} = cb.checked ? {b} : v.{p} }}"))));
            v.push((format!("enum/{label}/case-property"), stmt_doc("s", &format!("{{ switch (v.{p}) {{ case {a}: return \"a\"; case {b}: return le.text; default: break }} return \"\" }}"))));
        }
    }
    v.push(("enum/callback-param".into(), stmt_doc("onSigScoped", "function(s: WBase.Scoped) { v.scoped = s; if (s == WBase.Scoped.SB) { v.level = WBase.Level.SA } }")));
    v.push(("enum/callback-param".into(), stmt_doc("onSigMode", "function(m: WBase.Mode) { v.mode = m == WBase.ModeA ? WBase.ModeB : m }")));
    v
}

// ---- signal pointers: every parameter passing convention, in handlers and in notify connections

fn sig_sexp(cls: &str, name: &str, args: &[&str]) -> Sexp {
    let mut v = vec![st(cls), st(name)];
    v.extend(args.iter().map(|t| node("arg", vec![st(*t), atom(kind_of_type(t))])));
    node("sig", v)
}

/// One object with 2–7 connections: handlers on the plain signals (no parameters, a prefix of the parameters, or all
/// that can be annotated) and bindings reading properties whose notify signal carries the value.  Returns the document
/// and the signal pointers in header order (bindings sorted by property, then callbacks sorted by signal).
fn signal_family_doc(rng: &mut Rng) -> (String, Sexp) {
    let mut t = Obj::new("WBase").with_id("t");
    let mut bind: Vec<(String, Vec<Sexp>)> = vec![];
    let mut cbs: Vec<(String, Sexp)> = vec![];
    let n = 2 + rng.below(6);
    for _ in 0..n {
        if rng.chance(1, 2) {
            let (p, ty) = *rng.pick(SIG_PROPS);
            if bind.iter().any(|(q, _)| q == p) {
                continue;
            }
            let own = sig_sexp("WBase", &format!("{p}Changed"), &[ty]);
            let (rhs, sigs) = match (ty, rng.below(2)) {
                ("QString", 1) => (format!("v.{p} + le.text"), vec![own, sig_sexp("QLineEdit", "textChanged", &["QString"])]),
                ("int", 1) => (format!("sb.value + v.{p}"), vec![sig_sexp("QSpinBox", "valueChanged", &["int"]), own]),
                ("bool", 1) => (format!("v.{p} || cb.checked"), vec![own, sig_sexp("QAbstractButton", "toggled", &["bool"])]),
                ("double", 1) => (format!("v.{p} + ds.value"), vec![own, sig_sexp("QDoubleSpinBox", "valueChanged", &["double"])]),
                _ => (format!("v.{p}"), vec![own]),
            };
            t = t.bind(p, &rhs);
            bind.push((p.to_owned(), sigs));
        } else {
            let (name, args) = *rng.pick(SIG_PLAIN);
            if cbs.iter().any(|(q, _)| q == name) {
                continue;
            }
            // parameters: the longest annotatable prefix, cut at a random length
            let annot: Vec<&str> = args.iter().map_while(|(_, a)| *a).collect();
            let take = if annot.is_empty() { 0 } else { rng.below(annot.len() + 1) };
            let rhs = if take == 0 && rng.chance(1, 2) {
                "v.reset()".to_owned()
            } else {
                let ps: Vec<String> = annot.iter().take(take).enumerate().map(|(k, a)| format!("p{k}: {a}")).collect();
                format!("function({}) {{ v.reset() }}", ps.join(", "))
            };
            t = t.bind(&format!("on{}", qmluic::qtname::to_ascii_capitalized(name)), &rhs);
            let tys: Vec<&str> = args.iter().map(|(t, _)| *t).collect();
            cbs.push((name.to_owned(), sig_sexp("WBase", name, &tys)));
        }
    }
    bind.sort_by(|a, b| a.0.cmp(&b.0));
    cbs.sort_by(|a, b| a.0.cmp(&b.0));
    let mut sigs = vec![];
    for (_, ss) in bind {
        sigs.extend(ss);
    }
    for (_, s) in cbs {
        sigs.push(s);
    }
    rng.shuffle(&mut t.bindings);
    (with_fixture(Obj::new("QWidget").with_id("root")).child(t).to_qml(), node("sigs", sigs))
}

/// the `QOverload<…>::of(&Class::signal)` spellings of a header, in order
fn overload_spellings(header: &str) -> Vec<String> {
    let mut out = vec![];
    let mut rest = header;
    while let Some(p) = rest.find("QOverload<") {
        let tail = &rest[p..];
        match tail.find(">::of(&").and_then(|q| tail[q..].find(')').map(|r| q + r)) {
            Some(end) => {
                out.push(tail[..=end].to_owned());
                rest = &tail[end + 1..];
            }
            None => break,
        }
    }
    out
}

// ---- double constants: boundary and non-finite values, as literals and as folded sub-expressions

/// (QML expression of type double made of constants only, its value) — the value is computed here with Rust's f64
/// arithmetic, the same IEEE operations the constant folder performs
fn double_constants() -> Vec<(&'static str, f64)> {
    vec![
        ("1e999", f64::INFINITY), ("-1e999", f64::NEG_INFINITY), ("-(1e999)", f64::NEG_INFINITY), ("1e308 * 10.0", f64::INFINITY),
        ("-1e308 * 10.0", f64::NEG_INFINITY), ("1e999 - 1e999", f64::NAN), ("1e999 * 0.0", f64::NAN), ("-(1e999 - 1e999)", f64::NAN),
        ("1e999 * -1.0", f64::NEG_INFINITY), ("-1e999 + 1e308", f64::NEG_INFINITY), ("0.0", 0.0), ("-0.0", -0.0), ("0.0 * -1.0", -0.0),
        ("5e-324", 5e-324), ("-5e-324", -5e-324), ("2.2250738585072014e-308", 2.2250738585072014e-308), ("2.225073858507201e-308", 2.225073858507201e-308),
        ("1.7976931348623157e308", f64::MAX), ("-1.7976931348623157e308", f64::MIN), ("1.7976931348623157e308 + 1e292", f64::INFINITY),
        ("0.1 + 0.2", 0.1 + 0.2), ("1.0 / 3.0", 1.0 / 3.0), ("-1.0 / 3.0", -1.0 / 3.0), ("1e21", 1e21), ("1e-7", 1e-7), ("123456789.125", 123456789.125),
        ("9007199254740993.0", 9007199254740992.0), ("4.9e-324 / 2.0", 0.0), ("-4.9e-324 / 2.0", -0.0), ("1e-320", 1e-320), ("3.0 % 2.0", 1.0),
        ("-3.5 % 2.0", -1.5), ("1.0", 1.0), ("-1.0", -1.0), ("1e300 * 1e300 * 0.0", f64::NAN),
    ]
}

/// positions of a constant inside a dynamic expression of type double: (template with `{}`, label)
const DOUBLE_POSITIONS: &[(&str, &str)] = &[
    ("ds.value + ({})", "operand"),
    ("cb.checked ? ({}) : ds.value", "ternary-branch"),
    ("Math.max(ds.value, {})", "max-argument"),
    ("{{ let k = {}; return ds.value * k }}", "let-initialiser"),
];

fn double_doc(expr: &str, pos: usize) -> String {
    let rhs = DOUBLE_POSITIONS[pos].0.replace("{}", expr).replace("{{", "{").replace("}}", "}");
    stmt_doc("d", &rhs)
}

/// the spelled constant of the eval function: the only token run of the body that is a floating literal, `qInf()`,
/// `-qInf()` or `qQNaN()`
fn spelled_double(header: &str) -> Option<String> {
    let toks = tokenize(header).ok()?;
    let start = (0..toks.len()).find(|&i| matches!(&toks[i], Tok::Id(s) if s == "evalTD") && toks.get(i + 3).map(|t| is_p(t, "{")).unwrap_or(false))?;
    let body = &toks[start..];
    let end = body.iter().position(|t| is_p(t, "}")).unwrap_or(body.len());
    let body = &body[..end];
    for (i, t) in body.iter().enumerate() {
        let neg = i > 0 && is_p(&body[i - 1], "-") && i > 1 && (is_p(&body[i - 2], "=") || is_p(&body[i - 2], "(") || is_p(&body[i - 2], ",") || is_p(&body[i - 2], "+") || is_p(&body[i - 2], "*") || matches!(&body[i - 2], Tok::Id(s) if s == "return"));
        let sign = if neg { "-" } else { "" };
        match t {
            Tok::Num(n) if n.contains('e') || n.contains('.') => return Some(format!("{sign}{n}")),
            Tok::Id(s) if (s == "qInf" || s == "qQNaN") && body.get(i + 1).map(|t| is_p(t, "(")).unwrap_or(false) => return Some(format!("{sign}{s}()")),
            Tok::Id(s) if s == "inf" || s == "NaN" || s == "nan" => return Some(format!("{sign}{s}")),
            _ => {}
        }
    }
    None
}

/// compiles and runs a program that prints the bit pattern of every spelling
fn gxx_double_bits(dir: &Path, spellings: &[String]) -> Result<Vec<Result<u64, String>>, String> {
    const PRE: &str = "#include <cstdio>\n#include <cstring>\n#include <cmath>\n#include <limits>\nstatic double qInf() { return std::numeric_limits<double>::infinity(); }\nstatic double qQNaN() { return std::numeric_limits<double>::quiet_NaN(); }\nstatic void p(int k, double v) { unsigned long long b; std::memcpy(&b, &v, 8); std::printf(\"%d %llx\\n\", k, b); }\nint main() {\n";
    let pre_lines = PRE.matches('\n').count();
    let mut bad: BTreeMap<usize, String> = BTreeMap::new();
    let src = dir.join("dbl.cpp");
    let exe = dir.join("dbl.out");
    for _round in 0..3 {
        let mut text = String::from(PRE);
        for (k, sp) in spellings.iter().enumerate() {
            if bad.contains_key(&k) {
                text.push('\n');
            } else {
                text.push_str(&format!("p({k}, {sp});\n"));
            }
        }
        text.push_str("return 0; }\n");
        std::fs::write(&src, &text).map_err(|e| e.to_string())?;
        let out = Command::new("g++").env("LC_ALL", "C").args(["-std=c++17", "-w", "-O0", "-fno-diagnostics-show-caret", "-fdiagnostics-color=never", "-fmax-errors=0", "-o"]).arg(&exe).arg(&src).output().map_err(|e| format!("cannot run g++: {e}"))?;
        if out.status.success() {
            let run = Command::new(&exe).output().map_err(|e| format!("cannot run program: {e}"))?;
            let mut res: Vec<Result<u64, String>> = (0..spellings.len()).map(|k| Err(bad.get(&k).cloned().unwrap_or_else(|| "no output".into()))).collect();
            for line in String::from_utf8_lossy(&run.stdout).lines() {
                let mut it = line.split(' ');
                let k: usize = it.next().unwrap().parse().map_err(|_| "bad output")?;
                res[k] = Ok(u64::from_str_radix(it.next().unwrap(), 16).map_err(|_| "bad output")?);
            }
            return Ok(res);
        }
        let err = String::from_utf8_lossy(&out.stderr).into_owned();
        let mut found = false;
        for line in err.lines() {
            if let Some(pp) = line.find(": error: ") {
                if let Some(Ok(ln)) = line[..pp].split(':').nth(1).map(|x| x.parse::<usize>()) {
                    if ln > pre_lines && ln - pre_lines - 1 < spellings.len() {
                        bad.entry(ln - pre_lines - 1).or_insert_with(|| line[pp + 9..].to_owned());
                        found = true;
                    }
                }
            }
        }
        if !found {
            return Err(format!("program does not compile: {}", err.lines().next().unwrap_or("")));
        }
    }
    Err("program still does not compile".into())
}

impl C16 {
    /// (c16-doubles (d "expr" pos "bits")…): the constant the header spells has the value of the source expression
    fn doubles(&self, items: &[(String, usize, u64)]) -> Sexp {
        let mut spell: Vec<String> = vec![];
        let mut owner = vec![];
        let mut rejected = 0;
        let mut fails = vec![];
        for (k, (expr, pos, _)) in items.iter().enumerate() {
            let Some(b) = self.translate("D", &double_doc(expr, *pos)) else {
                rejected += 1;
                continue;
            };
            match spelled_double(&b.header) {
                Some(sp) => {
                    spell.push(sp);
                    owner.push(k);
                }
                None => fails.push(node("dbl", vec![st(expr.clone()), atom(DOUBLE_POSITIONS[*pos].1), st("no double constant found in the eval function")])),
            }
        }
        let dir = match self.batch_dir() {
            Ok(d) => d,
            Err(e) => return node("fail", vec![st(format!("setup: {e}"))]),
        };
        let bits = gxx_double_bits(&dir, &spell);
        let _ = std::fs::remove_dir_all(&dir);
        let bits = match bits {
            Ok(b) => b,
            Err(e) => return node("fail", vec![st(e)]),
        };
        for ((sp, r), k) in spell.iter().zip(&bits).zip(&owner) {
            let (expr, pos, want) = &items[*k];
            let wantf = f64::from_bits(*want);
            let why = match r {
                Ok(got) if got == want || (wantf.is_nan() && f64::from_bits(*got).is_nan()) => continue,
                Ok(got) => format!("spelled {sp} = {:e} (bits {got:x}), the source constant is {:e} (bits {want:x})", f64::from_bits(*got), wantf),
                Err(e) => format!("spelled {sp}: does not compile: {e}"),
            };
            fails.push(node("dbl", vec![st(expr.clone()), atom(DOUBLE_POSITIONS[*pos].1), st(why)]));
        }
        if fails.is_empty() {
            node("ok", vec![atom("constants"), num(items.len()), atom("rejected"), num(rejected)])
        } else {
            fails.truncate(12);
            node("fail", fails)
        }
    }
}

/// bodies whose return type cannot be verified must be REJECTED — in a gadget sub-binding exactly as in a plain one
fn must_reject_docs() -> Vec<(String, &'static str)> {
    let mut v = vec![];
    for (lhs, rhs, needle) in [
        ("font.pointSize", "{ if (cb.checked) return 20; }", "cannot deduce return type from 'integer' and 'void'"),
        ("indent", "{ if (cb.checked) return 20; }", "cannot deduce return type from 'integer' and 'void'"),
        ("font.family", "{ switch (sb.value) { case 0: return \"a\"; case 1: break; default: return le.text } }", "cannot deduce return type from 'QString' and 'void'"),
        ("text", "{ switch (sb.value) { case 0: return \"a\"; case 1: break; default: return le.text } }", "cannot deduce return type from 'QString' and 'void'"),
        ("font.bold", "{ if (cb.checked) return 1; return false }", "cannot deduce return type from 'integer' and 'bool'"),
        ("font.bold", "sb.value", "expression type mismatch (expected: bool, actual: int)"),
        ("wordWrap", "sb.value", "expression type mismatch (expected: bool, actual: int)"),
        ("font.family", "{ if (cb.checked) { return le.text } else { return sb.value } }", "cannot deduce return type from 'QString' and 'int'"),
        ("font.pointSize", "{ if (cb.checked) { return 1 } }", "cannot deduce return type"),
        ("sizePolicy.horizontalStretch", "{ if (cb.checked) return sb.value; }", "cannot deduce return type from 'int' and 'void'"),
        ("sizePolicy.horizontalStretch", "le.text", "expression type mismatch (expected: int, actual: QString)"),
    ] {
        let doc = with_fixture(Obj::new("QWidget").with_id("root")).child(Obj::new("QLabel").with_id("t").bind(lhs, rhs)).to_qml();
        v.push((doc, needle));
    }
    v
}

fn insert_path(ms: &mut Vec<(String, Code)>, path: &[&str], leaf: Code) {
    if path.len() == 1 {
        ms.push((path[0].to_owned(), leaf));
        return;
    }
    if let Some((_, Code::Gadget(sub))) = ms.iter_mut().find(|(n, c)| n == path[0] && matches!(c, Code::Gadget(_))) {
        insert_path(sub, &path[1..], leaf);
        return;
    }
    let mut sub = vec![];
    insert_path(&mut sub, &path[1..], leaf);
    ms.push((path[0].to_owned(), Code::Gadget(sub)));
}

fn is_dynamic(c: &Code) -> bool {
    match c {
        Code::Expr(d, ..) | Code::ExprE(d, ..) | Code::ExprC(d, ..) => *d,
        Code::Gadget(ms) => ms.iter().any(|(_, c)| is_dynamic(c)),
    }
}

/// A document over the fixture whose bindings come from the template tables, with its abstract description.
fn inventory_doc(rng: &mut Rng) -> (String, Sexp) {
    let lit = |rng: &mut Rng| -> (String, String) {
        let s = if rng.chance(1, 3) { rng.pick(&fixed_strings()).clone() } else { gen_string(rng) };
        let q = qml_string_literal(&s, rng.below(6) as u32);
        (s, q)
    };
    let names = ["foo", "fooWindow", "fooG", "fooGInner", "foo1", "x", "xP", "x1", "main", "mainWindow", "w", "w1", "w11", "_u", "fooWindowTitle", "fooFont", "fooSizePolicy", "root2"];
    let mut order: Vec<&str> = names.to_vec();
    rng.shuffle(&mut order);
    let nobj = 1 + rng.below(5);
    let mut children: Vec<Obj> = vec![];
    let mut objs: Vec<Sexp> = vec![];
    let describe = |o: &Obj, props: Vec<(String, Code)>, cbs: Vec<(&'static str, Vec<&'static str>, Vec<(bool, String)>)>| -> Sexp {
        node("o", vec![
            st(o.id.clone().unwrap()),
            node("props", props.iter().map(|(n, c)| node("p", vec![st(n.clone()), c.sexp()])).collect()),
            node("cbs", cbs.iter().map(|(sig, uses, lits)| node("cb", vec![
                st(*sig),
                node("uses", uses.iter().map(|u| atom(*u)).collect()),
                node("lits", lits.iter().map(|(q, s)| node(if *q { "q" } else { "c" }, vec![st(s.clone())])).collect()),
            ])).collect()),
        ])
    };
    let decorate = |rng: &mut Rng, mut o: Obj, is_wbase: bool| -> (Obj, Sexp) {
        let is_group = o.class == "QGroupBox";
        let vt = value_templates(rng, &lit);
        let ct = callback_templates(rng, &lit);
        let mut props: Vec<(String, Code)> = vec![];
        let n = 1 + rng.below(9);
        let mut picks: Vec<usize> = (0..vt.len()).collect();
        rng.shuffle(&mut picks);
        for &k in picks.iter().take(n) {
            let (lhs, rhs, code) = &vt[k];
            let ok = is_wbase || matches!(*lhs, "windowTitle" | "toolTip") || lhs.starts_with("font.") || lhs.starts_with("sizePolicy.") || (is_group && *lhs == "title");
            if !ok {
                continue;
            }
            o.bindings.push((lhs.to_string(), rhs.clone()));
            let path: Vec<&str> = lhs.split('.').collect();
            insert_path(&mut props, &path, code.clone());
        }
        // a gadget map without any dynamic member would be a constant of a type uigen cannot serialise: make it dynamic
        for (name, code) in props.iter_mut() {
            if let Code::Gadget(ms) = code {
                if !ms.iter().any(|(_, c)| is_dynamic(c)) {
                    let extra = if name == "font" { "underline" } else { "horizontalPolicy" };
                    let rhs = if name == "font" { "cb2.checked" } else { "cb2.checked ? QSizePolicy.Fixed : QSizePolicy.Expanding" };
                    o.bindings.push((format!("{name}.{extra}"), rhs.into()));
                    let enums = if name == "font" {
                        vec![]
                    } else {
                        vec![
                            EnumUse { parent: "QSizePolicy", enum_name: "Policy", scoped: false, variant: "Fixed" },
                            EnumUse { parent: "QSizePolicy", enum_name: "Policy", scoped: false, variant: "Expanding" },
                        ]
                    };
                    ms.push((extra.into(), Code::ExprE(true, 0, vec![], vec![], enums)));
                }
            }
        }
        let mut cbs = vec![];
        let mut cpicks: Vec<usize> = (0..ct.len()).collect();
        rng.shuffle(&mut cpicks);
        for &k in cpicks.iter().take(rng.below(3)) {
            let (lhs, sig, rhs, uses, lits) = &ct[k];
            if !is_wbase && *lhs != "onWindowTitleChanged" {
                continue;
            }
            o.bindings.push((lhs.to_string(), rhs.clone()));
            cbs.push((*sig, uses.clone(), lits.clone()));
        }
        rng.shuffle(&mut o.bindings);
        let d = describe(&o, props, cbs);
        (o, d)
    };
    for k in 0..nobj {
        let is_wbase = rng.chance(4, 5);
        let o = Obj::new(if is_wbase { "WBase" } else { "QGroupBox" }).with_id(order[k]);
        let (o, d) = decorate(rng, o, is_wbase);
        children.push(o);
        objs.push(d);
    }
    let root_name = if rng.chance(1, 2) { "root" } else { "foo2" };
    let (mut root, rd) = decorate(rng, Obj::new("QWidget").with_id(root_name), false);
    for c in children {
        root.children.push(c);
    }
    objs.push(rd);
    let root = with_fixture(root);
    (root.to_qml(), node("objs", objs))
}

// ------------------------------------------------------------------------------------------------ the stream

fn docs_request(docs: &[(String, String)]) -> Sexp {
    node("c16-compile", docs.iter().map(|(n, s)| node("doc", vec![st(n.clone()), st(s.clone())])).collect())
}

impl Stream for C16 {
    fn generate(&self, seed: u64, thorough: bool) -> Vec<Case> {
        let mut cases = vec![];
        // (a) compile oracle ------------------------------------------------------------------------------------
        // operator/builtin probes, one document per expression, batched
        let mut probes = operator_probes();
        probes.extend(enum_probes());
        for (b, chunk) in probes.chunks(110).enumerate() {
            let docs: Vec<(String, String)> = chunk.iter().enumerate().map(|(k, (_, src))| (format!("P{b}x{k}"), src.clone())).collect();
            let mut labels: BTreeSet<String> = chunk.iter().map(|(l, _)| l.split('/').next().unwrap().to_owned()).collect();
            labels.insert("probes".into());
            cases.push(Case { kind: "oracle", labels: labels.into_iter().collect(), request: docs_request(&docs) });
        }
        // many bindings, gadgets, colliding prefixes
        let mut special: Vec<(String, String)> = vec![];
        for (k, n) in [0usize, 1, 2, 31, 32, 33, 40, 50, 63, 64, 65, 70, 96, 97, 130].iter().enumerate() {
            special.push((format!("Many{k}"), many_bindings_doc(*n, k)));
        }
        for (k, d) in gadget_docs().into_iter().enumerate() {
            special.push((format!("Gadget{k}"), d));
        }
        for (k, d) in collision_docs().into_iter().enumerate() {
            special.push((format!("Collide{k}"), d));
        }
        for chunk in special.chunks(16) {
            cases.push(Case { kind: "oracle", labels: vec!["special".into(), "many-bindings".into(), "gadget".into(), "collision".into()], request: docs_request(chunk) });
        }
        for (n, src) in &special {
            cases.push(Case { kind: "oracle", labels: vec!["scan".into(), "special".into()], request: node("c16-scan", vec![st(n.clone()), st(src.clone())]) });
        }
        // documents of the shared generator (constant + dynamic + gadget + attached + callbacks), with string literals
        let nrich = if thorough { 90 } else { 14 };
        for b in 0..nrich {
            let mut docs = vec![];
            for k in 0..30 {
                let mut rng = Rng::fork(seed, "c16-rich", (b * 100 + k) as u64);
                let per = 4 + rng.below(10);
                let (root, _) = rich_document(&mut rng, per, false);
                let src = root.to_qml();
                if k % 5 == 0 {
                    cases.push(Case { kind: "oracle", labels: vec!["scan".into(), "rich".into()], request: node("c16-scan", vec![st(format!("R{b}x{k}")), st(src.clone())]) });
                }
                docs.push((format!("R{b}x{k}"), src));
            }
            cases.push(Case { kind: "oracle", labels: vec!["rich".into()], request: docs_request(&docs) });
        }
        // (c) inventory vs model; the same documents also go through (a) and (b) ------------------------------------
        let ninv = if thorough { 4000 } else { 500 };
        let mut inv_docs: Vec<(String, String)> = vec![];
        let mut k = 0u64;
        let mut made = 0;
        while made < ninv && k < (ninv as u64) * 4 {
            let mut rng = Rng::fork(seed, "c16-inv", k);
            k += 1;
            let (src, objs) = inventory_doc(&mut rng);
            // the generator's job is to produce ACCEPTED documents (some literal/character combinations are refused)
            if self.translate("Inv", &src).is_none() {
                continue;
            }
            made += 1;
            cases.push(Case { kind: "model", labels: vec!["inventory".into()], request: node("c16-inv", vec![st(src.clone()), st("Inv"), objs]) });
            if made % 4 == 0 {
                cases.push(Case { kind: "oracle", labels: vec!["scan".into(), "inventory".into()], request: node("c16-scan", vec![st("Inv"), st(src.clone())]) });
            }
            if made % 3 == 0 {
                inv_docs.push((format!("I{made}"), src));
            }
        }
        // name-split families: every document goes to the model, the scan and the compiler
        let nsplit = if thorough { 1500 } else { 160 };
        let mut k = 0u64;
        let mut made = 0;
        while made < nsplit && k < (nsplit as u64) * 4 {
            let mut rng = Rng::fork(seed, "c16-split", k);
            k += 1;
            let (src, objs) = split_family_doc(&mut rng);
            if self.translate("Inv", &src).is_none() {
                continue;
            }
            made += 1;
            cases.push(Case { kind: "model", labels: vec!["inventory".into(), "name-split".into()], request: node("c16-inv", vec![st(src.clone()), st("Inv"), objs]) });
            cases.push(Case { kind: "oracle", labels: vec!["scan".into(), "name-split".into()], request: node("c16-scan", vec![st("Inv"), st(src.clone())]) });
            inv_docs.push((format!("S{made}"), src));
        }
        // enumerator spellings: model + scan + compiler
        let nenum = if thorough { 1500 } else { 160 };
        let mut k = 0u64;
        let mut made = 0;
        while made < nenum && k < (nenum as u64) * 4 {
            let mut rng = Rng::fork(seed, "c16-enum", k);
            k += 1;
            let (src, objs) = enum_family_doc(&mut rng);
            if self.translate("Inv", &src).is_none() {
                continue;
            }
            made += 1;
            cases.push(Case { kind: "model", labels: vec!["inventory".into(), "enum-spelling".into()], request: node("c16-inv", vec![st(src.clone()), st("Inv"), objs]) });
            if made % 2 == 0 {
                cases.push(Case { kind: "oracle", labels: vec!["scan".into(), "enum-spelling".into()], request: node("c16-scan", vec![st("Inv"), st(src.clone())]) });
            }
            inv_docs.push((format!("E{made}"), src));
        }
        // signal pointers: model (spelling) + scan + compiler
        let nsig = if thorough { 1200 } else { 120 };
        for k in 0..nsig {
            let mut rng = Rng::fork(seed, "c16-sig", k as u64);
            let (src, sigs) = signal_family_doc(&mut rng);
            if self.translate("Sig", &src).is_none() {
                continue;
            }
            cases.push(Case { kind: "model", labels: vec!["signal-pointer".into()], request: node("c16-lit", vec![atom("sig"), st(src.clone()), st("Sig"), sigs]) });
            if k % 3 == 0 {
                cases.push(Case { kind: "oracle", labels: vec!["scan".into(), "signal-pointer".into()], request: node("c16-scan", vec![st("Sig"), st(src.clone())]) });
            }
            inv_docs.push((format!("G{k}"), src));
        }
        // double constants: value of the spelled constant (compiled and run) and spelling of the non-finite ones
        let dc = double_constants();
        let mut items = vec![];
        for (k, (expr, v)) in dc.iter().enumerate() {
            for pos in 0..DOUBLE_POSITIONS.len() {
                if thorough || (k + pos) % 2 == 0 || !v.is_finite() {
                    items.push(node("d", vec![st(*expr), num(pos), st(format!("{:x}", v.to_bits()))]));
                }
                if !v.is_finite() {
                    let class = if v.is_nan() { "nan" } else if *v > 0.0 { "pinf" } else { "ninf" };
                    cases.push(Case { kind: "model", labels: vec!["double-constant".into(), class.into()], request: node("c16-lit", vec![atom("num"), st(double_doc(expr, pos)), atom(class)]) });
                }
            }
        }
        for chunk in items.chunks(48) {
            cases.push(Case { kind: "oracle", labels: vec!["double-constant".into()], request: node("c16-doubles", chunk.to_vec()) });
        }
        for (doc, needle) in must_reject_docs() {
            cases.push(Case { kind: "oracle", labels: vec!["must-reject".into()], request: node("c16-rejects", vec![st(doc), st(needle)]) });
        }
        for chunk in inv_docs.chunks(40) {
            cases.push(Case { kind: "oracle", labels: vec!["inventory".into(), "literals-in-documents".into()], request: docs_request(chunk) });
        }
        // (d) literals ------------------------------------------------------------------------------------------
        let mut strings: Vec<String> = fixed_strings();
        let nstr = if thorough { 6000 } else { 900 };
        let mut rng = Rng::fork(seed, "c16-str", 0);
        for _ in 0..nstr {
            strings.push(gen_string(&mut rng));
        }
        for (b, chunk) in strings.chunks(150).enumerate() {
            let req = node("c16-literals", chunk.iter().enumerate().map(|(k, s)| list(vec![st(s.clone()), num((b + k) % 6)])).collect());
            cases.push(Case { kind: "oracle", labels: vec!["literals-run".into()], request: req });
        }
        for (k, s) in strings.iter().enumerate() {
            cases.push(Case { kind: "model", labels: vec!["literal-spelling".into()], request: node("c16-lit", vec![st(s.clone()), num(k % 6)]) });
        }
        // validation of Spec.CxxLit against g++ (kind=spec): the compiler's reading of random spellings
        let nsp = if thorough { 12000 } else { 1500 };
        let mut rng = Rng::fork(seed, "c16-spelling", 0);
        let base: Vec<String> = strings
            .iter()
            .enumerate()
            .map(|(k, s)| if k % 2 == 0 { octal_style_spelling(s) } else { let d = format!("{s:?}"); d[1..d.len() - 1].to_owned() })
            .collect();
        let nchunks = (base.len() + nsp) / 200;
        for b in 0..nchunks {
            let narrow = b % 3 == 2;
            let mode = if narrow { "narrow" } else { "u16" };
            let mut args = vec![atom(mode)];
            for k in 0..200 {
                let idx = b * 200 + k;
                args.push(st(if idx < base.len() { base[idx].clone() } else { gen_spelling(&mut rng, narrow) }));
            }
            cases.push(Case { kind: "spec", labels: vec!["cxx-literal-spec".into(), mode.into()], request: node("spec-cxxlit", args) });
        }
        cases
    }

    fn answer(&self, req: &Sexp) -> Sexp {
        let (tag, args) = req.as_node().expect("request node");
        match tag {
            "c16-compile" => {
                let docs: Vec<(String, String)> = args
                    .iter()
                    .map(|d| {
                        let (_, a) = d.as_node().unwrap();
                        (a[0].as_str().unwrap().to_owned(), a[1].as_str().unwrap().to_owned())
                    })
                    .collect();
                self.compile_batch(&docs)
            }
            "c16-scan" => {
                let name = args[0].as_str().unwrap();
                let Some(b) = self.translate(name, args[1].as_str().unwrap()) else {
                    return node("ok", vec![atom("rejected")]);
                };
                match scan_header(&b.header).and_then(|sc| check_scan(&sc, name)) {
                    Ok(a) => a,
                    Err(e) => node("fail", vec![st(e)]),
                }
            }
            "c16-inv" => {
                let name = args[1].as_str().unwrap();
                let Some(b) = self.translate(name, args[0].as_str().unwrap()) else {
                    return node("rejected", vec![]);
                };
                match scan_header(&b.header) {
                    Ok(sc) => inventory(&sc),
                    Err(e) => node("scan-error", vec![st(e)]),
                }
            }
            "c16-literals" => {
                let strings: Vec<(String, u32)> = args
                    .iter()
                    .map(|a| {
                        let l = a.as_list().unwrap();
                        (l[0].as_str().unwrap().to_owned(), l[1].as_usize().unwrap() as u32)
                    })
                    .collect();
                self.literals(&strings)
            }
            "c16-lit" if args[0].as_atom() == Some("sig") => {
                let Some(b) = self.translate(args[2].as_str().unwrap(), args[1].as_str().unwrap()) else {
                    return node("rejected", vec![]);
                };
                node("overloads", overload_spellings(&b.header).into_iter().map(st).collect())
            }
            "c16-lit" if args[0].as_atom() == Some("num") => {
                let Some(b) = self.translate("D", args[1].as_str().unwrap()) else {
                    return node("rejected", vec![]);
                };
                match spelled_double(&b.header) {
                    Some(sp) => node("num", vec![st(sp)]),
                    None => node("num", vec![]),
                }
            }
            "c16-doubles" => {
                let items: Vec<(String, usize, u64)> = args
                    .iter()
                    .map(|d| {
                        let (_, a) = d.as_node().unwrap();
                        (a[0].as_str().unwrap().to_owned(), a[1].as_usize().unwrap(), u64::from_str_radix(a[2].as_str().unwrap(), 16).unwrap())
                    })
                    .collect();
                self.doubles(&items)
            }
            "c16-lit" => {
                let s = args[0].as_str().unwrap();
                let style = args[1].as_usize().unwrap() as u32;
                let Some(b) = self.translate("Lit", &literal_doc(s, style)) else {
                    return node("rejected", vec![]);
                };
                match scan_header(&b.header) {
                    Ok(sc) => node("lit", sc.lits.iter().map(|(q, sp)| node(if *q { "q" } else { "c" }, vec![st(sp.clone())])).collect()),
                    Err(e) => node("scan-error", vec![st(e)]),
                }
            }
            "spec-cxxlit" => {
                let u16_ = args[0].as_atom() == Some("u16");
                let sp: Vec<String> = args[1..].iter().map(|a| a.as_str().unwrap().to_owned()).collect();
                self.gxx_spec(u16_, &sp)
            }
            "c16-rejects" => {
                // (c16-rejects "qml" "needle"): the document is refused with a diagnostic containing the needle
                let t = env::translate(&self.tm, args[0].as_str().unwrap(), "Rej", Mode::Generate);
                let needle = args[1].as_str().unwrap();
                if t.accepted() {
                    node("fail", vec![st("document is accepted")])
                } else if t.diags.iter().any(|d| d.is_error && d.message.contains(needle)) {
                    node("ok", vec![atom("rejected")])
                } else {
                    node("fail", vec![st(format!("rejected, but no diagnostic mentions `{needle}`"))])
                }
            }
            "c16-diag" => {
                let t = env::translate(&self.tm, args[0].as_str().unwrap(), "Diag", Mode::Generate);
                node("diag", t.diags.iter().map(|d| st(format!("{}..{} {}", d.start, d.end, d.message))).collect())
            }
            "c16-metatypes" => {
                let path = args[0].as_str().unwrap();
                match std::fs::write(path, tweaked_metatypes_json()) {
                    Ok(()) => node("ok", vec![st(path)]),
                    Err(e) => node("fail", vec![st(e.to_string())]),
                }
            }
            _ => node("bad-request", vec![]),
        }
    }
}
