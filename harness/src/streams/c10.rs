//! C10 — object names.  Requests:
//!   (names (nodes (id|_ "Class")...))      post-order object list → names assigned by the real ObjectTree   [model, spec]
//!   (doc-names "qml text")                  full pipeline: names distinct, ids verbatim, references resolve     [oracle]
use crate::docgen::{family_of, Family, Obj, TreeGen, TreeOpts};
use crate::env::{self, Mode};
use crate::rng::Rng;
use crate::sexp::{atom, list, node, num, st, Sexp};
use crate::xml;
use crate::{Case, Stream};
use qmluic::diagnostic::Diagnostics;
use qmluic::objtree::ObjectTree;
use qmluic::qmlast::UiProgram;
use qmluic::qmldoc::UiDocument;
use qmluic::typemap::{ImportedModuleSpace, ModuleId, TypeMap};
use std::collections::{HashMap, HashSet};

pub struct C10 {
    tm: TypeMap,
}

impl C10 {
    pub fn new() -> Self {
        C10 { tm: env::load_type_map_with(env::adversarial_classes()) }
    }
}

fn id_pool() -> Vec<String> {
    [
        "label", "label1", "label2", "label_2", "Label1", "widget", "widget1", "widget2", "pushButton", "pushButton1",
        "action", "action1", "action2", "vboxLayout", "vboxLayout1", "hboxLayout", "gridLayout1", "spacerItem",
        "spacerItem1", "menu", "menu1", "lineEdit", "groupBox", "frame1", "dialog", "tabWidget", "q", "x",
    ]
    .iter()
    .map(|s| s.to_string())
    .collect()
}

fn nodes_request(tag: &str, root: &Obj) -> Sexp {
    let nodes: Vec<Sexp> = root
        .post_order()
        .iter()
        .map(|o| list(vec![o.id.as_ref().map(|i| atom(i.clone())).unwrap_or(atom("_")), st(o.class.clone())]))
        .collect();
    node(tag, vec![node("nodes", nodes)])
}

/// Rebuilds a flat (all siblings under one root widget) document from a `names` request.
fn doc_from_nodes(req: &Sexp) -> Obj {
    // The node list is post-order of an arbitrary tree; for the name assignment only the order matters, so a
    // flat document with the same post-order is equivalent: all nodes but the last are children of the last.
    let (_, args) = req.as_node().unwrap();
    let (_, nodes) = args[0].as_node().unwrap();
    let mk = |n: &Sexp| -> Obj {
        let l = n.as_list().unwrap();
        let mut o = Obj::new(l[1].as_str().unwrap());
        if let Some(a) = l[0].as_atom() {
            if a != "_" {
                o.id = Some(a.to_owned());
            }
        }
        o
    };
    let mut root = mk(nodes.last().unwrap());
    for n in &nodes[..nodes.len() - 1] {
        root.children.push(mk(n));
    }
    root
}

impl Stream for C10 {
    fn generate(&self, seed: u64, thorough: bool) -> Vec<Case> {
        let mut cases = vec![];
        let n = if thorough { 60_000 } else { 3_000 };
        for k in 0..n {
            let mut rng = Rng::fork(seed, "c10", k as u64);
            let adversarial = k % 3 != 0;
            let opts = TreeOpts {
                max_depth: 2 + rng.below(3),
                max_children: 2 + rng.below(5),
                id_chance: *rng.pick(&[(1, 2), (1, 4), (3, 4), (0, 1)]),
                id_pool: if adversarial { id_pool() } else { vec![] },
                allow_dup_ids: k % 7 == 0,
                extra_widget_classes: if adversarial {
                    ["Label1", "QLabel1", "KLabel", "Label", "Widget2", "QWidget1", "PushButton1"].iter().map(|s| s.to_string()).collect()
                } else {
                    vec![]
                },
                extra_action_classes: if adversarial { vec!["Action1".into()] } else { vec![] },
                extra_layout_classes: if adversarial { vec!["VBoxLayout1".into()] } else { vec![] },
                tab_widgets: true,
            };
            let mut root = TreeGen::new(&mut rng, opts).gen_root();
            let mut labels = vec![
                format!("objects{}", (root.count() / 5) * 5),
                if adversarial { "adversarial".into() } else { "plain".to_string() },
            ];
            let ids: Vec<String> = root.pre_order().iter().filter_map(|o| o.id.clone()).collect();
            let uniq: HashSet<&String> = ids.iter().collect();
            if uniq.len() != ids.len() {
                labels.push("dup-id".into());
            }
            // flat name-assignment comparison (model + spec)
            cases.push(Case { kind: "model", labels: labels.clone(), request: nodes_request("names", &root) });
            cases.push(Case { kind: "pred", labels: labels.clone(), request: nodes_request("spec-names", &root) });
            // full pipeline with references sprinkled in
            add_references(&mut rng, &mut root);
            cases.push(Case { kind: "oracle", labels, request: node("doc-names", vec![st(root.to_qml())]) });
        }
        cases
    }

    fn answer(&self, req: &Sexp) -> Sexp {
        let (tag, args) = req.as_node().expect("request node");
        match tag {
            "names" | "spec-names" => {
                let root = doc_from_nodes(req);
                let src = root.to_qml();
                let doc = UiDocument::parse(&src, "MyType", None);
                if doc.has_syntax_error() {
                    return node("syntax-error", vec![]);
                }
                let program = UiProgram::from_node(doc.root_node(), doc.source()).unwrap();
                let mut type_space = ImportedModuleSpace::new(&self.tm);
                assert!(type_space.import_module(ModuleId::Builtins));
                assert!(type_space.import_module(ModuleId::Named("qmluic.QtWidgets")));
                let mut diags = Diagnostics::new();
                let Some(tree) = ObjectTree::build(program.root_object_node(), doc.source(), &type_space, &mut diags) else {
                    return node("no-tree", diags.iter().map(|d| st(d.message())).collect());
                };
                let names: Vec<Sexp> = tree.flat_iter().map(|n| st(n.name())).collect();
                let mut dups: Vec<String> = diags.iter().map(|d| d.message().to_owned()).collect();
                dups.sort();
                node("names", vec![list(names), list(dups.into_iter().map(st).collect())])
            }
            "doc-names" => {
                let src = args[0].as_str().unwrap();
                check_doc(&self.tm, src)
            }
            _ => node("bad-request", vec![]),
        }
    }
}

fn add_references(rng: &mut Rng, root: &mut Obj) {
    let all: Vec<(String, String)> =
        root.pre_order().iter().filter_map(|o| o.id.clone().map(|i| (i, o.class.clone()))).collect();
    let widgets: Vec<String> = all.iter().filter(|(_, c)| family_of(c) == Family::Widget).map(|(i, _)| i.clone()).collect();
    let actions: Vec<String> =
        all.iter().filter(|(_, c)| matches!(family_of(c), Family::Action)).map(|(i, _)| i.clone()).collect();
    fn go(rng: &mut Rng, o: &mut Obj, widgets: &[String], actions: &[String]) {
        let base = match o.class.as_str() {
            "Label1" | "QLabel1" | "KLabel" | "Label" => "QLabel",
            "PushButton1" => "QPushButton",
            c => c,
        };
        if base == "QLabel" && !widgets.is_empty() && rng.chance(1, 2) {
            if !actions.is_empty() && rng.chance(1, 10) {
                // an object of the wrong kind: must be refused (if it were accepted the reference would name a non-widget)
                o.bindings.push(("buddy".into(), rng.pick(actions).clone()));
            } else {
                o.bindings.push(("buddy".into(), rng.pick(widgets).clone()));
            }
        }
        if (base == "QLabel" || base == "QPushButton" || base == "QLineEdit") && rng.chance(1, 3) {
            // dynamic binding referencing another object → `ui_-><id>` in the header
            let edits: Vec<&String> = widgets.iter().collect();
            if !edits.is_empty() {
                o.bindings.push(("toolTip".into(), format!("{}.windowTitle", rng.pick(&edits))));
            }
        }
        if family_of(&o.class) == Family::Widget && !actions.is_empty() && rng.chance(1, 8) && !o.class.starts_with("QTab") {
            let k = 1 + rng.below(actions.len().min(3));
            // an entry of the wrong kind now and then (a widget, a layout cast to QObject): the list must be refused — if
            // it were accepted, an <addaction> would name something that is neither an action nor a menu
            let refs: Vec<String> = (0..k)
                .map(|_| {
                    if !widgets.is_empty() && rng.chance(1, 12) {
                        let w = rng.pick(widgets).clone();
                        if rng.chance(1, 2) { w } else { format!("{w} as QObject") }
                    } else {
                        rng.pick(actions).clone()
                    }
                })
                .collect();
            o.bindings.push(("actions".into(), format!("[{}]", refs.join(", "))));
        }
        for c in &mut o.children {
            go(rng, c, widgets, actions);
        }
    }
    go(rng, root, &widgets, &actions);
    // an object below a static separator action (illegal): if the document is accepted all the same, nothing may still
    // refer to the vanished object
    if rng.chance(1, 10) {
        let mut sep = Obj::new("QAction");
        sep.bindings.push(("separator".into(), "true".into()));
        sep.children.push(Obj::new("QLineEdit").with_id("orphanEdit"));
        let mut lab = Obj::new("QLabel");
        lab.bindings.push(("buddy".into(), "orphanEdit".into()));
        if rng.chance(1, 2) {
            lab.bindings.push(("toolTip".into(), "orphanEdit.text".into()));
        }
        root.children.push(sep);
        root.children.push(lab);
    }
}

fn check_doc(tm: &TypeMap, src: &str) -> Sexp {
    let doc = UiDocument::parse(src, "MyType", None);
    if doc.has_syntax_error() {
        return node("fail", vec![st("generated document has a syntax error")]);
    }
    // the ids written in the document, by a trivial scan (ids are on their own lines)
    let ids: Vec<String> = src
        .lines()
        .filter_map(|l| l.trim().strip_prefix("id: ").map(|s| s.trim().to_owned()))
        .collect();
    let uniq: HashSet<&String> = ids.iter().collect();
    let t = env::translate_doc(tm, &doc, Mode::Generate);
    if uniq.len() != ids.len() {
        return if t.diags.iter().any(|d| d.is_error && d.message.starts_with("duplicated object id")) {
            node("ok", vec![atom("dup-rejected")])
        } else {
            node("fail", vec![st("duplicate id not rejected")])
        };
    }
    if !t.accepted() {
        // rejection for another reason (e.g. action with children) says nothing about names
        let msgs: Vec<Sexp> = t.diags.iter().filter(|d| d.is_error).map(|d| st(d.message.clone())).collect();
        return node("ok", vec![atom("rejected"), list(msgs)]);
    }
    let root = xml::parse(t.ui.as_ref().unwrap()).expect("well-formed ui");
    let mut declared: HashMap<String, String> = HashMap::new(); // name → kind/class
    let mut kinds: HashMap<String, String> = HashMap::new(); // name → element name (widget/layout/spacer/action)
    for e in root.descendants() {
        if matches!(e.name.as_str(), "widget" | "layout" | "spacer" | "action") {
            let Some(n) = e.attr("name") else {
                return node("fail", vec![st(format!("<{}> without name", e.name))]);
            };
            let cls = e.attr("class").unwrap_or(&e.name).to_owned();
            kinds.insert(n.to_owned(), e.name.clone());
            if declared.insert(n.to_owned(), cls).is_some() {
                return node("fail", vec![st(format!("name '{n}' declared twice in the .ui"))]);
            }
        }
    }
    // ids verbatim (separator actions have no element)
    for id in &ids {
        if !declared.contains_key(id) {
            return node("fail", vec![st(format!("id '{id}' is not the name of any element"))]);
        }
    }
    let mut refs = 0;
    for e in root.descendants() {
        if e.name == "addaction" {
            let n = e.attr("name").unwrap_or("");
            refs += 1;
            if n != "separator" {
                match declared.get(n) {
                    Some(c) if c == "action" || c == "QMenu" => {}
                    Some(c) => return node("fail", vec![st(format!("addaction '{n}' refers to a {c}"))]),
                    None => return node("fail", vec![st(format!("addaction '{n}' refers to nothing"))]),
                }
            }
        }
        if e.name == "cstring" {
            // object-valued properties (buddy) are written as <cstring>
            refs += 1;
            let n = e.text();
            if !declared.contains_key(&n) {
                return node("fail", vec![st(format!("object reference '{n}' refers to nothing"))]);
            }
            // the only object-valued property generated is QLabel.buddy : QWidget*
            if kinds.get(&n).map(|k| k.as_str()) != Some("widget") {
                return node("fail", vec![st(format!("object reference '{n}' (a widget-valued property) refers to a <{}>", kinds.get(&n).cloned().unwrap_or_default()))]);
            }
        }
    }
    if let Some(h) = &t.header {
        let bytes = h.as_bytes();
        let mut i = 0;
        while let Some(p) = h[i..].find("ui_->") {
            let s = i + p + 5;
            let mut e = s;
            while e < bytes.len() && (bytes[e].is_ascii_alphanumeric() || bytes[e] == b'_') {
                e += 1;
            }
            let n = &h[s..e];
            refs += 1;
            if !declared.contains_key(n) {
                return node("fail", vec![st(format!("header uses ui_->{n} which is not declared in the .ui"))]);
            }
            i = e;
        }
    }
    node("ok", vec![num(declared.len()), num(refs)])
}
