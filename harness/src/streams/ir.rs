//! Exact-IR correspondence (DESIGN.md stream 1): generated binding programs and callbacks over the verification
//! classes are compiled by the REAL pipeline (`uigen::build`, i.e. `tir::build`/`build_callback` with the real
//! `ObjectContext` name resolution, then `analyze_code_property_dependency`); the IR observed through the
//! read-only hook is compared with the Lean model's IR.  Request:
//!   (build (this "a" "VBase") (objects ("a" "VBase")…) (kind prop "i" | cb "fired2") <program>)
//! Answer: (code …) (eval …) (diags …)  |  (rejected (diags …))
use crate::ast::{self, Program};
use crate::env::{self, Mode};
use crate::irser;
use crate::proggen::{Gen, Ty};
use crate::rng::Rng;
use crate::sexp::{atom, list, node, st, Sexp};
use crate::{Case, Stream};
use qmluic::diagnostic::Diagnostics;
use qmluic::qmldoc::UiDocument;
use qmluic::qtname::FileNameRules;
use qmluic::typemap::TypeMap;
use qmluic::uigen::{self, verif_hook, BuildContext};
use std::cell::RefCell;
use std::rc::Rc;

pub struct Ir {
    tm: TypeMap,
}

impl Ir {
    pub fn new() -> Self {
        Ir { tm: env::load_verif_type_map() }
    }
}

pub const OBJECTS: &[(&str, &str)] = &[("a", "VBase"), ("b", "VBase"), ("o", "VOther"), ("dv", "VDerived")];

pub fn prop_of(ty: Ty) -> &'static str {
    ty.base_props()[0]
}

pub fn make_request(kind: Sexp, program: &Program) -> Sexp {
    node(
        "build",
        vec![
            node("this", vec![st("a"), st("VBase")]),
            node("objects", OBJECTS.iter().map(|(i, c)| list(vec![st(*i), st(*c)])).collect()),
            kind,
            program.sexp(),
        ],
    )
}

/// the same request under another tag (predicate checks on the real IR use the `build` arguments)
pub fn retag(req: &Sexp, tag: &str) -> Sexp {
    let (_, args) = req.as_node().unwrap();
    node(tag, args.to_vec())
}

pub fn document(lhs: &str, program: &Program) -> String {
    let mut src = String::from("import qmluic.QtWidgets\nQWidget {\n    windowTitle: \"anchor\"\n");
    for (id, cls) in OBJECTS {
        src.push_str(&format!("    {cls} {{\n        id: {id}\n"));
        if *id == "a" {
            src.push_str(&format!("        {lhs}: {}", program.print(8)));
            if !src.ends_with('\n') {
                src.push('\n');
            }
        }
        src.push_str("    }\n");
    }
    src.push_str("}\n");
    src
}

/// the same document shape with raw source text for the binding value (may contain further bindings of object `a`)
pub fn document_raw(lhs: &str, value_text: &str) -> String {
    let mut src = String::from("import qmluic.QtWidgets\nQWidget {\n    windowTitle: \"anchor\"\n");
    for (id, cls) in OBJECTS {
        src.push_str(&format!("    {cls} {{\n        id: {id}\n"));
        if *id == "a" {
            src.push_str(&format!("        {lhs}: {value_text}\n"));
        }
        src.push_str("    }\n");
    }
    src.push_str("}\n");
    src
}

pub struct Observed {
    pub code: Option<Sexp>,
    pub eval: Option<Sexp>,
    pub built_diags: usize,
}

/// Runs the real pipeline on `src` and captures the IR of binding `path` (property path or signal name) of object `a`.
pub fn observe(tm: &TypeMap, src: &str, kind: &str, path: &str) -> Result<(Observed, Vec<env::Diag>), Sexp> {
    let doc = UiDocument::parse(src, "MyType", None);
    if doc.has_syntax_error() {
        return Err(node("syntax-error", vec![st(src)]));
    }
    let captured: Rc<RefCell<Observed>> = Rc::new(RefCell::new(Observed { code: None, eval: None, built_diags: usize::MAX }));
    let cap = captured.clone();
    let kind = kind.to_owned();
    let path = path.to_owned();
    verif_hook::set_observer(Box::new(move |ev| {
        if ev.phase != "built" {
            return;
        }
        let mut c = cap.borrow_mut();
        c.built_diags = ev.diagnostics_len;
        if ev.object_name == "a" && ev.kind == kind && ev.path == path {
            c.code = Some(irser::code_body(ev.code));
            if kind == "property" {
                let v = std::panic::catch_unwind(std::panic::AssertUnwindSafe(|| qmluic::tir::evaluate_code(ev.code)));
                c.eval = Some(match v {
                    Ok(v) => irser::evaluated(&v),
                    Err(_) => atom("panic"),
                });
            }
        }
    }));
    let ctx = BuildContext::prepare(tm, FileNameRules::default(), Mode::Generate.handling()).unwrap();
    let mut diags = Diagnostics::new();
    let r = std::panic::catch_unwind(std::panic::AssertUnwindSafe(|| uigen::build(&ctx, &doc, &mut diags)));
    verif_hook::clear_observer();
    if let Err(e) = r {
        return Err(node("panic", vec![st(crate::panic_message(e))]));
    }
    let ds: Vec<env::Diag> = diags
        .iter()
        .map(|d| env::Diag {
            is_error: d.kind() == qmluic::diagnostic::DiagnosticKind::Error,
            start: d.byte_range().start,
            end: d.byte_range().end,
            message: d.message().to_owned(),
        })
        .collect();
    let o = Rc::try_unwrap(captured).ok().expect("observer dropped").into_inner();
    Ok((o, ds))
}

const SIGNALS: &[(&str, &[Ty])] = &[
    ("fired", &[]),
    ("fired2", &[Ty::Int, Ty::Str]),
    ("defaulted", &[Ty::Bool]),
    ("moved", &[Ty::PBase]),
    ("iChanged", &[]),
];

fn cap(s: &str) -> String {
    let mut c = s.chars();
    match c.next() {
        Some(f) => f.to_ascii_uppercase().to_string() + c.as_str(),
        None => String::new(),
    }
}

impl Stream for Ir {
    fn generate(&self, seed: u64, thorough: bool) -> Vec<Case> {
        let mut cases = vec![];
        let n = if thorough { 120_000 } else { 8_000 };
        for k in 0..n {
            let mut rng = Rng::fork(seed, "ir", k as u64);
            let noise = *rng.pick(&[0u32, 0, 0, 20, 60]);
            let depth = 1 + rng.below(if thorough { 6 } else { 4 });
            let constant = k % 5 == 4;
            let mut labels = vec![format!("depth{depth}"), format!("noise{noise}")];
            if k % 4 == 3 {
                let (sig, params) = *rng.pick(SIGNALS);
                let mut g = Gen::new(&mut rng, noise);
                let p = g.callback(params, depth.min(3));
                labels.push("callback".into());
                let req = make_request(node("kind", vec![atom("cb"), st(sig)]), &p);
                cases.push(Case { kind: "pred", labels: labels.clone(), request: retag(&req, "cfgcheck") });
                if k % 2 == 1 {
                    let mut l = labels.clone();
                    l.push("hdr-callback".into());
                    cases.push(Case { kind: "pred", labels: l, request: retag(&req, "cfgcheck-cxx") });
                }
                cases.push(Case { kind: "model", labels, request: req });
            } else {
                let ty = *rng.pick(crate::proggen::ALL_TYS);
                let mut g = Gen::new(&mut rng, noise);
                g.constant_only = constant;
                let p = g.binding(ty, depth);
                labels.push(format!("{ty:?}"));
                if constant {
                    labels.push("constant".into());
                }
                if matches!(p, Program::Stmt(crate::ast::Stmt::Block(_))) {
                    labels.push("block".into());
                }
                let req = make_request(node("kind", vec![atom("prop"), st(prop_of(ty))]), &p);
                cases.push(Case { kind: "pred", labels: labels.clone(), request: retag(&req, "cfgcheck") });
                if k % 2 == 0 {
                    // the same program through the whole pipeline: the bodies found in the real header; for the types
                    // that have one, as a sub-binding of a grouped (gadget) property of the QWidget-derived VBase
                    let path = match ty {
                        Ty::Int if k % 4 == 0 => *rng.pick(&["font.pointSize", "font.weight", "sizePolicy.horizontalStretch"]),
                        Ty::Bool if k % 4 == 0 => *rng.pick(&["font.bold", "font.italic", "font.kerning"]),
                        Ty::Str if k % 4 == 0 => "font.family",
                        _ => prop_of(ty),
                    };
                    let mut l = labels.clone();
                    l.push(if path.contains('.') { "hdr-gadget".into() } else { "hdr".into() });
                    // one in six: the tail of a block body is cut off, so that some path may end without a value: the
                    // translator must then refuse the binding (nothing to check) — if it accepts, the body in the header
                    // has a reachable bare `return;`
                    let hp = match &p {
                        Program::Stmt(crate::ast::Stmt::Block(stmts)) if stmts.len() >= 2 && rng.chance(1, 6) => {
                            l.push("tail-cut".into());
                            Program::Stmt(crate::ast::Stmt::Block(stmts[..stmts.len() - 1].to_vec()))
                        }
                        _ => p.clone(),
                    };
                    let hreq = make_request(node("kind", vec![atom("prop"), st(path)]), &hp);
                    cases.push(Case { kind: "pred", labels: l, request: retag(&hreq, "cfgcheck-cxx") });
                }
                cases.push(Case { kind: "model", labels, request: req });
            }
        }
        cases
    }

    fn answer(&self, req: &Sexp) -> Sexp {
        let (tag, args) = req.as_node().expect("request node");
        if tag == "cfgcheck-cxx" {
            // the function bodies of the REAL header, re-read from the emitted C++ (harness/src/cxxcfg.rs)
            let (_, kind) = args[2].as_node().unwrap();
            let is_cb = kind[0].as_atom() == Some("cb");
            let name = kind[1].as_str().unwrap();
            let program = ast::program_of(&args[3]);
            let lhs = if is_cb { format!("on{}", cap(name)) } else { name.to_owned() };
            let src = document(&lhs, &program);
            let t = env::translate(&self.tm, &src, "MyType", Mode::Generate);
            if t.syntax_errors > 0 {
                return node("syntax-error", vec![st(src)]);
            }
            if t.has_error() || t.header.is_none() {
                return node("rejected", t.diags.iter().filter(|d| d.is_error).map(|d| st(d.message.clone())).collect());
            }
            return match crate::cxxcfg::functions(t.header.as_deref().unwrap()) {
                Ok(fns) => node("header", fns),
                Err(e) => node("unreadable-header", vec![st(e)]),
            };
        }
        let (_, kind) = args[2].as_node().unwrap();
        let is_cb = kind[0].as_atom() == Some("cb");
        let name = kind[1].as_str().unwrap();
        let program = ast::program_of(&args[3]);
        let lhs = if is_cb { format!("on{}", cap(name)) } else { name.to_owned() };
        let src = document(&lhs, &program);
        let (obs, diags) = match observe(&self.tm, &src, if is_cb { "callback" } else { "property" }, name) {
            Ok(x) => x,
            Err(e) => return e,
        };
        // diagnostics of the build/analysis phase only (those pushed before the "built" observation point)
        let n = obs.built_diags.min(diags.len());
        let msgs: Vec<Sexp> = diags[..n].iter().filter(|d| d.is_error).map(|d| st(d.message.clone())).collect();
        let mut dv = vec![atom("diags")];
        dv.extend(msgs);
        match obs.code {
            Some(code) => node("built", vec![code, node("eval", vec![obs.eval.unwrap_or(atom("_"))]), list(dv)]),
            None => node("rejected", vec![list(dv)]),
        }
    }
}
